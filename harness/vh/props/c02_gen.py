"""C02 inputs: (1) random line lists for the text path, (2) decoration of scenario.make() scenarios with
string-literal arguments, block strings, directives with arguments, variable defaults and @mixin,
(3) the finding-class predicates on the printed operation text, (4) the direct property oracle.

The base scenario generator is untouched (its streams keep their seeds); everything here is layered on top
with its own random.Random.
"""
from __future__ import annotations

import copy
import random

from graphql import (ArgumentNode, DirectiveNode, FieldNode, FragmentDefinitionNode, FragmentSpreadNode,
                     InlineFragmentNode, IntValueNode, ListValueNode, NamedTypeNode, NameNode, NoUnusedFragmentsRule,
                     ObjectFieldNode, ObjectValueNode, OperationDefinitionNode, OperationType, SelectionSetNode,
                     StringValueNode, VariableDefinitionNode, VariableNode, build_schema, parse, print_ast,
                     specified_rules, validate)

from ..gen import scenario

# ------------------------------------------------------------------------------------------------ text path
LINE_POOL = (list("abq {}():$!@,.[]") + ["'", "'", '"', '"', "\\", "\\", "n", "t", "x", "u", "0", "4", "1", "#", "=",
                                          "  ", '"""', "\\n", '\\"', "ż", "😀", "N", "{", "\t", "é", "\\\\"])
SAFE_POOL = list("abqXYZ {}():$!@,.[]#=0123456789_-+*/<>|&^%~`?;") + ['"', '""', "  ", "ż", "😀", "é", "中"]


def rand_lines(rng: random.Random, safe: bool):
    pool = SAFE_POOL if safe else LINE_POOL
    k = rng.choice([1, 2, 2, 3, 3, 4, 5, 6])
    lines = ["".join(rng.choice(pool) for _ in range(rng.randint(0, 14))) for _ in range(k)]
    if rng.random() < 0.5:
        lines = ["query A {"] + lines + ["}"]
    return lines


def is_safe_line(l: str) -> bool:
    """Multiline safe alphabet (MultilineP.safe_line): printable, no ', no backslash, no three double quotes"""
    return ("'" not in l and "\\" not in l and '"""' not in l and all(ord(c) >= 32 and ord(c) != 127 for c in l)
            and l.isprintable())


# ------------------------------------------------------------------------------------------------ literals
VALUE_ATOMS_SAFE = (list("abcXYZ019 _-.,:;!?()[]{}<>/|@$%^&*+~`") + ["#", "=", " = ", " # ", '"', '""', "\\", "\\\\", "\t",
                                                                     "\r", "é", "Zażółć", "😀", "\u200b", "  ", "t", "r",
                                                                     "u0041", "x41", "中文"])
VALUE_ATOMS_ADV = ["'", "''", "\n", "n", "\\n", '"""', "\u2028", "\u2029", "it's", "\\'", "\n   \n", "\n \nx"]


def rand_value(rng: random.Random, adversarial: bool, maxlen: int = 8) -> str:
    atoms = VALUE_ATOMS_SAFE + (VALUE_ATOMS_ADV * 3 if adversarial else [])
    return "".join(rng.choice(atoms) for _ in range(rng.randint(0, maxlen)))[:24]


FORMER_TEXT_CLASSES = ("C02-literal-single-quote", "C02-literal-backslash-n", "C02-block-string", "C02-literal-line-separator")


def text_classes(printed: str) -> list[str]:
    """classes of the text path, decided on the printed operation text (what the generator embeds); the first four
    are fixed (0f971a2) and kept as labels of the input distribution, the last one is open"""
    out = []
    if any(l and not l.strip(" ") for l in printed.split("\n")):
        out.append("C02-block-string-blank-line")
    if "'" in printed:
        out.append("C02-literal-single-quote")
    if "\\n" in printed:
        out.append("C02-literal-backslash-n")
    if '"""' in printed:
        out.append("C02-block-string")
    if "\u2028" in printed or "\u2029" in printed:
        out.append("C02-literal-line-separator")
    return out


# ------------------------------------------------------------------------------------------------ decoration
EXT_DIRECTIVE = ("directive @tag(label: String, n: Int = 0) repeatable on FIELD | FRAGMENT_SPREAD | INLINE_FRAGMENT "
                 "| QUERY | MUTATION | FRAGMENT_DEFINITION | VARIABLE_DEFINITION\n\n")
EXT_INPUT = "input C02In {\n  text: String = \"d\"\n  tags: [String!]\n}\n\n"
EXT_FIELD = "  c02Echo(s: String, ss: [String!], n: Int = 1, inp: C02In): String\n"
MIXINS_FILE = "class M:\n    c02_marker = 1\n\n\nclass N:\n    pass\n"


def name(s):
    return NameNode(value=s)


def sval(v: str, block=False):
    return StringValueNode(value=v, block=block)


def tag(rng, lit):
    args = [ArgumentNode(name=name("label"), value=lit())]
    if rng.random() < 0.4:
        args.append(ArgumentNode(name=name("n"), value=IntValueNode(value=str(rng.randint(-3, 99)))))
    return DirectiveNode(name=name("tag"), arguments=tuple(args))


def mixin_dir(cls="M"):
    return DirectiveNode(name=name("mixin"), arguments=(
        ArgumentNode(name=name("from"), value=sval(".c02_mixins")),
        ArgumentNode(name=name("import"), value=sval(cls))))


def decorate(sc: scenario.Scenario, seed: int, adversarial=False, mixin_field=True, mixin_def=False,
             blocks=False, density=0.25):
    """-> new Scenario (validated) or None.  Literals are drawn by `rand_value`; `blocks` allows block strings."""
    rng = random.Random(seed)
    doc = parse(sc.queries, no_location=True)
    defs = [copy.deepcopy(d) for d in doc.definitions]

    def lit():
        v = rand_value(rng, adversarial)
        b = blocks and rng.random() < 0.35
        if b and ('"""' in v or "\\" in v.rstrip("\\")[-1:]):
            b = False
        return sval(v, block=b)

    used_mixin = False

    def walk(selset, depth=0):
        nonlocal used_mixin
        for s in selset.selections:
            if isinstance(s, FieldNode):
                if rng.random() < density * 0.5:
                    s.directives = tuple(s.directives or ()) + (tag(rng, lit),)
                if s.selection_set is not None:
                    if mixin_field and rng.random() < density * 0.5:
                        s.directives = tuple(s.directives or ()) + (mixin_dir(rng.choice("MN")),)
                        used_mixin = True
                    walk(s.selection_set, depth + 1)
            elif isinstance(s, FragmentSpreadNode):
                if rng.random() < density * 0.4:
                    s.directives = tuple(s.directives or ()) + (tag(rng, lit),)
            elif isinstance(s, InlineFragmentNode):
                if rng.random() < density * 0.4:
                    s.directives = tuple(s.directives or ()) + (tag(rng, lit),)
                walk(s.selection_set, depth + 1)

    for d in defs:
        if isinstance(d, OperationDefinitionNode):
            walk(d.selection_set)
            if rng.random() < 0.3:
                d.directives = tuple(d.directives or ()) + (tag(rng, lit),)
            if d.operation == OperationType.QUERY and rng.random() < 0.8:
                vdefs = list(d.variable_definitions or ())
                vs = VariableDefinitionNode(variable=VariableNode(name=name("c02s")),
                                            type=NamedTypeNode(name=name("String")), default_value=lit(),
                                            directives=((tag(rng, lit),) if rng.random() < 0.3 else ()))
                vn = VariableDefinitionNode(variable=VariableNode(name=name("c02n")),
                                            type=NamedTypeNode(name=name("Int")),
                                            default_value=IntValueNode(value=str(rng.randint(0, 9))), directives=())
                vi = VariableDefinitionNode(
                    variable=VariableNode(name=name("c02i")), type=NamedTypeNode(name=name("C02In")),
                    default_value=ObjectValueNode(fields=(
                        ObjectFieldNode(name=name("text"), value=lit()),
                        ObjectFieldNode(name=name("tags"), value=ListValueNode(values=(lit(), lit()))))),
                    directives=())
                use_var = rng.random() < 0.5
                d.variable_definitions = tuple(vdefs + [vs, vn] + ([vi] if use_var else []))
                args = [ArgumentNode(name=name("s"), value=lit()),
                        ArgumentNode(name=name("ss"), value=ListValueNode(values=(lit(), VariableNode(name=name("c02s"))))),
                        ArgumentNode(name=name("n"), value=VariableNode(name=name("c02n"))),
                        ArgumentNode(name=name("inp"), value=(
                            VariableNode(name=name("c02i")) if use_var else
                            ObjectValueNode(fields=(ObjectFieldNode(name=name("text"), value=lit()),))))]
                rng.shuffle(args)
                f = FieldNode(alias=name("c02x") if rng.random() < 0.7 else None, name=name("c02Echo"),
                              arguments=tuple(args), directives=((tag(rng, lit),) if rng.random() < 0.5 else ()),
                              selection_set=None)
                sels = list(d.selection_set.selections)
                sels.insert(rng.randint(0, len(sels)), f)
                d.selection_set = SelectionSetNode(selections=tuple(sels))
        elif isinstance(d, FragmentDefinitionNode):
            walk(d.selection_set)
            if rng.random() < density:
                d.directives = tuple(d.directives or ()) + (tag(rng, lit),)
            if mixin_def and rng.random() < 0.5:
                d.directives = tuple(d.directives or ()) + (mixin_dir("M"),)
                used_mixin = True
    queries = "\n\n".join(print_ast(d) for d in defs) + "\n"
    if "type Query {\n" not in sc.sdl:
        return None
    sdl = EXT_DIRECTIVE + EXT_INPUT + sc.sdl.replace("type Query {\n", "type Query {\n" + EXT_FIELD, 1)
    try:
        gs = build_schema(sdl)
        from ariadne_codegen.schema import add_mixin_directive_to_schema

        vs = add_mixin_directive_to_schema(build_schema(sdl))
        errs = validate(vs, parse(queries), [r for r in specified_rules if r is not NoUnusedFragmentsRule])
    except Exception:
        return None
    if errs:
        return None
    cfg = dict(sc.config)
    files = dict(sc.files)
    if used_mixin:
        files["c02_mixins.py"] = MIXINS_FILE
        cfg["files_to_include"] = ["c02_mixins.py"]
    return scenario.Scenario(seed=sc.seed, sdl=sdl, queries=queries, config=cfg,
                             features=tuple(sc.features) + ("c02",) + (("adv",) if adversarial else ()),
                             files=files, notes=dict(sc.notes, c02_seed=seed, schema=gs))


TINY_SDL = EXT_DIRECTIVE + EXT_INPUT + "type Query {\n" + EXT_FIELD + "  other: Int\n}\n"


def tiny(value: str, block: bool, where: str, seed: int = 0) -> scenario.Scenario:
    """one operation, one adversarial literal at one position of a fixed tiny schema"""
    lit = print_ast(sval(value, block))
    if where == "argument":
        q = f"query Lit {{ c02Echo(s: {lit}) }}"
    elif where == "list":
        q = f"query Lit {{ c02Echo(ss: [\"a\", {lit}]) }}"
    elif where == "object":
        q = f"query Lit {{ c02Echo(inp: {{text: {lit}}}) }}"
    elif where == "directive":
        q = f"query Lit {{ other @tag(label: {lit}) }}"
    elif where == "default":
        q = f"query Lit($v: String = {lit}) {{ c02Echo(s: $v) }}"
    elif where == "fragment":
        q = f"query Lit {{ ...LF }} fragment LF on Query {{ c02Echo(s: {lit}) }}"
    else:
        raise ValueError(where)
    q = print_ast(parse(q)) + "\n"
    return scenario.Scenario(seed=seed, sdl=TINY_SDL, queries=q, config={"async_client": bool(seed % 2)},
                             features=("c02", "tiny"), notes={"value": value, "block": block, "where": where})


WHERE = ["argument", "list", "object", "directive", "default", "fragment"]


# ------------------------------------------------------------------------------------------------ oracle
def reachable(doc, op):
    frags = {d.name.value: d for d in doc.definitions if isinstance(d, FragmentDefinitionNode)}
    seen, todo = [], [op.selection_set]
    while todo:
        ss = todo.pop()
        for s in ss.selections:
            if isinstance(s, FragmentSpreadNode):
                n = s.name.value
                if n not in seen and n in frags:
                    seen.append(n)
                    todo.append(frags[n].selection_set)
            elif getattr(s, "selection_set", None) is not None:
                todo.append(s.selection_set)
    return sorted(seen), frags


def strip_mixin_everywhere(enc):
    """plain encoded definition (docenc.parsed form) with every directive named mixin removed"""
    def dirs(ds):
        return [d for d in ds if d[0] != "mixin"]

    def sel(s):
        if s[0] == "f":
            sub = s[5]
            return ["f", s[1], s[2], s[3], dirs(s[4]), sub if sub == "none" else ["some", [sel(x) for x in sub[1]]]]
        if s[0] == "s":
            return ["s", s[1], dirs(s[2])]
        if s[0] == "i":
            return ["i", s[1], dirs(s[2]), [sel(x) for x in s[3]]]
        return s

    if enc[0] == "op":
        return ["op", enc[1], enc[2], [[v[0], v[1], v[2], dirs(v[3])] for v in enc[3]], dirs(enc[4]),
                [sel(x) for x in enc[5]]]
    return ["frag", enc[1], enc[2], dirs(enc[3]), [sel(x) for x in enc[4]]]


AUTO = ["f", "none", "__typename", [], [], "none"]


def undo_typename(sent_sels, auth_sels, path, diffs):
    """compare selection lists; a leading plain __typename the authored list does not start with is the
    documented automatic insertion"""
    if len(sent_sels) == len(auth_sels) + 1:
        # one extra plain __typename, wherever the generator put it
        for p, s in enumerate(sent_sels):
            if s == AUTO and (p >= len(auth_sels) or auth_sels[p] != AUTO):
                sent_sels = sent_sels[:p] + sent_sels[p + 1:]
                diffs.setdefault("auto_typename", 0)
                diffs["auto_typename"] += 1
                break
            if p >= len(auth_sels) or s[0] != auth_sels[p][0]:
                break
    if len(sent_sels) != len(auth_sels):
        diffs.setdefault("mismatch", []).append({"path": path, "what": "selection count", "sent": sent_sels, "authored": auth_sels})
        return
    for i, (a, b) in enumerate(zip(sent_sels, auth_sels)):
        if a[0] != b[0]:
            diffs.setdefault("mismatch", []).append({"path": path + [i], "what": "selection kind", "sent": a, "authored": b})
        elif a[0] == "f":
            if a[1:5] != b[1:5]:
                diffs.setdefault("mismatch", []).append({"path": path + [i], "what": "field head", "sent": a[:5], "authored": b[:5]})
            if (a[5] == "none") != (b[5] == "none"):
                diffs.setdefault("mismatch", []).append({"path": path + [i], "what": "sub-selection presence"})
            elif a[5] != "none":
                undo_typename(a[5][1], b[5][1], path + [i], diffs)
        elif a[0] == "i":
            if a[1:3] != b[1:3]:
                diffs.setdefault("mismatch", []).append({"path": path + [i], "what": "inline head", "sent": a[:3], "authored": b[:3]})
            undo_typename(a[3], b[3], path + [i], diffs)
        elif a != b:
            diffs.setdefault("mismatch", []).append({"path": path + [i], "what": "spread", "sent": a, "authored": b})


def oracle(schema, authored_doc, op, query_text, operation_name):
    """The property, evaluated directly on one captured request.  -> list of problem dicts (empty = holds)."""
    from ..canon import docenc

    problems = []
    if query_text is None:
        return [{"kind": "no-query"}]
    try:
        sent = parse(query_text)
    except Exception as exc:  # noqa
        return [{"kind": "unparseable", "error": str(exc)[:300]}]
    try:
        errs = validate(schema, sent, specified_rules)
    except Exception as exc:  # noqa
        errs = [exc]
    if errs:
        problems.append({"kind": "invalid", "errors": [str(e)[:200] for e in errs][:4]})
    ops = [d for d in sent.definitions if isinstance(d, OperationDefinitionNode)]
    if len(ops) != 1 or not ops[0].name or ops[0].name.value != operation_name or operation_name != op.name.value:
        problems.append({"kind": "operation-name", "operationName": operation_name,
                         "operations": [o.name.value if o.name else None for o in ops]})
    names, frags = reachable(authored_doc, op)
    sent_enc = docenc.parsed(sent)
    sent_frags = {e[1]: e for e in sent_enc if e[0] == "frag"}
    sent_frag_names = [e[1] for e in sent_enc if e[0] == "frag"]
    if sorted(sent_frag_names) != names or len(set(sent_frag_names)) != len(sent_frag_names):
        problems.append({"kind": "fragments", "sent": sent_frag_names, "reachable": names})
    if sent_enc and sent_enc[0][0] != "op":
        problems.append({"kind": "order", "what": "operation is not first"})
    auth = [strip_mixin_everywhere(docenc.drop_ids(docenc.plain(docenc.definition(op, docenc.Ids()))))]
    pairs = []
    sop = next((e for e in sent_enc if e[0] == "op"), None)
    if sop is not None:
        pairs.append((sop, auth[0]))
    for n in names:
        if n in sent_frags:
            pairs.append((sent_frags[n], strip_mixin_everywhere(
                docenc.drop_ids(docenc.plain(docenc.definition(frags[n], docenc.Ids()))))))
    diffs = {}
    for s, a in pairs:
        if s[:-1] != a[:-1]:
            diffs.setdefault("mismatch", []).append({"what": "definition head", "sent": s[:-1], "authored": a[:-1]})
        undo_typename(s[-1], a[-1], [s[1] if s[0] == "frag" else s[2]], diffs)
    if diffs.get("mismatch"):
        problems.append({"kind": "ast", "diffs": diffs["mismatch"][:3]})
    return problems


# ------------------------------------------------------------------------------------------------ structured stream
# Hand-shaped inputs the random generator rarely makes: fragment chains of depth 4-6 in every definition order, spreads
# nested inside fields / inline fragments of fragments, shared tails; mixin fragments with object- and abstract-typed
# fields in every order and at depth; variables named like the locals of the generated method, on queries, mutations
# and subscriptions.
STRUCT_SDL = """interface Node { id: ID! }
interface Pet implements Node { id: ID! name: String! owner: User }
type Dog implements Node & Pet { id: ID! name: String! owner: User barks: Boolean }
type Cat implements Node & Pet { id: ID! name: String! owner: User lives: Int! }
type Country { code: String! name: String }
type Address { city: String zip: String! country: Country }
type User implements Node { id: ID! name: String! address: Address pet: Pet! pets: [Pet!]! friend: User friends: [User] fav: Fav }
union Fav = Dog | Cat | User
type Query {
  user(id: ID, query: String, variables: [String!], data: Int): User
  node(id: ID!): Node
  me: User!
  search(query: String, response: String): [Fav!]!
}
type Mutation { rename(id: ID!, query: String, data: String): User }
type Subscription {
  userChanged(id: ID, query: String, variables: String): User
  petSeen(data: String, query: String): Pet
}
"""
LOCALS = ["query", "variables", "response", "data", "_query", "_variables", "_data", "_response", "operation_name",
          "operationName", "kwargs", "self", "gql", "UNSET", "Query", "result", "url", "headers"]
ROOTS = {
    "query": [("user", [("id", "ID"), ("query", "String"), ("variables", "[String!]"), ("data", "Int")], "User"),
              ("search", [("query", "String"), ("response", "String")], "Fav"),
              ("me", [], "User")],
    "mutation": [("rename", [("id", "ID!"), ("query", "String"), ("data", "String")], "User")],
    "subscription": [("userChanged", [("id", "ID"), ("query", "String"), ("variables", "String")], "User"),
                     ("petSeen", [("data", "String"), ("query", "String")], "Pet")],
}
MIXIN_PARTS = ["name", "address { city }", "pet { name ... on Dog { barks } }", "fav { ... on Cat { lives } ... on User { name } }",
               "friend { address { zip country { code } } pet { name } }", "pets { id ... on Cat { lives } }",
               "address { country { name } }", "friend { fav { ... on Dog { barks } } }"]


def structured(seed: int) -> scenario.Scenario | None:
    rng = random.Random(seed * 9176 + 5)
    frags = {}   # name -> text, in creation (top-down) order

    def link(nxt, on="User"):
        """a selection (on User) that reaches fragment `nxt` (defined on User)"""
        return rng.choice([
            f"id ...{nxt}",
            f"name friend {{ ...{nxt} }}",
            f"... on User {{ ...{nxt} }}",
            f"pet {{ name ... on Dog {{ owner {{ ...{nxt} }} }} }}",
            f"friends {{ id friend {{ ...{nxt} }} }}",
            f"fav {{ ... on User {{ ...{nxt} }} }}",
            # conditional containers (e47d9e8): a spread under a condition is unpacked, never a mixin
            f"id ...{nxt} @include(if: true)",
            f"... on User @skip(if: false) {{ name ...{nxt} }}",
            f"friend {{ ... @include(if: true) {{ ...{nxt} }} }}",
        ])

    def chain(prefix, depth, tail=None):
        names = [f"{prefix}{i}" for i in range(1, depth + 1)]
        for i, n in enumerate(names):
            if i + 1 < depth:
                body = link(names[i + 1])
            elif tail:
                body = f"id ...{tail}"
            else:
                body = rng.choice(["id name", "name address { city }", "id pet { name }"])
            frags[n] = f"fragment {n} on User {{ {body} }}"
        return names[0]

    heads = [chain("Ca", rng.randint(4, 6))]
    if rng.random() < 0.6:
        frags["Tail"] = "fragment Tail on User { name address { zip } }"
        heads.append(chain("Cb", rng.randint(2, 4), tail="Tail"))
        heads.append(chain("Cc", rng.randint(2, 3), tail="Tail"))
    # mixin fragments: object and abstract fields in a random order
    for j in range(rng.randint(1, 3)):
        parts = rng.sample(MIXIN_PARTS, rng.randint(2, 4))
        seen, keep = set(), []
        for p in parts:                      # one selection per response key (keeps the operation mergeable)
            k = p.split()[0]
            if k not in seen:
                seen.add(k)
                keep.append(p)
        frags[f"Mix{j}"] = f"fragment Mix{j} on User {{ {' '.join(keep)} }}"
        heads.append(f"Mix{j}")
    async_client = rng.random() < 0.6
    kinds = ["query", "query", "mutation"] + (["subscription", "subscription"] if async_client else [])
    ops = []
    for i in range(rng.randint(3, 5)):
        kind = rng.choice(kinds)
        fname, fargs, ftype = rng.choice(ROOTS[kind])
        used, vdefs, args = set(), [], []
        for an, at in fargs:
            if at.endswith("!") or rng.random() < 0.7:
                pool = [x for x in LOCALS if x not in used]
                hot = [x for x in ("query", "variables", "data", "response") if x not in used]
                vn = rng.choice(hot) if hot and rng.random() < 0.5 else rng.choice(pool)
                used.add(vn)
                vdefs.append(f"${vn}: {at}")
                args.append(f"{an}: ${vn}")
        head = rng.choice(heads)
        if ftype == "User":
            sel = rng.choice([f"...{head}", f"id ...{head}", f"friend {{ ...{head} }}", f"name friend {{ friend {{ ...{head} }} }}",
                              f"id ...{head} @skip(if: false)", f"... on User @include(if: true) {{ ...{head} }}",
                              f"friend {{ ...{head} @include(if: true) pet {{ name }} }}"])
        elif ftype == "Fav":
            sel = f"__typename ... on User {{ ...{head} }} ... on Dog {{ owner {{ ...{head} }} }}"
        else:
            sel = f"name owner {{ ...{head} }}"
        vtxt = f"({', '.join(vdefs)})" if vdefs else ""
        atxt = f"({', '.join(args)})" if args else ""
        ops.append(f"{kind} {rng.choice(['Get', 'watch', 'Do'])}Op{i}{vtxt} {{ {fname}{atxt} {{ {sel} }} }}")
    order = rng.choice(["top-down", "leaf-first", "shuffled"])
    ftexts = list(frags.values())
    if order == "leaf-first":
        ftexts.reverse()
    elif order == "shuffled":
        rng.shuffle(ftexts)
    defs = rng.choice([ops + ftexts, ftexts + ops])
    queries = "\n\n".join(defs) + "\n"
    try:
        errs = validate(build_schema(STRUCT_SDL), parse(queries), [r for r in specified_rules if r is not NoUnusedFragmentsRule])
    except Exception:
        return None
    if errs:
        return None
    return scenario.Scenario(seed=seed, sdl=STRUCT_SDL, queries=queries,
                             config={"async_client": async_client, "convert_to_snake_case": rng.random() < 0.6},
                             features=("c02", "structured", order), notes={"order": order})


def corpus_c01():
    """the hand-written regression scenarios of C01/C05 (corpus/C01/*.json)"""
    import glob
    import json
    import os

    root = os.path.join(os.environ.get("VERIF_ROOT", "/verif"), "corpus", "C01")
    out = []
    for i, p in enumerate(sorted(glob.glob(os.path.join(root, "*.json")))):
        d = json.load(open(p))
        out.append(scenario.Scenario(seed=900000 + i, sdl=d["sdl"], queries=d["queries"], config=dict(d.get("config") or {}),
                                     features=("corpus", d.get("name", os.path.basename(p)))))
    return out
