"""Encoders shared by the C16 harness and its worker:
   graphql-core schema object  -> the flat schema record of Model/SchemaGen.v (as a plain Python
                                  structure, and as the S-expression the model decodes);
   generated Python module text -> the abstract pymod (canonicaliser)."""
from __future__ import annotations

import ast
import math

from graphql import (GraphQLEnumType, GraphQLInputObjectType, GraphQLInterfaceType, GraphQLList,
                     GraphQLNonNull, GraphQLObjectType, GraphQLScalarType, GraphQLUnionType, Undefined)

from ..sexp import Sym, opt

STANDARD_TYPES = ("ID", "Boolean", "Float", "Int", "String", "__Schema", "__Type", "__TypeKind", "__Field",
                  "__InputValue", "__EnumValue", "__Directive", "__DirectiveLocation")


# ---------- schema -> plain structure ----------
def p_type(t):
    if isinstance(t, GraphQLNonNull):
        return ["NN", p_type(t.of_type)]
    if isinstance(t, GraphQLList):
        return ["L", p_type(t.of_type)]
    return ["N", t.name]


def p_val(v):
    """Python value -> tagged structure (floats by repr: opaque lexemes)"""
    if v is None:
        return ["n"]
    if isinstance(v, bool):
        return ["b", v]
    if isinstance(v, int):
        return ["i", v]
    if isinstance(v, float):
        return ["f", repr(v)]
    if isinstance(v, str):
        return ["s", v]
    if isinstance(v, (list, tuple)):
        return ["l"] + [p_val(x) for x in v]
    if isinstance(v, dict):
        if not all(isinstance(k, str) for k in v):
            raise TypeError("non-string dict key in a default value")
        return ["d"] + [[k, p_val(x)] for k, x in v.items()]
    raise TypeError(f"value outside the modelled fragment: {type(v).__name__}")


def p_arg(name, a):
    return [name, p_type(a.type), None if a.default_value is Undefined else p_val(a.default_value),
            a.description, a.deprecation_reason]


def p_field(name, f):
    return [name, p_type(f.type), [p_arg(n, a) for n, a in f.args.items()], f.description, f.deprecation_reason]


def p_named(t):
    if isinstance(t, GraphQLScalarType):
        d = ["scalar", t.specified_by_url]
    elif isinstance(t, GraphQLObjectType):
        d = ["object", [i.name for i in t.interfaces], [p_field(n, f) for n, f in t.fields.items()]]
    elif isinstance(t, GraphQLInterfaceType):
        d = ["interface", [i.name for i in t.interfaces], [p_field(n, f) for n, f in t.fields.items()]]
    elif isinstance(t, GraphQLUnionType):
        d = ["union", [m.name for m in t.types]]
    elif isinstance(t, GraphQLEnumType):
        # the introspection enums carry Python Enum members as values; they are standard types, which the
        # generator filters out before looking inside, so an opaque placeholder is enough for them
        val = (lambda x: ["s", f"<{type(x).__name__}>"]) if t.name in STANDARD_TYPES else p_val
        d = ["enum", [[n, val(v.value), v.description, v.deprecation_reason] for n, v in t.values.items()]]
    elif isinstance(t, GraphQLInputObjectType):
        d = ["input", [p_arg(n, f) for n, f in t.fields.items()]]
    else:
        raise TypeError(f"unknown named type {type(t)}")
    return [t.name, t.description, d]


def p_schema(schema, with_standard=True):
    types = [p_named(t) for n, t in schema.type_map.items() if with_standard or n not in STANDARD_TYPES]
    dirs = [[d.name, d.description, bool(d.is_repeatable), [l.name for l in d.locations],
             [p_arg(n, a) for n, a in d.args.items()]] for d in schema.directives]
    root = lambda t: t.name if t else None
    return [types, root(schema.query_type), root(schema.mutation_type), root(schema.subscription_type),
            dirs, schema.description]


# ---------- plain structure -> sexp (Model/SchemaGen.v codecs) ----------
def x_type(t):
    return [Sym(t[0]), t[1] if t[0] == "N" else x_type(t[1])]


def x_val(v):
    tag = v[0]
    if tag == "n":
        return Sym("n")
    if tag in ("b", "i", "f", "s"):
        return [Sym(tag), v[1]]
    if tag == "l":
        return [Sym("l")] + [x_val(x) for x in v[1:]]
    return [Sym("d")] + [[k, x_val(x)] for k, x in v[1:]]


def x_arg(a):
    return [a[0], x_type(a[1]), None if a[2] is None else [Sym("some"), x_val(a[2])], opt(a[3]), opt(a[4])]


def x_field(f):
    return [f[0], x_type(f[1]), [x_arg(a) for a in f[2]], opt(f[3]), opt(f[4])]


def x_named(t):
    d = t[2]
    k = d[0]
    if k == "scalar":
        xd = [Sym(k), opt(d[1])]
    elif k in ("object", "interface"):
        xd = [Sym(k), list(d[1]), [x_field(f) for f in d[2]]]
    elif k == "union":
        xd = [Sym(k), list(d[1])]
    elif k == "enum":
        xd = [Sym(k), [[v[0], x_val(v[1]), opt(v[2]), opt(v[3])] for v in d[1]]]
    else:
        xd = [Sym(k), [x_arg(a) for a in d[1]]]
    return [t[0], opt(t[1]), xd]


def x_schema(p):
    return [[x_named(t) for t in p[0]], opt(p[1]), opt(p[2]), opt(p[3]),
            [[d[0], opt(d[1]), bool(d[2]), list(d[3]), [x_arg(a) for a in d[4]]] for d in p[4]], opt(p[5])]


# ---------- sexp answer of the model -> plain structure ----------
def u_opt(e):
    return None if e == "none" else e[1]


def u_type(e):
    return [e[0], e[1] if e[0] == "N" else u_type(e[1])]


def u_val(e):
    if e == "n":
        return ["n"]
    tag = e[0]
    if tag == "b":
        return ["b", e[1] == "t"]
    if tag == "i":
        return ["i", int(e[1])]
    if tag in ("f", "s"):
        return [tag, e[1]]
    if tag == "l":
        return ["l"] + [u_val(x) for x in e[1:]]
    return ["d"] + [[k, u_val(x)] for k, x in e[1:]]


def u_arg(e):
    d = u_opt(e[2])
    return [e[0], u_type(e[1]), None if d is None else u_val(d), u_opt(e[3]), u_opt(e[4])]


def u_named(e):
    d = e[2]
    k = d[0]
    if k == "scalar":
        ud = [k, u_opt(d[1])]
    elif k in ("object", "interface"):
        ud = [k, list(d[1]), [[f[0], u_type(f[1]), [u_arg(a) for a in f[2]], u_opt(f[3]), u_opt(f[4])] for f in d[2]]]
    elif k == "union":
        ud = [k, list(d[1])]
    elif k == "enum":
        ud = [k, [[v[0], u_val(v[1]), u_opt(v[2]), u_opt(v[3])] for v in d[1]]]
    else:
        ud = [k, [u_arg(a) for a in d[1]]]
    return [e[0], u_opt(e[1]), ud]


def u_schema(e):
    return [[u_named(t) for t in e[0]], u_opt(e[1]), u_opt(e[2]), u_opt(e[3]),
            [[d[0], u_opt(d[1]), d[2] == "t", list(d[3]), [u_arg(a) for a in d[4]]] for d in e[4]], u_opt(e[5])]


# ---------- value predicates ----------
def has_nonfinite(v, nested_only=False, _depth=0):
    tag = v[0]
    if tag == "f":
        x = float(v[1])
        return (not math.isfinite(x)) and (not nested_only or _depth > 0)
    if tag == "l":
        return any(has_nonfinite(x, nested_only, _depth + 1) for x in v[1:])
    if tag == "d":
        return any(has_nonfinite(x, nested_only, _depth + 1) for _k, x in v[1:])
    return False


def schema_values(p):
    """all constant values embedded for a schema structure (defaults, enum values)"""
    for t in p[0]:
        d = t[2]
        if d[0] in ("object", "interface"):
            for f in d[2]:
                for a in f[2]:
                    if a[2] is not None:
                        yield a[2]
        elif d[0] == "input":
            for a in d[1]:
                if a[2] is not None:
                    yield a[2]
        elif d[0] == "enum":
            for v in d[1]:
                yield v[1]
    for dr in p[4]:
        for a in dr[4]:
            if a[2] is not None:
                yield a[2]


def schema_strings(p):
    """every string the generator embeds through repr (names, descriptions, reasons, urls, string values)"""
    def val(v):
        if v[0] == "s":
            yield v[1]
        elif v[0] == "l":
            for x in v[1:]:
                yield from val(x)
        elif v[0] == "d":
            for k, x in v[1:]:
                yield k
                yield from val(x)

    def arg(a):
        yield a[0]
        if a[2] is not None:
            yield from val(a[2])
        for s in a[3:5]:
            if s is not None:
                yield s
    for t in p[0]:
        yield t[0]
        if t[1] is not None:
            yield t[1]
        d = t[2]
        if d[0] == "scalar" and d[1] is not None:
            yield d[1]
        if d[0] in ("object", "interface"):
            for f in d[2]:
                yield f[0]
                for a in f[2]:
                    yield from arg(a)
                for s in f[3:5]:
                    if s is not None:
                        yield s
        if d[0] == "input":
            for a in d[1]:
                yield from arg(a)
        if d[0] == "enum":
            for v in d[1]:
                yield v[0]
                yield from val(v[1])
                for s in v[2:4]:
                    if s is not None:
                        yield s
    for dr in p[4]:
        yield dr[0]
        if dr[1] is not None:
            yield dr[1]
        for a in dr[4]:
            yield from arg(a)
    if p[5] is not None:
        yield p[5]


def in_fidelity_domain(s: str) -> bool:
    """strings on which Model/PyRepr.v is CPython's repr: ASCII, or non-ASCII printable"""
    return all(ord(c) < 128 or c.isprintable() for c in s)


# ---------- generated module text -> abstract pymod ----------
class CanonError(Exception):
    pass


def _is_atom(n) -> bool:
    """constants as Python's parser produces them: atoms only (a dict/list in the file is a display,
    whether the generator built it as ast.Constant or as ast.Dict/ast.List)"""
    if isinstance(n, ast.Constant):
        return n.value is not Ellipsis and not isinstance(n.value, (bytes, complex))
    if isinstance(n, ast.UnaryOp) and isinstance(n.op, ast.USub):
        return isinstance(n.operand, ast.Constant) and isinstance(n.operand.value, (int, float)) \
            and not isinstance(n.operand.value, bool)
    return False


def canon_expr(n):
    if _is_atom(n):
        return [Sym("c"), ast.unparse(n)]
    if isinstance(n, ast.Name):
        return [Sym("n"), n.id]
    if isinstance(n, ast.Attribute):
        return [Sym("at"), canon_expr(n.value), n.attr]
    if isinstance(n, ast.Subscript):
        return [Sym("sub"), canon_expr(n.value), canon_expr(n.slice)]
    if isinstance(n, ast.Call):
        if any(isinstance(a, ast.Starred) for a in n.args) or any(k.arg is None for k in n.keywords):
            raise CanonError("star arguments")
        return [Sym("call"), canon_expr(n.func), [canon_expr(a) for a in n.args],
                [[k.arg, canon_expr(k.value)] for k in n.keywords]]
    if isinstance(n, ast.Lambda):
        a = n.args
        if a.args or a.posonlyargs or a.kwonlyargs or a.vararg or a.kwarg:
            raise CanonError("lambda with parameters")
        return [Sym("lam"), canon_expr(n.body)]
    if isinstance(n, ast.Dict):
        if any(k is None for k in n.keys):
            raise CanonError("dict unpacking")
        return [Sym("dict")] + [[canon_expr(k), canon_expr(v)] for k, v in zip(n.keys, n.values)]
    if isinstance(n, ast.List):
        return [Sym("list")] + [canon_expr(e) for e in n.elts]
    if isinstance(n, ast.Tuple):
        return [Sym("tup")] + [canon_expr(e) for e in n.elts]
    raise CanonError(f"expression outside the abstract module: {type(n).__name__}")


def canon_module(text: str):
    """-> (imports {module: sorted names}, body [[target, annotation, expr-sexp]...])"""
    tree = ast.parse(text)
    imports: dict[str, list[str]] = {}
    body = []
    for st in tree.body:
        if isinstance(st, ast.ImportFrom):
            if st.level or any(a.asname for a in st.names):
                raise CanonError("relative or renamed import")
            imports.setdefault(st.module, []).extend(a.name for a in st.names)
        elif isinstance(st, ast.AnnAssign) and isinstance(st.target, ast.Name) and st.value is not None \
                and isinstance(st.annotation, ast.Name):
            body.append([st.target.id, st.annotation.id, canon_expr(st.value)])
        elif isinstance(st, ast.Assign) and len(st.targets) == 1 and isinstance(st.targets[0], ast.Name):
            body.append([st.targets[0].id, "", canon_expr(st.value)])
        else:
            raise CanonError(f"statement outside the abstract module: {type(st).__name__}")
    return {m: sorted(v) for m, v in imports.items()}, body


def model_module(e):
    """model's pymod sexp -> same shape as canon_module (expressions stay as decoded sexps)"""
    imps, body = e
    return {m: sorted(ns) for m, ns in imps}, [[a[0], a[1], a[2]] for a in body]


def strip_syms(x):
    """canonical sexp built here (Sym heads) -> the form sexp.loads returns (all atoms str)"""
    if isinstance(x, Sym):
        return x.name
    if isinstance(x, list):
        return [strip_syms(y) for y in x]
    return x
