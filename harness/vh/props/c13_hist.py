"""C13 histories: 2-4 subscriptions on ONE client object (and interleaved over two client objects of
one interpreter) with differing per-call keyword arguments (extra_headers, origin, other connect
kwargs), frames and variables.  Every call is compared with the stateless model's prediction for that
call ALONE (theorem C13_history_independent says the model has no history); vars(client), the caller's
own argument objects and the module-level state of the dependency modules (globals, class attributes,
function defaults) are snapshotted before/after.
"""
from __future__ import annotations

import copy
import itertools

from .. import model
from ..sexp import Sym
from .c13 import OPNAME, QUERY, mk_frame

CLIENTS = {
    "bare": {"url": "ws://a.test/g"},
    "configured": {"url": "ws://b.test/g", "headers": {"Authorization": "Bearer t", "X-A": "1"},
                   "origin": "https://o.test", "init_payload": {"token": "secret"}},
    "other-init": {"url": "ws://c.test/g", "headers": {"X-Z": "z"}, "init_payload": {"user": "u", "n": [1]}},
}
KW = {
    "none": {},
    "extra-headers": {"extra_headers": {"X-C": "3"}},
    "extra-headers-override": {"extra_headers": {"X-A": "call", "X-D": "4"}},
    "extra-headers-empty": {"extra_headers": {}},
    "origin": {"origin": "https://call.test"},
    "open-timeout": {"open_timeout": 5},
    "headers+origin+other": {"extra_headers": {"X-E": "5"}, "origin": "https://both.test", "ping_interval": None},
}
FRAMES = {
    "stream": ["ack", "next", "ping", "next", "complete"],
    "error": ["ack", "next", "error"],
    "no-ack": ["ping"],
    "closed": [],
}
VARS = ["none", "rich", "datetime"]


def _cfg(client_cfg, kw):
    cfg = dict(client_cfg)
    kw = copy.deepcopy(kw)
    if "extra_headers" in kw:
        cfg["kw_headers"] = kw.pop("extra_headers")
    cfg["kw_other"] = kw
    return cfg


def histories(rng, n_random):
    """-> list of (name, [(client_name, kw_name, frames_name, vars_name), ...])"""
    calls = [(k, f) for k in KW for f in FRAMES]
    out = []
    for cn in ("configured", "bare"):          # every ordered pair of call kinds on one object
        for (k1, f1), (k2, f2) in itertools.product(calls, repeat=2):
            out.append(("pair", [(cn, k1, f1, "none"), (cn, k2, f2, "rich")]))
    names = list(CLIENTS)
    for _ in range(n_random):                  # longer histories, possibly interleaving two objects
        n = rng.randint(3, 4)
        pool = rng.sample(names, rng.choice([1, 2]))
        out.append(("random", [(rng.choice(pool), rng.choice(list(KW)), rng.choice(list(FRAMES)), rng.choice(VARS))
                               for _ in range(n)]))
    return out


def worker(task):
    """(variant, [history, ...]) -> counts, problems"""
    from . import _clients
    from . import c13_impl as I

    variant, hs = task
    fx = I.vars_fixtures()
    out = {"runs": 0, "histories": 0, "problems": [], "dist": {}}
    cmds, index = [], {}
    for _hn, h in hs:
        for (cn, kn, fn, vn) in h:
            key = (cn, kn, fn, vn)
            if key not in index:
                index[key] = len(cmds)
                frames = [mk_frame(l, i) for i, l in enumerate(FRAMES[fn])]
                cmds.append([Sym("ws"), variant, I.cfg_sx(_cfg(CLIENTS[cn], KW[kn])),
                             I.request_sx(QUERY, OPNAME, fx[vn][1]), [I.frame_sx(f) for f in frames]])
    res = model.batch("C13", cmds, jobs=1, chunk=1000000)
    pred = {k: I.decode_trace(res[i]) for k, i in index.items()}
    mod_before = _clients.module_state()
    for hname, h in hs:
        out["histories"] += 1
        out["dist"][f"{hname}-len{len(h)}-objects{len({c[0] for c in h})}"] = \
            out["dist"].get(f"{hname}-len{len(h)}-objects{len({c[0] for c in h})}", 0) + 1
        objs = {}
        found = None
        for ci, (cn, kn, fn, vn) in enumerate(h):
            if cn not in objs:
                objs[cn] = I.new_client(variant, CLIENTS[cn])
                objs[cn] = objs[cn] + (_clients._freeze(vars(objs[cn][1])),)
            mod, client, tracer, attrs0 = objs[cn]
            frames = [mk_frame(l, i) for i, l in enumerate(FRAMES[fn])]
            kw = copy.deepcopy(KW[kn])
            kw_before = _clients._freeze(kw)
            variables = fx[vn][0]
            vars_before = repr(variables)
            tr = I.run_fake(variant, CLIENTS[cn], QUERY, OPNAME, variables, frames,
                            existing=(mod, client, tracer), kwargs=kw)
            out["runs"] += 1
            m = pred[(cn, kn, fn, vn)]
            diffs = [k for k in ("connect", "events", "fin", "spans") if I.strict(tr[k]) != I.strict(m[k])]
            if _clients._freeze(vars(client)) != attrs0:
                diffs.append("vars(client) changed by the call")
            if _clients._freeze(kw) != kw_before:
                diffs.append("the caller's keyword-argument objects were modified")
            if repr(variables) != vars_before:
                diffs.append("the caller's variables were modified")
            if diffs:
                obs = [k for k in ("connect", "sent", "yielded", "closes", "fin")
                       if I.strict(I.project(tr)[k]) != I.strict(I.project(m)[k])]
                rec = {"variant": variant, "history": [list(c) for c in h], "failing_call": ci, "differs": diffs,
                       "property_observables_differ": obs,
                       "clients": {c: CLIENTS[c] for c in {x[0] for x in h}},
                       "kwargs": {x[1]: KW[x[1]] for x in h}, "frames": {x[2]: FRAMES[x[2]] for x in h},
                       "impl": {k: tr[k] for k in ("connect", "events", "fin")},
                       "model_for_this_call_alone": {k: m[k] for k in ("connect", "events", "fin")}}
                if found is None or (obs and not found["property_observables_differ"]):
                    found = rec
                if obs:
                    break
                # only state changed so far: go on, a later call of the history may show it on the wire
                objs[cn] = (mod, client, tracer, _clients._freeze(vars(client)))
        if found is not None:
            keep = sum(1 for p in out["problems"] if p and bool(p["property_observables_differ"]) == bool(found["property_observables_differ"]))
            out["problems"].append(found if keep < 3 else None)
    d = _clients.state_diff(mod_before, _clients.module_state())
    if d:
        out["problems"].append({"variant": variant, "module_state_changed": d[:20], "differs": ["module-level state"],
                                "property_observables_differ": [], "history": [], "failing_call": None})
    return out
