"""C18 K1 + oracle at scope level: the de-duplication loops of ArgumentsGenerator.generate (variables of one
operation) and InputTypesGenerator._parse_input_definition (fields of one input) against Model/Scopes.v.

The REAL generator classes are run on lists of names drawn from a pool built to collide (case styles, keyword /
kw_ pairs, leading underscores and digits, the reserved names of a method, pydantic attributes); the Python names
they hand out are compared with the model (K1), and the property is evaluated on the real output whether or not
the model agrees (K3: pairwise distinct, identifiers, no keyword, outside the reserved names / no pydantic
attribute, no Python name equal to ANOTHER field's GraphQL name, alias = GraphQL name, and the generated pydantic
class round-trips a value given by GraphQL names and by Python names)."""
from __future__ import annotations

import ast
import keyword
import random

from .. import model
from ..sexp import Sym

POOL = ["fooBar", "foo_bar", "foo_bar_", "FooBar", "fooBAR", "foo_bar__", "class", "class_", "class__", "from", "from_",
        "_a", "a", "a_", "__a", "_1", "_1_", "x1", "x_1", "self", "self_", "kwargs", "kwargs_", "query", "query_",
        "variables", "response", "data", "gql", "gql_", "UNSET", "UNSET_", "copy", "copy_", "modelDump", "model_dump",
        "model_dump_", "json", "dict", "_", "__", "HTTPCode", "httpCode", "http_code", "None", "None_", "id", "Q", "q"]


def lists(rng, n):
    out = [["fooBar", "foo_bar"], ["foo_bar", "fooBar"], ["class", "class_"], ["class_", "class"], ["_a", "a", "a_"],
           ["_1", "x"], ["self", "self_", "kwargs"], ["copy", "copy_", "model_dump", "modelDump"],
           ["fooBar", "foo_bar", "foo_bar_", "foo_bar__"], ["_", "__"], ["query", "variables", "response", "data"]]
    while len(out) < n:
        k = rng.choice([2, 2, 3, 3, 4, 5, 6])
        names = []
        while len(names) < k:
            c = rng.choice(POOL)
            if c not in names:          # GraphQL: names of one scope are unique
                names.append(c)
        out.append(names)
    return out


def run(ctx):
    run = ctx.run
    from graphql import build_schema, parse
    from ariadne_codegen.client_generators.arguments import ArgumentsGenerator
    from ariadne_codegen.client_generators.input_types import InputTypesGenerator
    import pydantic

    rng = random.Random(ctx.seed * 7919 + 18)
    n = 400 if ctx.tier == "quick" else 3000
    cases = lists(rng, n)
    reserved_pyd = {x for x in dir(pydantic.BaseModel) if not x.startswith("_")}
    schema0 = build_schema("type Query { f: Int }")
    k1_bad = 0
    # ---------------- variables ----------------
    cmds, impl = [], []
    for names in cases:
        for snake in (True, False):
            extra = rng.choice([[], ["Q"], ["Q", "q"], ["foo_bar"]])
            gen = ArgumentsGenerator(schema0, convert_to_snake_case=snake)
            reserved = sorted(gen._get_reserved_argument_names() | set(extra))
            doc = parse("query Q(%s) { f }" % ", ".join(f"${v}: Int" for v in names))
            args, dict_ = gen.generate(doc.definitions[0].variable_definitions, reserved_names=extra)
            keys = [k.value for k in dict_.keys]
            vals = [v.id if isinstance(v, ast.Name) else ast.unparse(v) for v in dict_.values]
            params = [a.arg for a in args.args + args.kwonlyargs]
            impl.append((names, snake, reserved, keys, vals, params))
            cmds.append([Sym("var_names"), snake, reserved, names])
    outs = model.batch("C18", cmds)
    for (names, snake, reserved, keys, vals, params), m in zip(impl, outs):
        run.count()
        run.dist("c18_assign", "variables:" + ("snake" if snake else "plain"))
        rep = {"scope": "variables", "graphql_names": names, "snake": snake, "reserved": reserved,
               "python_names": vals, "model": m}
        bad = []
        if keys != names:
            bad.append(f"wire names {keys} are not the GraphQL names")
        if len(set(vals)) != len(vals):
            bad.append("two variables share one parameter name")
        for v in vals:
            if not v.isidentifier() or keyword.iskeyword(v):
                bad.append(f"{v!r} is not a usable identifier")
            if v in reserved:
                bad.append(f"{v!r} is a reserved name of the method")
        if sorted(p for p in params if p not in ("self",)) != sorted(vals):
            bad.append(f"signature {params} does not carry the names {vals}")
        for g, v in zip(names, vals):
            if [c for c in v.lower() if c.isalnum()] != [c for c in g.lower() if c.isalnum()] and set(g) != {"_"}:
                bad.append(f"{g!r} -> {v!r} loses or adds letters/digits")
        if bad:
            run.violation(f"variables {names} (snake={snake}): " + "; ".join(bad[:3]), rep)
        if vals != m:
            k1_bad += 1
            if k1_bad <= 5:
                run.violation(f"K1 variables {names} snake={snake}: impl {vals} model {m}"
                              + ("" if bad else "; no property failure on this input"), rep, found_input=bool(bad))
        if vals != [g for g in names]:
            run.nontrivial_case("assign:variables-renamed")
    # ---------------- input fields ----------------
    cmds, impl = [], []
    for names in cases:
        for snake in (True, False):
            sdl = "type Query { f(i: In): Int }\ninput In { %s }" % " ".join(f"{v}: Int" for v in names)
            gen = InputTypesGenerator(build_schema(sdl), convert_to_snake_case=snake)
            cls = [c for c in gen._class_defs if c.name == "In"][0]
            decls = []
            for st in cls.body:
                if not isinstance(st, ast.AnnAssign):
                    continue
                alias = None
                if isinstance(st.value, ast.Call):
                    for kw in st.value.keywords:
                        if kw.arg == "alias":
                            alias = kw.value.value
                decls.append((st.target.id, alias))
            impl.append((names, snake, decls, cls))
            cmds.append([Sym("input_names"), snake, names])
    outs = model.batch("C18", cmds)
    for (names, snake, decls, cls), m in zip(impl, outs):
        run.count()
        run.dist("c18_assign", "input:" + ("snake" if snake else "plain"))
        mdecls = [(d[0], d[1][0] if d[1] else None) for d in m]
        py = [d[0] for d in decls]
        rep = {"scope": "input", "graphql_names": names, "snake": snake, "declared": decls, "model": mdecls}
        bad, known = [], []
        if [a if a is not None else p for p, a in decls] != names:
            bad.append("wire names are not the GraphQL names")
        if len(set(py)) != len(py):
            bad.append("two fields share one Python name")
        for g, p in zip(names, py):
            if keyword.iskeyword(p) or p in reserved_pyd:
                bad.append(f"{p!r} is a keyword or shadows a pydantic attribute")
            if not p.isidentifier() or p.startswith("_"):
                known.append(f"{g!r} -> {p!r}")
            if p in names and p != g:
                bad.append(f"Python name {p!r} of {g!r} is the GraphQL name of another field")
        if not known and not bad:
            # the generated class itself: by GraphQL names and by Python names
            ns = {}
            src = "from typing import Optional\nfrom pydantic import BaseModel as B, ConfigDict, Field\n" \
                  "class BaseModel(B):\n    model_config = ConfigDict(populate_by_name=True, protected_namespaces=())\n" + ast.unparse(cls)
            try:
                exec(src, ns)
                In = ns["In"]
                In.model_rebuild(_types_namespace=ns)
                by_alias = {g: i for i, g in enumerate(names)}
                by_name = {p: i for i, p in enumerate(py)}
                for val in (by_alias, by_name):
                    if In.model_validate(val).model_dump(by_alias=True) != by_alias:
                        bad.append("value built by " + ("GraphQL" if val is by_alias else "Python") + " names is not sent back intact")
            except Exception as e:  # noqa: BLE001
                bad.append(f"generated class unusable: {type(e).__name__}: {str(e)[:100]}")
        if bad:
            run.violation(f"input fields {names} (snake={snake}): " + "; ".join(bad[:3]), rep)
        elif known:
            run.finding("F18-invalid-name", f"input field names {known[:2]} are not usable identifiers", rep)
        if decls != mdecls:
            k1_bad += 1
            if k1_bad <= 5:
                run.violation(f"K1 input fields {names} snake={snake}: impl {decls} model {mdecls}"
                              + ("" if bad else "; no property failure on this input"), rep, found_input=bool(bad))
        if py != names:
            run.nontrivial_case("assign:input-fields-renamed")
    run.extra["c18_assign_lists"] = len(cases)
