"""C15 canonicaliser: generated files -> the abstract objects of coq/theories/Model/Plugins.v (as sexp-ready
Python lists), and model output -> the same canonical form (with the autoflake step applied).

Canonical client  = {"imports": set of (source text, name), "tc": set of (source text, name),
                     "class": name, "bases": [...], "methods": [method sexp ...]}
"""
from __future__ import annotations

import ast
import re
import textwrap

from ..sexp import Sym

STD_CLIENT_IMPORTS = [  # what ClientGenerator.__init__ always adds before autoflake prunes the unused ones
    (0, "typing", ["Optional", "List", "Dict", "Any", "Union", "AsyncIterator"]),
    (1, "base_model", ["UNSET", "UnsetType", "Upload"]),
]
class _Ident:
    """identifiers of a piece of source text, string literals excluded ("List": list refers to `list` only)"""
    _id = re.compile(r"[A-Za-z_][A-Za-z_0-9]*")
    _str = re.compile(r"\"(?:[^\"\\]|\\.)*\"|'(?:[^'\\]|\\.)*'")

    def findall(self, text):
        return self._id.findall(self._str.sub(" ", text))


IDENT = _Ident()


def norm_doc(q: str) -> str:
    return "\n".join(l.rstrip(" \t") for l in textwrap.dedent(q).strip().split("\n"))   # "\n" only: U+2028, \x85 ... are data


# ----------------------------------------------------------------------------- annotations
def ann_of(node, in_class=False, literal=False):
    if isinstance(node, ast.Name):
        return [Sym("n"), node.id]
    if isinstance(node, ast.Constant) and isinstance(node.value, str) and not literal:
        # in result-type classes the generator builds ast.Name(id='"X"'); unparse/parse shows it as a constant
        return [Sym("n"), '"' + node.value + '"'] if in_class else [Sym("c"), node.value]
    if isinstance(node, ast.Subscript) and isinstance(node.value, ast.Name):
        head = node.value.id
        elts = node.slice.elts if isinstance(node.slice, ast.Tuple) else [node.slice]
        lit = literal or head == "Literal"
        return [Sym("s"), head, [ann_of(e, in_class, lit) for e in elts]]
    return [Sym("o"), ast.unparse(node)]


# ----------------------------------------------------------------------------- client module
def qref_of(node, query_vars):
    if isinstance(node, ast.Name):
        return [Sym("var"), node.id] if node.id in query_vars else [Sym("const"), node.id]
    return [Sym("const"), "<" + ast.unparse(node) + ">"]


def rexpr_of(node):
    if isinstance(node, ast.Attribute):
        return [Sym("attr"), rexpr_of(node.value), node.attr]
    if (isinstance(node, ast.Call) and isinstance(node.func, ast.Attribute) and node.func.attr == "model_validate"
            and isinstance(node.func.value, ast.Name) and len(node.args) == 1 and not node.keywords):
        return [Sym("validate"), node.func.value.id]
    if isinstance(node, ast.Call) and isinstance(node.func, ast.Attribute) and isinstance(node.func.value, ast.Name):
        return [Sym("callon"), node.func.value.id, ast.unparse(node)]   # e.g. self.get_data(response)
    return [Sym("other"), ast.unparse(node)]


def call_parts(call, query_vars):
    """(qref, operation name, text of the call with the query value blanked)"""
    q, on = [Sym("const"), "<missing>"], ""
    for kw in call.keywords:
        if kw.arg == "query":
            q = qref_of(kw.value, query_vars)
            kw.value = ast.Name(id="__Q__")
        elif kw.arg == "operation_name" and isinstance(kw.value, ast.Constant):
            on = kw.value.value
    return q, on


def stmt_of(st, query_vars):
    if isinstance(st, ast.ImportFrom):
        return [[Sym("import"), st.level, st.module or "", a.name] for a in st.names]
    if (isinstance(st, ast.Assign) and len(st.targets) == 1 and isinstance(st.targets[0], ast.Name)
            and isinstance(st.value, ast.Call) and isinstance(st.value.func, ast.Name) and st.value.func.id == "gql"
            and len(st.value.args) == 1 and isinstance(st.value.args[0], ast.Constant)):
        query_vars.add(st.targets[0].id)
        return [[Sym("query"), st.targets[0].id, norm_doc(st.value.args[0].value)]]
    if isinstance(st, ast.AnnAssign) and isinstance(st.value, ast.Dict):
        return [[Sym("vars"), ast.unparse(st)]]
    if isinstance(st, ast.Assign):
        call = st.value.value if isinstance(st.value, ast.Await) else st.value
        if (isinstance(call, ast.Call) and isinstance(call.func, ast.Attribute) and call.func.attr == "execute"):
            q, on = call_parts(call, query_vars)
            return [[Sym("exec"), q, on, ast.unparse(st)]]
        if isinstance(call, ast.Call) and isinstance(call.func, ast.Attribute) and call.func.attr == "get_data":
            return [[Sym("data"), ast.unparse(st)]]
    if isinstance(st, ast.Return) and st.value is not None:
        return [[Sym("return"), rexpr_of(st.value)]]
    if (isinstance(st, ast.AsyncFor) and isinstance(st.iter, ast.Call) and len(st.body) == 1
            and isinstance(st.body[0], ast.Expr) and isinstance(st.body[0].value, ast.Yield)):
        q, on = call_parts(st.iter, query_vars)
        y = st.body[0].value.value
        rest = f"async for {ast.unparse(st.target)} in {ast.unparse(st.iter)}"
        return [[Sym("asyncfor"), q, on, rest, rexpr_of(y)]]
    return [[Sym("other"), ast.unparse(st)]]


def method_of(fn):
    a = fn.args
    params = []
    pos = a.args[1:] if a.args and a.args[0].arg == "self" else a.args
    defaults = [None] * (len(a.args) - len(a.defaults)) + list(a.defaults)
    defaults = defaults[len(a.args) - len(pos):]
    pairs = list(zip(pos, defaults))
    # the generator builds `*fields` and what follows it as ordinary entries of args.args (name "*fields");
    # only **kwargs is a real ast kwarg.  The hooks therefore see them as parameters.
    if a.vararg is not None:
        pairs.append((ast.arg(arg="*" + a.vararg.arg, annotation=a.vararg.annotation), None))
        pairs.extend(zip(a.kwonlyargs, a.kw_defaults))
        tail_args = ast.arguments(posonlyargs=[], args=[], vararg=None, kwonlyargs=[], kw_defaults=[],
                                  kwarg=a.kwarg, defaults=[])
    else:
        tail_args = ast.arguments(posonlyargs=[], args=[], vararg=None, kwonlyargs=a.kwonlyargs,
                                  kw_defaults=a.kw_defaults, kwarg=a.kwarg, defaults=[])
    for arg, d in pairs:
        params.append([arg.arg, None if arg.annotation is None else [Sym("some"), ann_of(arg.annotation)],
                       None if d is None else [Sym("some"), ast.unparse(d)]])
    tail = ast.unparse(tail_args)
    body = []
    qv = set()
    for st in fn.body:
        body.extend(stmt_of(st, qv))
    return [fn.name, isinstance(fn, ast.AsyncFunctionDef), params, tail,
            None if fn.returns is None else [Sym("some"), ann_of(fn.returns)], body]


def imports_of(body):
    return [(n.level, n.module or "", [a.name for a in n.names]) for n in body if isinstance(n, ast.ImportFrom)]


def client_of(src: str, complete: bool):
    """-> dict(imports=[(level, module, names)], tc=[...], cls, bases, methods=[...], other=[text])"""
    tree = ast.parse(src)
    imports = imports_of(tree.body)
    tc, cls, bases, methods, other = [], "", [], [], []
    for n in tree.body:
        if isinstance(n, ast.If) and isinstance(n.test, ast.Name) and n.test.id == "TYPE_CHECKING":
            tc.extend(imports_of(n.body))
        elif isinstance(n, ast.ClassDef) and not cls:
            cls, bases = n.name, [ast.unparse(b) for b in n.bases]
            for m in n.body:
                if isinstance(m, (ast.FunctionDef, ast.AsyncFunctionDef)):
                    methods.append(method_of(m))
                else:
                    other.append(ast.unparse(m))
        elif not isinstance(n, (ast.ImportFrom, ast.Import)):
            other.append(ast.unparse(n))
    if complete:
        for lv, mod, names in STD_CLIENT_IMPORTS:
            for i, (l2, m2, n2) in enumerate(imports):
                if (l2, m2) == (lv, mod):
                    imports[i] = (l2, m2, n2 + [x for x in names if x not in n2])
                    break
            else:
                imports.append((lv, mod, list(names)))
    return {"imports": imports, "tc": tc, "cls": cls, "bases": bases, "methods": methods, "other": other}


def client_sexp(c):
    return [[list(i) for i in c["imports"]], [list(i) for i in c["tc"]], c["cls"], c["bases"], c["methods"]]


# ----------------------------------------------------------------------------- result classes / init / operations
def classes_of(src: str):
    tree = ast.parse(src)
    out = []
    for n in tree.body:
        if isinstance(n, ast.ClassDef):
            fields = [[s.target.id, ann_of(s.annotation, in_class=True)] for s in n.body
                      if isinstance(s, ast.AnnAssign) and isinstance(s.target, ast.Name)]
            out.append([n.name, [b.id for b in n.bases if isinstance(b, ast.Name)], fields])
    return out, [list(i) for i in imports_of(tree.body)]


def init_of(src: str):
    tree = ast.parse(src)
    imports = [list(i) for i in imports_of(tree.body)]
    all_ = None
    for n in tree.body:
        if isinstance(n, ast.Assign) and isinstance(n.targets[0], ast.Name) and n.targets[0].id == "__all__":
            all_ = [e.value for e in n.value.elts]
    return imports, all_


def operations_of(src: str):
    tree = ast.parse(src)
    consts, all_ = [], None
    for n in tree.body:
        if isinstance(n, ast.Assign) and isinstance(n.targets[0], ast.Name):
            if n.targets[0].id == "__all__":
                all_ = [e.value for e in n.value.elts]
            else:
                v = n.value
                text = v.value if isinstance(v, ast.Constant) else ast.literal_eval(ast.unparse(v))
                consts.append((n.targets[0].id, norm_doc(text)))
    return consts, all_


# ----------------------------------------------------------------------------- the unplugged package, encoded
def encode_unplugged(files: dict, operations, method_name, fragments_module="fragments"):
    """operations: graphql OperationDefinitionNode list in document order."""
    client = client_of(files["client.py"], complete=True)
    by_name = {m[0]: m for m in client["methods"]}
    uops = []
    for op in operations:
        name = op.name.value
        meth = method_name(name)
        m = by_name[meth]
        doc = next((s[2] for s in m[5] if isinstance(s[0], Sym) and s[0].name == "query"), "")
        classes, imports = classes_of(files[meth + ".py"])
        uops.append([name, Sym(op.operation.value), doc, classes, imports, m])
    fcs = classes_of(files[fragments_module + ".py"])[0] if fragments_module + ".py" in files else []
    ii, ia = init_of(files["__init__.py"])
    op_methods = {scen_name for scen_name in (method_name(op.name.value) for op in operations)}
    # the client carries only the methods that are not operations (enable_custom_operations); the model appends
    # them after the operations' methods, as ClientGenerator does
    client = dict(client, methods=[m for m in client["methods"] if m[0] not in op_methods])
    return [uops, fcs, client_sexp(client), [ii, ia or []]]


# ----------------------------------------------------------------------------- canonical forms for comparison
def sx_plain(e):
    """sexp-ready structure -> plain nested lists of str (the shape sexp.loads returns)"""
    if isinstance(e, Sym):
        return e.name
    if e is True:
        return "t"
    if e is False:
        return "f"
    if e is None:
        return "none"
    if isinstance(e, int):
        return str(e)
    if isinstance(e, (list, tuple)):
        return [sx_plain(x) for x in e]
    return e


def names_in_ann(a, out):
    if a[0] in ("n", "c"):
        out.update(IDENT._id.findall(a[1]))
    elif a[0] == "s":
        out.add(a[1])
        for x in a[2]:
            names_in_ann(x, out)
    else:
        out.update(IDENT.findall(a[1]))


def names_in_rexpr(r, out):
    if r[0] == "validate":
        out.add(r[1])
    elif r[0] == "attr":
        names_in_rexpr(r[1], out)
    elif r[0] == "callon":
        out.add(r[1])
        out.update(IDENT.findall(r[2]))
    else:
        out.update(IDENT.findall(r[1]))


def method_used_names(m):
    """Names of the enclosing (module) scope a method refers to.  m in plain form: [name, async, params, tail,
    returns, body].  Annotations and defaults are evaluated in the module scope; inside the body a parameter
    shadows a module-level name (pyflakes/autoflake see it the same way)."""
    sig = set(IDENT.findall(m[3]))
    for p in m[2]:
        if p[1] != "none":
            names_in_ann(p[1][1], sig)
        if p[2] != "none":
            sig.update(IDENT.findall(p[2][1]))
    if m[4] != "none":
        names_in_ann(m[4][1], sig)
    params = {p[0].lstrip("*") for p in m[2]}
    out = set()
    for s in m[5]:
        k = s[0]
        if k in ("vars", "data", "other"):
            out.update(IDENT.findall(s[1]))
        elif k == "exec":
            out.update(IDENT.findall(s[3]))
            out.add(s[1][1])
        elif k == "asyncfor":
            out.update(IDENT.findall(s[3]))
            out.add(s[1][1])
            names_in_rexpr(s[4], out)
        elif k == "return":
            names_in_rexpr(s[1], out)
        elif k == "query":
            out.add("gql")
    return sig | (out - params)


def canonical_client(plain, cleanup: bool, extra_used=()):
    """plain = [imports, tc, cls, bases, methods] (lists of str).  cleanup = apply the autoflake step
    (drop imported names nothing refers to)."""
    imports, tc, cls, bases, methods = plain
    used = set(extra_used) | set(IDENT.findall(" ".join(bases)))
    for m in methods:
        used |= method_used_names(m)
    if tc:
        used.add("TYPE_CHECKING")

    def pairs(imps):
        out = set()
        for lv, mod, names in imps:
            for n in names:
                if not cleanup or n in used:
                    out.add(("." * int(lv) + mod, n))
        return out

    def norm_method(m):
        body = [["import", "." * int(st[1]) + st[2], st[3]] if st[0] == "import" else st for st in m[5]]
        return m[:5] + [body]

    return {"imports": sorted(pairs(imports)), "tc": sorted(pairs(tc)), "class": cls, "bases": bases,
            "methods": [norm_method(m) for m in methods]}


def rename_param_in_method(m, old, new):
    """plain method with parameter `old` renamed to `new` (the process_name hook of ExtractOperations); names inside
    string literals are left alone"""
    def sub(text):
        parts, pos = [], 0
        for mt in IDENT._str.finditer(text):
            parts.append(re.sub(rf"\b{re.escape(old)}\b", new, text[pos:mt.start()]))
            parts.append(mt.group(0))
            pos = mt.end()
        parts.append(re.sub(rf"\b{re.escape(old)}\b", new, text[pos:]))
        return "".join(parts)

    params = [[new if p[0] == old else p[0]] + p[1:] for p in m[2]]
    body = []
    for st in m[5]:
        if st[0] in ("vars", "data", "other"):
            body.append([st[0], sub(st[1])] + st[2:])
        else:
            body.append(st)
    return m[:2] + [params, m[3], m[4], body]


def canonical_init(imports, all_):
    return {"imports": sorted({("." * int(lv) + mod, n) for lv, mod, names in imports for n in names}),
            "all": list(all_ or [])}
