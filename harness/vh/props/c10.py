"""C10 — Generation is deterministic and idempotent.

K2  model data vs environment: str_sort vs sorted(), path_sort vs sorted(Path), isort_names vs the installed
    isort on real from-import statements, gql_ext vs Path.suffix, permute vs the Lehmer decoding used here.
K1a static scan of $VERIF_REPO/ariadne_codegen (c10_scan) vs the model's site table: a site of the code that
    is not a row of the table fails closed (file:line in the replay); rows must agree with the syntactic
    context the scan sees (sorted -> SkSorted, member/eq/size -> SkMember, construct -> SkNone).
K1b the extracted model run on the ACTUAL iteration orders of the sets (recorded in fresh interpreters under
    different PYTHONHASHSEED by wrapping, not editing, the real functions): fragments-module order
    (frag_module_order false) vs FragmentsGenerator._get_sorted_fragments_names and the class order on disk;
    names of `from .fragments import ...` (op_import_names false) vs the operation module on disk;
    write_all vs the directory after regenerating over stale content.
K3  the property oracle: bytes of every generated file across fresh subprocesses with PYTHONHASHSEED in
    {0..N}, shuffled creation orders of schema/query files in directories, regeneration over a previous
    generation (same seed, another seed, stale extra files), include_comments stable/none, both strategies,
    plugins.  The witnesses of the three repaired findings (corpus/C10/*.json) run first.  No finding class is
    open: ANY difference is shrunk and reported with the two seeds and a unified diff.
"""
from __future__ import annotations

import ast
import difflib
import hashlib
import os
import random
import shutil
import threading
from concurrent.futures import ThreadPoolExecutor

from graphql import build_schema, parse, print_ast, specified_rules, validate
from graphql.validation import NoUnusedFragmentsRule

from .. import model
from ..gen import scenario as scen_gen
from ..impl import workers
from ..sexp import Sym
from . import c10_gen, c10_scan

WORKER = "../props/c10_worker.py"
PLUGINS = {
    "shorter": "ariadne_codegen.contrib.shorter_results.ShorterResultsPlugin",
    "extract": "ariadne_codegen.contrib.extract_operations.ExtractOperationsPlugin",
    "fwdrefs": "ariadne_codegen.contrib.client_forward_refs.ClientForwardRefsPlugin",
    "noreimp": "ariadne_codegen.contrib.no_reimports.NoReimportsPlugin",
}
PLUGIN_SETS = [(), ("shorter",), ("extract",), ("noreimp",), ("fwdrefs",), ("shorter", "extract", "noreimp"), (),
               ("shorter", "extract", "fwdrefs", "noreimp")]
CORPUS = os.path.join(os.environ.get("VERIF_ROOT", "/verif"), "corpus", "C10")


# ----------------------------------------------------------------------------------------------- helpers
def lehmer(base: list, observed: list) -> list[int]:
    """code such that Model permute(code, base) = observed"""
    rem = list(base)
    code = []
    for x in observed:
        k = rem.index(x)
        code.append(k)
        rem.pop(k)
    return code


def py_permute(code, base):
    rem = list(base)
    out = []
    code = list(code)
    while rem:
        k = (code.pop(0) if code else 0) % len(rem)
        out.append(rem.pop(k))
    return out


def read_tree(root: str) -> dict[str, bytes]:
    out = {}
    if os.path.isfile(root):
        return {os.path.basename(root): open(root, "rb").read()}
    for d, dirs, fs in os.walk(root):
        dirs[:] = [x for x in dirs if x != "__pycache__"]
        for f in fs:
            p = os.path.join(d, f)
            out[os.path.relpath(p, root)] = open(p, "rb").read()
    return out


def digest(files: dict[str, bytes]) -> str:
    h = hashlib.sha256()
    for k in sorted(files):
        h.update(k.encode() + b"\0" + hashlib.sha256(files[k]).digest())
    return h.hexdigest()[:16]


def udiff(a: bytes, b: bytes, name: str, la: str, lb: str, limit: int = 80) -> str:
    lines = list(difflib.unified_diff(a.decode("utf-8", "replace").splitlines(), b.decode("utf-8", "replace").splitlines(),
                                      f"{name} [{la}]", f"{name} [{lb}]", lineterm="", n=2))
    return "\n".join(lines[:limit])


def has_fwdrefs(req: dict) -> bool:
    return any("client_forward_refs" in p for p in (req.get("config") or {}).get("plugins", []))


def run_isolated(req: dict, hashseed: int) -> dict:
    # start_cwd: the interpreter STARTS in the project directory, as the CLI does — isort fixes its source paths
    # (<cwd>/src, <cwd>) when it is imported, so a later chdir does not make the project visible to it
    cwd = None
    if req.get("start_cwd"):
        cwd = req["dir"]
        os.makedirs(cwd, exist_ok=True)
    w = workers.Worker(WORKER, env=workers.child_env(hashseed=str(hashseed)), cwd=cwd)
    try:
        return w.ask(req)
    finally:
        w.close()


def run_pool(reqs: list[dict], hashseed: int, jobs: int = 14) -> list[dict]:
    """Pooled fresh interpreters with the given hash seed.  Before be644af a generation with
    ClientForwardRefsPlugin changed what LATER generations of the same process emitted; such requests still get
    an interpreter of their own, so that a return of that defect shows up in the dedicated same-interpreter
    sequences (with a clear label) rather than as scattered hash-seed differences."""
    out: list = [None] * len(reqs)
    iso = [i for i, r in enumerate(reqs) if has_fwdrefs(r) or r.get("start_cwd")]
    pooled = [i for i in range(len(reqs)) if i not in set(iso)]
    for i, r in zip(pooled, workers.generate_many([reqs[i] for i in pooled], jobs=jobs, hashseed=str(hashseed), script=WORKER)):
        out[i] = r
    if iso:
        with ThreadPoolExecutor(max_workers=jobs) as ex:
            for i, r in zip(iso, ex.map(lambda i: run_isolated(reqs[i], hashseed), iso)):
                out[i] = r
    return out


def target_of(req: dict, res: dict) -> str:
    if req.get("strategy") == "graphqlschema":
        return os.path.join(req["dir"], req["config"].get("target_file_path", "schema_types.py"))
    return res.get("target") or os.path.join(req["dir"], req["config"].get("target_package_name", "gen_client"))


# ----------------------------------------------------------------------------------------------- K2
def k2(ctx):
    run, rng = ctx.run, ctx.rng
    n = 400 if ctx.thorough else 150
    pool_ascii = "abAB01_zZ9"
    pool_any = pool_ascii + " -/.~éßЖ中\U0001f600"
    lists = []
    for i in range(n):
        pool = pool_ascii if i % 3 else pool_any
        lists.append(["".join(rng.choice(pool) for _ in range(rng.randint(0, 6))) for _ in range(rng.randint(0, 9))])
    res = model.batch("C10", [[Sym("sort"), l] for l in lists])
    for l, m in zip(lists, res):
        run.count()
        exp = sorted(l, key=lambda s: s.encode("utf-8"))
        if m != exp or exp != sorted(l):
            run.broken("K2 str_sort vs sorted()", f"{l!r}: model {m!r} python {sorted(l)!r}")
            break
    run.dist("k2", "str_sort", len(lists))
    # paths: pathlib orders by parts
    from pathlib import Path, PurePosixPath

    comps = ["a", "b", "a-b", "a b", "A", "Z", "_x", "x.graphql", "a.gql", "10", "9", ".h", "sub"]
    plists = []
    for _ in range(n):
        ps = set()
        for _ in range(rng.randint(0, 7)):
            ps.add(tuple(rng.choice(comps) for _ in range(rng.randint(1, 3))))
        ps = list(ps)
        rng.shuffle(ps)
        plists.append([list(p) for p in ps])
    res = model.batch("C10", [[Sym("pathsort"), l] for l in plists])
    for l, m in zip(plists, res):
        run.count()
        exp = [list(p.parts) for p in sorted(PurePosixPath(*x) for x in l)]
        if m != exp:
            run.broken("K2 path_sort vs sorted(Path)", f"{l!r}: model {m!r} pathlib {exp!r}")
            break
    run.dist("k2", "path_sort", len(plists))
    names = ["a.graphql", "a.graphqls", "a.gql", "a.GQL", "a.txt", ".graphql", "a.graphql.bak", "x.y.gql", "graphql",
             "a.", "a..gql", "b.graphql ", ".hidden.graphql", "a.gqls"]
    res = model.batch("C10", [[Sym("suffixok"), ["d", nm]] for nm in names])
    for nm, m in zip(names, res):
        run.count()
        exp = Path("d", nm).suffix in (".graphql", ".graphqls", ".gql")
        if (m == "t") != exp:
            run.broken("K2 gql_ext vs Path.suffix", f"{nm!r}: model {m} pathlib {exp}")
    # isort on the names of one from-import
    import isort

    words = ["FooBar", "Foobar", "FOOBAR", "fooBar", "foobar", "Foo", "ABC", "Abc", "aBC", "A", "a", "B1", "b1", "Zed",
             "zed", "X_Y", "x_y", "_p", "_P", "T0", "t0", "Alpha2", "ALPHA2", "alpha2", "AlphA2", "Q", "QT", "Qt"]
    nlists = []
    for _ in range(n):
        l = rng.sample(words, rng.randint(1, 7))
        if rng.random() < 0.2:
            l.append(rng.choice(l))
        nlists.append(l)
    res = model.batch("C10", [[Sym("isortnames"), l] for l in nlists])
    ties = 0
    for l, m in zip(nlists, res):
        run.count()
        code = isort.code("from .fragments import " + ", ".join(l) + "\n")
        tree = ast.parse(code)
        got = [a.name for st in tree.body if isinstance(st, ast.ImportFrom) for a in st.names]
        if len({x.lower() for x in set(l)}) < len(set(l)):
            ties += 1
        if m != got:
            run.broken("K2 isort_names vs isort.code", f"{l!r}: model {m!r} isort {got!r}")
            break
    run.dist("k2", "isort_names", len(nlists))
    run.dist("k2", "isort_names_with_case_ties", ties)
    # permute = the Lehmer decoding used to turn observed orders into oracle codes
    cmds, exp = [], []
    for _ in range(n):
        base = [f"e{i}" for i in range(rng.randint(0, 7))]
        code = [rng.randint(0, 9) for _ in range(rng.randint(0, 8))]
        cmds.append([Sym("permute"), code, base])
        exp.append(py_permute(code, base))
    for c, m, e in zip(cmds, model.batch("C10", cmds), exp):
        run.count()
        if m != e:
            run.broken("K2 permute", f"{c!r}: model {m!r} python {e!r}")
            break
        obs = list(e)
        if py_permute(lehmer(c[2], obs), c[2]) != obs:
            run.broken("K2 lehmer", f"{c!r}")
    run.dist("k2", "permute", len(cmds))


# ----------------------------------------------------------------------------------------------- K1a
CTX_SINK = {"sorted": {"sorted"}, "member": {"member"}, "eq": {"member"}, "size": {"member"}, "construct": {"none"},
            "state:module": {"constant"}, "state:class": {"constant"},
            # caches, mutations of module-level containers and `global` statements have no admissible row
            "state:cache": set(), "state:mutate": set(), "state:global": set(),
            # scheduling / time / chance: an import observes nothing by itself ("none"); a call needs a row whose
            # sink says what its order reaches — none exists in /repo, so any such site fails closed
            "fs:meta": set(),   # no admissible row: the generator has no business with file metadata
            "nondet:import": {"none"}, "nondet:call": {"none", "sorted", "member"},
            # file-system access: inputs are read, the target is written, its existence is tested once; a row that
            # READS the target ("read-target") is not admissible
            "fs": {"read-input", "write-target", "target-exists"}}


def k1_scan(ctx, repo):
    run = ctx.run
    rows = model.call("C10", [Sym("sites")])
    table = {}
    for f, fn, c, e, sink, sens, note in rows:
        table[(f, fn, c, e)] = (sink, sens == "t", note)
    if len(table) != len(rows):
        run.broken("K1 site table", "duplicate rows in Model/Nondet.v site_table")
    sites = c10_scan.scan_repo(repo)
    deriver, derived = c10_scan.scan_repo_full(repo)
    via = {tuple(k): tuple(v) for k, v in model.call("C10", [Sym("downstream")])}
    counts = c10_scan.key_counts(sites)
    run.extra["scan_sites"] = len(sites)
    run.extra["scan_distinct_keys"] = len(counts)
    run.extra["table_rows"] = len(table)
    new = []
    for key, lines in sorted(counts.items()):
        run.count()
        run.dist("scan_context", key[2], len(lines))
        if key not in table:
            new.append({"file": f"ariadne_codegen/{key[0]}", "lines": lines, "function": key[1], "context": key[2],
                        "expression": key[3]})
            continue
        sink = table[key][0]
        run.dist("scan_sink", sink, len(lines))
        allowed = CTX_SINK.get(key[2])
        if allowed is not None and sink not in allowed:
            run.broken("K1 site table", f"row {key} has sink {sink} but the scan sees context {key[2]}")
        # the sink DERIVED by the scan's data-flow must be the row's; where the data-flow gives up, the row must
        # name a downstream expression and the scan must find it
        dsink, why = derived.get(key, (None, ""))
        if dsink is not None:
            run.dist("derived_sink", dsink)
            if dsink == "unknown":
                d = via.get(key)
                if d is None or not c10_scan.find_expression(deriver, d[0], d[1], d[2]):
                    run.violation(
                        f"K1 derived sink: ariadne_codegen/{key[0]}:{lines[0]} {key[1]}: {key[2]} {key[3]} — the scan cannot "
                        f"derive what this iteration order reaches ({why}) and " + (
                            f"the downstream expression {d[2]!r} is no longer in {d[0]}::{d[1]}" if d else
                            "the model names no downstream expression for it"),
                        {"stage": "K1 derived sink", "site": list(key), "lines": lines, "why": why, "downstream": list(d) if d else None},
                        found_input=False)
                else:
                    run.dist("derived_sink", "unknown-but-downstream-found")
            elif dsink != sink:
                run.violation(
                    f"K1 derived sink: ariadne_codegen/{key[0]}:{lines[0]} {key[1]}: {key[2]} {key[3]} — the table says {sink}, the scan derives {dsink} ({why})",
                    {"stage": "K1 derived sink", "site": list(key), "table": sink, "derived": dsink, "why": why}, found_input=False)
    for s in new:
        run.violation(
            f"K1 new unordered-collection site not in the model's site table: {s['file']}:{s['lines'][0]} "
            f"{s['function']}: {s['context']} {s['expression']}", {"stage": "K1 static scan", "new_site": s},
            found_input=False)
    # model DATA derived from the source on every run (fail closed when the derivation no longer applies)
    src = c10_scan.source_constants(repo)
    run.extra["derived_from_source"] = src
    exts = src.get("graphql_extensions")
    if not exts:
        run.broken("K2 source-derived data", "walk_graphql_files no longer has an `extensions = (...)` tuple to read")
    else:
        probes = sorted(set(exts) | {".graphql", ".graphqls", ".gql", ".txt", ".GQL", ".graphqlx", ".json"})
        res = model.batch("C10", [[Sym("suffixok"), ["d", "f" + e]] for e in probes])
        for e, m in zip(probes, res):
            run.count()
            if (m == "t") != (e in exts):
                run.violation(f"K2 source-derived data: schema.py accepts the extensions {exts}; the model's gql_ext says {m} for {e!r}",
                              {"stage": "K2 extensions", "source": exts, "extension": e, "model": m}, found_input=False)
    shared = src.get("shared_imports")
    if not shared or "UNSET_IMPORT" not in shared:
        run.broken("K2 source-derived data", "constants.py no longer defines the shared ast.ImportFrom constants the model's st_initial mirrors")
    else:
        st0 = model.call("C10", [Sym("stinitial")])
        want = [["base_model", shared["UNSET_IMPORT"]["names"]], ["base_model", shared["UPLOAD_IMPORT"]["names"]]]
        run.count()
        if [list(x) for x in st0[:2]] != want or any(v["level"] != 1 for v in shared.values()):
            run.violation(f"K2 source-derived data: shared import constants {shared} vs model st_initial {st0}",
                          {"stage": "K2 shared imports", "source": shared, "model": st0}, found_input=False)
    stale = [list(k) for k in table if k not in counts]
    run.extra["table_rows_not_in_code"] = stale
    run.extra["order_sensitive_rows_present"] = [list(k) for k, v in table.items() if v[1] and k in counts]
    return new


# ----------------------------------------------------------------------------------------------- scenarios
class Case:
    """one scenario + how to request its variants"""

    def __init__(self, sid: str, sc, plugins=(), kind="shared"):
        self.sid, self.sc, self.plugins, self.kind = sid, sc, tuple(plugins), kind
        self.split_schema = None
        self.split_queries = None
        self.probe = {}
        self.selfimport = False   # some generated module imports ABSOLUTELY from the target package itself
        self.many = False         # schema and operations are ALWAYS directories of 25+ files (one definition each)

    def config(self, **over) -> dict:
        cfg = dict(self.sc.config)
        if self.plugins:
            cfg["plugins"] = [PLUGINS[p] for p in self.plugins]
        cfg.update(over)
        return cfg

    def request(self, d: str, split_order: int | None = None, rng_seed: int = 0, **cfg_over) -> dict:
        schema, queries = self.sc.sdl, self.sc.queries
        if self.many and split_order is None:
            schema, queries = self.split_schema, self.split_queries
        if split_order is not None:
            r = random.Random(rng_seed * 131 + split_order)
            schema = self.split_schema if split_order == 0 else c10_gen.shuffled(self.split_schema, r)
            queries = self.split_queries if split_order == 0 else c10_gen.shuffled(self.split_queries, r)
        return {"dir": d, "schema": schema, "queries": queries, "config": self.config(**cfg_over),
                "files": dict(self.sc.files), "sid": self.sid, "start_cwd": self.selfimport}


def build_cases(ctx) -> list[Case]:
    t = ctx.thorough
    cases = []
    import json

    for f in sorted(os.listdir(CORPUS)) if os.path.isdir(CORPUS) else []:
        d = json.load(open(os.path.join(CORPUS, f)))
        sc = scen_gen.Scenario(seed=0, sdl=d["schema"], queries=d["queries"], config=dict(d.get("config") or {}),
                               files=dict(d.get("files") or {}))
        cases.append(Case("corpus:" + f[:-5], sc, d.get("plugins") or (), "corpus"))
        cases[-1].selfimport = bool(d.get("selfimport"))
    n_corpus = len(cases)
    n_shared, n_stress, n_fold = (30, 36, 18) if t else (6, 7, 3)
    i = k = 0
    while i < n_shared and k < 4 * n_shared:
        k += 1
        try:
            sc = scen_gen.make(1000 + k + ctx.seed * 10007, n_ops=5)
        except RuntimeError:
            continue
        cases.append(Case(f"shared{i}", sc, PLUGIN_SETS[i % len(PLUGIN_SETS)], "shared"))
        i += 1
    for i in range(n_stress):
        sc = c10_gen.make(i + ctx.seed * 10007)
        cases.append(Case(f"stress{i}", sc, PLUGIN_SETS[(i * 3) % len(PLUGIN_SETS)], "stress"))
    for i in range(n_fold):
        sc = c10_gen.make(500 + i + ctx.seed * 10007, ("casefold",))
        cases.append(Case(f"casefold{i}", sc, PLUGIN_SETS[(i * 2) % len(PLUGIN_SETS)], "casefold"))
    # paths that point INTO the target package (cwd = project directory): custom scalar parse/serialize/type,
    # a @mixin import, a custom base client — the files are copied into the package by files_to_include
    for i in range(9 if t else 3):
        sc = c10_gen.make(900 + i + ctx.seed * 10007)
        cfg = dict(sc.config)
        files = dict(sc.files)
        queries = sc.queries
        shape = i % 3
        if shape in (0, 2):
            files["scalars_pkg.py"] = c10_gen.SCALARS_PY + "class MyBlob(dict):\n    pass\n"
            cfg["files_to_include"] = ["scalars_pkg.py"]
            cfg["scalars"] = {"DateTime": {"type": "datetime.datetime", "parse": "gen_client.scalars_pkg.parse_dt",
                                           "serialize": "gen_client.scalars_pkg.ser_dt"},
                              "JSONBlob": {"type": "gen_client.scalars_pkg.MyBlob"}}
        if shape in (1, 2):
            files["mixins_pkg.py"] = "class LinkMixin:\n    def link_id(self):\n        return getattr(self, 'id', None)\n"
            cfg["files_to_include"] = cfg.get("files_to_include", []) + ["mixins_pkg.py"]
            queries += '\nquery WithMixin { t0 { id link @mixin(from: "gen_client.mixins_pkg", import: "LinkMixin") { id } } }\n'
        if shape == 1:
            src = open(os.path.join(workers.REPO, "ariadne_codegen", "client_generators", "dependencies",
                                    "async_base_client.py" if cfg.get("async_client", True) else "base_client.py")).read()
            name = "AsyncBaseClient" if cfg.get("async_client", True) else "BaseClient"
            files["my_base_client.py"] = src.replace(f"class {name}", "class MyBaseClient")
            cfg["base_client_file_path"] = "my_base_client.py"
            cfg["base_client_name"] = "MyBaseClient"
        sc2 = scen_gen.Scenario(seed=sc.seed, sdl=sc.sdl, queries=queries, config=cfg, features=sc.features + ("selfimport",),
                                files=files)
        c = Case(f"selfimport{i}", sc2, PLUGIN_SETS[[0, 2, 1][i % 3]], "selfimport")
        c.selfimport = True
        cases.append(c)
    for i, c in enumerate(cases[n_corpus:]):
        if c.kind == "selfimport":
            continue
        if i % 3 == 1:   # pruned enums / inputs (the used-name lists come from several generators)
            c.sc.config = {**c.sc.config, "include_all_enums": False, "include_all_inputs": False}
    # projects of MANY files: every generation of these cases loads 25+ schema files and 25+ operation files
    n_many = len(cases)
    for i in range(6 if t else 2):
        sc = c10_gen.make(1300 + i + ctx.seed * 10007)
        c = Case(f"manyfiles{i}", sc, PLUGIN_SETS[[0, 2, 1][i % 3]], "manyfiles")
        c.many = True
        cases.append(c)
    for c in cases:
        r = random.Random(sum(map(ord, c.sid)) * 31 + ctx.seed)
        if c.many:
            c.split_schema = c10_gen.many_files(c.sc.sdl, r, "schema")
            c.split_queries = c10_gen.many_files(c.sc.queries, r, "queries")
            continue
        c.split_schema = c10_gen.split_document(c.sc.sdl, r)
        c.split_queries = c10_gen.split_document(c.sc.queries, r)
    return cases


# ----------------------------------------------------------------------------------------------- classification
def import_name_view(src: str):
    """(ast dump with the names of every from-import sorted, [names of each from-import in order])"""
    tree = ast.parse(src)
    groups = []
    for n in ast.walk(tree):
        if isinstance(n, ast.ImportFrom):
            groups.append([a.name for a in n.names])
            n.names = sorted(n.names, key=lambda a: (a.name, a.asname or ""))
    return ast.dump(tree), groups


def toplevel_multiset(src: str):
    tree = ast.parse(src)
    return sorted(ast.dump(s) for s in tree.body)


def import_block_view(src: str):
    """(sorted dumps of the top-level import statements, dumps of everything else in order)"""
    tree = ast.parse(src)
    imps = sorted(ast.dump(st) for st in tree.body if isinstance(st, (ast.Import, ast.ImportFrom)))
    rest = [ast.dump(st) for st in tree.body if not isinstance(st, (ast.Import, ast.ImportFrom))]
    return imps, rest


def import_blocks(src: str):
    """blocks of consecutive top-level import statements -> ([(level, module) in file order], [[absolute modules]...])"""
    tree = ast.parse(src)
    imps, blocks, prev_end = [], [], None
    for st in tree.body:
        if isinstance(st, ast.ImportFrom):
            items = [(st.level, st.module or "")]
        elif isinstance(st, ast.Import):
            items = [(0, a.name) for a in st.names]
        elif isinstance(st, ast.Expr) and isinstance(getattr(st, "value", None), ast.Constant) and not imps:
            continue   # module docstring / leading comment string
        else:
            break
        if prev_end is None or st.lineno != prev_end + 1:
            blocks.append([])
        prev_end = st.end_lineno
        imps.extend(items)
        for lv, m in items:
            if lv == 0 and m not in blocks[-1]:
                blocks[-1].append(m)
    return imps, [b for b in blocks if b]


class Classifier:
    def __init__(self):
        self._keys = {}

    def explain_fs(self, fname: str, a: bytes, b: bytes) -> bool:
        """the two files differ only in how their top-level imports are arranged into blocks"""
        if not fname.endswith(".py"):
            return False
        try:
            return import_block_view(a.decode()) == import_block_view(b.decode())
        except (SyntaxError, UnicodeDecodeError):
            return False

    def key(self, name: str) -> str:
        if name not in self._keys:
            self._keys[name] = model.call("C10", [Sym("isortkey"), name])
        return self._keys[name]

    def explain(self, case: Case, fname: str, a: bytes, b: bytes) -> str | None:
        """finding class that fully explains the difference of one file — none is open for C10"""
        return None


# ----------------------------------------------------------------------------------------------- K1b
def k1_probe(ctx, case: Case, seed: int, res: dict, files: dict[str, bytes]):
    """model on the recorded oracles vs what the real functions did / wrote"""
    run = ctx.run
    probe = res.get("probe") or {}
    if res.get("probe_missing"):
        run.extra.setdefault("probe_symbols_missing", sorted(set(res["probe_missing"])))
    frag_mod = case.sc.config.get("fragments_module_name", "fragments")
    cmds, expect, what = [], [], []
    gens = probe.get("fragments_generate") or []
    for i, d in enumerate(probe.get("dfs") or []):
        g = gens[i] if i < len(gens) else {"defs": d["processed"], "exclude": []}
        # hypothesis of C10_fragments_module_total on the real input: names distinct, every mixin a defined fragment
        run.count()
        if len(set(g["defs"])) != len(g["defs"]) or any(x not in g["defs"] for v in d["deps_iter"].values() for x in v):
            run.violation(f"K1 wf_finput does not hold of a real input of FragmentsGenerator ({case.sid}, seed {seed})",
                          {"stage": "K1 wf_finput", "defs": g["defs"], "deps": d["deps_iter"]}, found_input=False)
        mix = [[k, sorted(v)] for k, v in d["deps_iter"].items()]
        oc = [[k, lehmer(sorted(v), v)] for k, v in d["deps_iter"].items()]
        cmds.append([Sym("fragorder"), g["defs"], mix, g["exclude"], oc])
        expect.append([d["processed"], d["result"]])
        what.append(("dfs", d))
        maxdeps = max([len(v) for v in d["deps_iter"].values()] or [0])
        run.dist("probe_max_mixin_deps", str(min(maxdeps, 5)) + ("+" if maxdeps >= 5 else ""))
        run.dist("probe_fragments_generated", str(min(len(d["processed"]) // 4 * 4, 16)) + "+")
        if maxdeps >= 2:
            case.probe["f12_class"] = True
            nontrivial = [k for k, v in d["deps_iter"].items() if len(v) >= 2 and v != sorted(v)]
            if nontrivial:
                run.nontrivial_case(("dfs-oracle-not-sorted", case.sid, seed))
    for m in probe.get("op_mixins") or []:
        if not m["iter"]:
            continue
        cmds.append([Sym("opimports"), lehmer(sorted(m["iter"]), m["iter"]), sorted(m["iter"])])
        expect.append(m)
        what.append(("imports", m))
    out = model.batch("C10", cmds) if cmds else []
    for (kind, d), exp, got in zip(what, expect, out):
        run.count()
        if kind == "dfs":
            if got != exp:
                run.violation(f"K1 frag_module_order: model {got!r} vs real {exp!r} ({case.sid}, PYTHONHASHSEED={seed})",
                              {"stage": "K1 fragments order", "case": case.sid, "hashseed": seed, "probe": d,
                               "model": got, "queries": case.sc.queries}, found_input=False)
                continue
            src = files.get(frag_mod + ".py")
            if src is not None:
                from ariadne_codegen.utils import str_to_pascal_case

                tops = [str_to_pascal_case(n) for n in exp[1]]
                classes = [s.name for s in ast.parse(src.decode()).body if isinstance(s, ast.ClassDef)]
                on_disk = [c for c in classes if c in set(tops)]
                want = [t for t in tops if t in set(classes)]
                # a nested class of one fragment may carry the name of another fragment's top class (F22): skip then
                if len(set(on_disk)) == len(on_disk) and on_disk != want:
                    run.violation(f"K1 class order of {frag_mod}.py {on_disk!r} is not the model's {want!r} ({case.sid}, seed {seed})",
                                  {"stage": "K1 fragments file order", "case": case.sid, "hashseed": seed,
                                   "model": got, "classes": classes}, found_input=False)
        else:
            from ariadne_codegen.utils import process_name

            m = exp
            fname = process_name(m["operation"], convert_to_snake_case=True) + ".py" if m["operation"] else None
            src = files.get(fname) if fname else None
            if len({ctx._cls.key(x) for x in got}) < len(got):
                case.probe["tie_class"] = True
                run.nontrivial_case(("isort-tie", case.sid, seed))
            if src is None:
                continue
            real = None
            tree = ast.parse(src.decode())
            for st in tree.body:
                if isinstance(st, ast.ImportFrom) and st.level == 1 and st.module == m["module"]:
                    real = [a.name for a in st.names]
            # autoflake (before isort) drops the names the module does not use: since 959c464 a mixin that
            # another base already inherits is imported by the generator but no longer listed as a base
            used = {n.id for n in ast.walk(tree) if isinstance(n, ast.Name)}
            got = [n for n in got if n in used] or None
            if real != got:
                run.violation(f"K1 op_import_names: model {got!r} vs `from .{m['module']} import` {real!r} in {fname} ({case.sid}, seed {seed})",
                              {"stage": "K1 operation imports", "case": case.sid, "hashseed": seed, "probe": m,
                               "model": got, "file": fname}, found_input=False)
    for tv in probe.get("typename_raw") or []:
        run.dist("probe_typename_values", str(min(len(tv["values"]), 8)))


def k1_generate_into(ctx, c: Case, base, results, reqmap):
    """Model generate_into (exists-test, mkdir, writes) vs the real generator meeting the target as: absent (the
    baseline), a directory with a placeholder, a FILE of that name, and with a missing parent directory."""
    run = ctx.run
    p = [[k, base[k].decode("utf-8", "surrogateescape")] for k in sorted(base)]
    for label, st, fs in (("dir", "dir", [[".placeholder", ""]]), ("file", "file", []), ("absent", "absent", [])):
        out = model.call("C10", [Sym("generateinto"), True, p, st, fs])
        run.count()
        run.dist("k1_generate_into", label)
        if label == "absent":
            real = ["ok", sorted(base)]
            got = ["ok", sorted(k for k, _v in out[1])] if out[0] == "ok" else out
        else:
            req, res = reqmap.get((c.sid, ("tstate", label)), (None, None))
            if res is None:
                continue
            if res.get("ok"):
                files = results[(c.sid, ("tstate", label))]
                real = ["ok", {k: v.decode("utf-8", "surrogateescape") for k, v in files.items()}]
                got = ["ok", dict(map(tuple, out[1]))] if out[0] == "ok" and isinstance(out[1], list) else out
            else:
                real = ["err", (res.get("exc") or ["?"])[0].split(".")[-1]]
                got = list(out)
        if got != real:
            run.violation(f"K1 generate_into: target met as {label!r}: model {str(got)[:200]} vs real {str(real)[:200]} ({c.sid})",
                          {"stage": "K1 generate_into", "case": c.sid, "target_state": label, "model": str(got)[:2000],
                           "real": str(real)[:2000]}, found_input=False)
    # a missing parent is refused by the settings before the generator runs (C17's ground): recorded, not modelled
    req, res = reqmap.get((c.sid, ("tstate", "noparent")), (None, None))
    if res is not None:
        run.dist("k1_generate_into", "noparent:" + ("generated" if res.get("ok") else (res.get("exc") or ["?"])[0].split(".")[-1]))


def k1_layout(ctx, c: Case, results):
    """Model layout (isort's section placement under the filesystem oracle gen_env) vs the import blocks on disk:
    fresh, regenerated (target package present) and with extra directories in cwd."""
    run = ctx.run
    if not hasattr(ctx, "_stdlib"):
        from isort.stdlibs import py3

        ctx._stdlib = sorted(py3.stdlib)
    cwd0 = sorted({f.split("/")[0].removesuffix(".py") for f in c.sc.files if f.endswith(".py") or "/" in f})
    variants = [(("cwdbase", 0), cwd0, False),
                (("shadow", 0), sorted(set(cwd0) | {"pydantic", "typing_extensions"}), False)]
    if c.selfimport:   # all runs of these cases start in the project directory
        variants += [(("seed", 0), cwd0, False), (("regen", 0, 0), cwd0, True)]
    cmds, meta = [], []
    for key, cwd, regen in variants:
        files = results.get((c.sid, key))
        if not files:
            continue
        # modules first placed while the package directory was still empty: those of the first formatted file
        first_file = c.sc.config.get("input_types_module_name", "input_types") + ".py"
        try:
            early = sorted({m for lv, m in import_blocks(files[first_file].decode())[0] if lv == 0})
        except (KeyError, SyntaxError, UnicodeDecodeError):
            early = []
        for fn in sorted(files):
            if not fn.endswith(".py") or "/" in fn:
                continue
            try:
                imps, blocks = import_blocks(files[fn].decode())
            except (SyntaxError, UnicodeDecodeError):
                continue
            if not any(lv == 0 for lv, _m in imps):
                continue
            cmds.append([Sym("layout"), ctx._stdlib, cwd, "gen_client", regen, early, [[lv, m] for lv, m in imps]])
            meta.append((key, fn, blocks))
    copied = {"async_base_client.py", "base_client.py", "async_base_client_open_telemetry.py",
              "base_client_open_telemetry.py", "base_model.py", "exceptions.py", "my_base_client.py", "scalars_pkg.py",
              "mixins_pkg.py", "scalars_impl.py"}
    for (key, fn, blocks), got in zip(meta, model.batch("C10", cmds) if cmds else []):
        if fn in copied:
            continue   # copied verbatim, never passed through isort
        run.count()
        run.dist("k1_layout", key[0])
        if got != blocks:
            run.violation(f"K1 layout: model blocks {got} vs import blocks of {fn} {blocks} ({c.sid}, {key})",
                          {"stage": "K1 isort sections", "case": c.sid, "variant": list(map(str, key)), "file": fn,
                           "model": got, "real": blocks}, found_input=False)
        elif len(blocks) >= 3:
            run.nontrivial_case(("layout-first-party", c.sid, key[0]))


# ----------------------------------------------------------------------------------------------- search
def shrink(ctx, case: Case, seed_a: int, seed_b: int, scratch, budget: int = 40):
    """smallest operations document on which the two hash seeds still give different bytes"""
    gs = build_schema(case.sc.sdl)
    rules = [r for r in specified_rules if r is not NoUnusedFragmentsRule]
    wa = workers.Worker(WORKER, env=workers.child_env(hashseed=str(seed_a)))
    wb = workers.Worker(WORKER, env=workers.child_env(hashseed=str(seed_b)))
    used = [0]

    def differs(qtext: str):
        used[0] += 1
        out = []
        for w in (wa, wb):
            d = scratch.new("shrink")
            req = case.request(d)
            req["queries"] = qtext
            res = w.ask(req)
            if not res.get("ok"):
                return None
            out.append(read_tree(target_of(req, res)))
        if out[0] == out[1]:
            return None
        # a candidate counts only while a difference remains that no finding class explains
        unexplained = [n for n in sorted(set(out[0]) | set(out[1])) if out[0].get(n) != out[1].get(n)
                       and not (n in out[0] and n in out[1] and ctx._cls.explain(case, n, out[0][n], out[1][n]))]
        if not unexplained:
            return None
        return out

    try:
        best_q = case.sc.queries
        best = differs(best_q)
        if best is None:
            return None
        changed = True
        while changed and used[0] < budget:
            changed = False
            defs = list(parse(best_q).definitions)
            for i in range(len(defs)):
                if used[0] >= budget:
                    break
                cand = defs[:i] + defs[i + 1:]
                if not any(d.kind == "operation_definition" for d in cand):
                    continue
                text = "\n\n".join(print_ast(d) for d in cand) + "\n"
                try:
                    if validate(gs, parse(text), rules):
                        continue
                except Exception:
                    continue
                r = differs(text)
                if r is not None:
                    best_q, best, changed = text, r, True
                    break
        return best_q, best
    finally:
        wa.close()
        wb.close()


MAX_REPORTS, MAX_SHRINKS = 12, 2


def report_mismatch(ctx, case: Case, what: str, la: str, lb: str, fa: dict, fb: dict, scratch, seeds=None,
                    env_variant=False):
    run = ctx.run
    # (env_variant: the two runs differ in what cwd contains / whether the target existed; no class is open
    #  for that since f6e5e03 — a difference is a violation like any other)
    st = ctx.__dict__.setdefault("_reports", {"n": 0, "shrinks": 0, "seen": set()})
    st["n"] += 1
    run.dist("unexplained_differences", what)
    if st["n"] > MAX_REPORTS or (case.sid, what) in st["seen"]:
        return   # counted in the evidence; the first reports carry the replays
    st["seen"].add((case.sid, what))
    shrink_seeds = None
    if seeds is not None and st["shrinks"] < MAX_SHRINKS:
        st["shrinks"] += 1
        shrink_seeds = seeds
    names = sorted(set(fa) | set(fb))
    differing = [n for n in names if fa.get(n) != fb.get(n)]
    replay = {"case": case.sid, "kind": case.kind, "plugins": list(case.plugins), "variants": [la, lb],
              "differing_files": differing, "schema": case.sc.sdl, "queries": case.sc.queries,
              "config": case.config(), "extra_files": case.sc.files}
    if seeds is not None:
        replay["hashseeds"] = list(seeds)
    if shrink_seeds is not None:
        try:
            sm = shrink(ctx, case, seeds[0], seeds[1], scratch)
        except Exception as exc:  # noqa
            sm = None
            replay["shrink_error"] = repr(exc)
        if sm is not None:
            q, (sa, sb) = sm
            replay["smallest_queries"] = q
            fa, fb = sa, sb
            differing = [n for n in sorted(set(fa) | set(fb)) if fa.get(n) != fb.get(n)
                         and not (n in fa and n in fb and ctx._cls.explain(case, n, fa[n], fb[n]))]
            replay["differing_files_smallest"] = differing
    replay["diff"] = "\n".join(udiff(fa.get(n, b""), fb.get(n, b""), n, la, lb) for n in differing[:4])
    run.violation(f"{what}: {case.sid} {la} vs {lb}: {differing[:6]}", replay)


# ----------------------------------------------------------------------------------------------- K3
def k3(ctx, scratch):
    run = ctx.run
    cls = Classifier()
    ctx._cls = cls
    nseeds = 33 if ctx.thorough else 7
    seeds = list(range(nseeds))
    probe_seeds = [0, 3] if not ctx.thorough else [0, 3, 5, 11, 17, 29]
    cases = build_cases(ctx)
    run.extra["hash_seeds"] = nseeds
    run.extra["cases"] = len(cases)
    for c in cases:
        run.dist("case_kind", c.kind)
        run.dist("plugins", "+".join(c.plugins) or "none")
        doc = parse(c.sc.queries)
        nfr = sum(1 for d in doc.definitions if d.kind == "fragment_definition")
        run.dist("fragments_per_case", str(nfr // 4 * 4) + "+")
        run.dist("async_client", str(c.sc.config.get("async_client")))
        run.dist("custom_scalars", "yes" if c.sc.config.get("scalars") else "no")
        run.dist("pruned_enums_inputs", str(c.sc.config.get("include_all_enums") is False))
        run.dist("input_files_per_case", f"{len(c.split_schema) // 10 * 10}+ schema / {len(c.split_queries) // 10 * 10}+ operations" if c.many
                 else "single files (+ split variants)")
    if True:
        results = {}   # (sid, variant) -> files
        reqmap = {}    # (sid, variant) -> (req, res)
        lock = threading.Lock()

        def phase(plan: dict[int, list[tuple]]):
            """plan: hashseed -> [(key, request)] ; pools for different seeds run one after another"""
            def one_seed(item):
                hs, entries = item
                if not entries:
                    return
                outs = run_pool([e[1] for e in entries], hs, jobs=max(2, 16 // max(1, min(len(plan), 7))))
                for (key, req), res in zip(entries, outs):
                    with lock:
                        reqmap[key] = (req, res)
                        if res.get("ok"):
                            results[key] = read_tree(target_of(req, res))
            with ThreadPoolExecutor(max_workers=7) as ex:
                list(ex.map(one_seed, plan.items()))

        # ---- phase 1: fresh directories
        plan = {s: [] for s in seeds}
        tstate_cases = \
            {c.sid for c in [x for x in cases if not x.selfimport and "fwdrefs" not in x.plugins][:3]}
        stale_files = {"gen_client/zzz_stale_operation.py": "# left over from an older generation\nX = 1\n",
                       "gen_client/fragments.py": "raise RuntimeError('stale fragments module')\n",
                       "gen_client/__init__.py": "# stale init\n",
                       "gen_client/notes.txt": "kept\n"}
        for c in cases:
            for s in seeds:
                plan[s].append(((c.sid, ("seed", s)), c.request(scratch.new(c.sid))))
            for s in probe_seeds:
                r = c.request(scratch.new(c.sid))
                r["cmd"] = "probe"
                plan[s].append(((c.sid, ("probe", s)), r))
            # schema and operations as directory trees, files created in different orders
            plan[0].append(((c.sid, ("split", 0, 0)), c.request(scratch.new(c.sid), split_order=0)))
            plan[0].append(((c.sid, ("split", 0, 1)), c.request(scratch.new(c.sid), split_order=1, rng_seed=1)))
            plan[1].append(((c.sid, ("split", 1, 2)), c.request(scratch.new(c.sid), split_order=2, rng_seed=2)))
            if ctx.thorough:
                plan[2].append(((c.sid, ("split", 2, 3)), c.request(scratch.new(c.sid), split_order=3, rng_seed=3)))
            # ... and listed by the operating system in other orders (injected at pathlib.Path.glob)
            for lo in ("reverse", "shuffle:1") + (("shuffle:2", "shuffle:3") if ctx.thorough else ()):
                r = c.request(scratch.new(c.sid), split_order=0)
                r["listing_order"] = lo
                plan[0].append(((c.sid, ("listing", lo)), r))
            # cwd contains an unrelated directory named like an imported module
            if ctx.thorough or c.selfimport or c.kind == "corpus" or sum(map(ord, c.sid)) % 3 == 0:
                r = c.request(scratch.new(c.sid))
                r["start_cwd"] = True
                plan[0].append(((c.sid, ("cwdbase", 0)), r))
                r = c.request(scratch.new(c.sid))
                r["files"] = {**r["files"], "pydantic/.keep": "", "typing_extensions/.keep": ""}
                r["start_cwd"] = True
                plan[0].append(((c.sid, ("shadow", 0)), r))
            # the target as the generator may meet it: an (almost) empty directory, a FILE of that name, no parent
            if c.sid in tstate_cases:
                r = c.request(scratch.new(c.sid))
                r["files"] = {**r["files"], "gen_client/.placeholder": ""}
                plan[0].append(((c.sid, ("tstate", "dir")), r))
                r = c.request(scratch.new(c.sid))
                r["files"] = {**r["files"], "gen_client": "a file, not a directory\n"}
                plan[0].append(((c.sid, ("tstate", "file")), r))
                r = c.request(scratch.new(c.sid), target_package_path="missing/sub")
                plan[0].append(((c.sid, ("tstate", "noparent")), r))
            # stale target directory
            r = c.request(scratch.new(c.sid))
            r["files"] = {**r["files"], **stale_files}
            plan[0].append(((c.sid, ("stale", 0)), r))
            # stable comments
            for s in ((0, 1, 2) if ctx.thorough else (0, 1)):
                plan[s].append(((c.sid, ("stable", s)), c.request(scratch.new(c.sid), include_comments="stable")))
        # probes need their own interpreters (wrappers installed): separate pools
        probe_plan = {s: [e for e in plan[s] if e[1].get("cmd") == "probe"] for s in probe_seeds}
        for s in seeds:
            plan[s] = [e for e in plan[s] if e[1].get("cmd") != "probe"]
        phase(plan)
        phase(probe_plan)
        # ---- phase 2: regenerate over what phase 1 left (same seed, and another seed)
        plan2 = {0: [], 1: [], 2: []}
        for c in cases:
            # every source directory is regenerated exactly once (two regenerations of one directory would race)
            for src_seed, hs in (((0, 0), (2, 1), (4, 2)) if ctx.thorough else ((0, 0), (2, 1))):
                key = (c.sid, ("seed", src_seed))
                if key in results:
                    req = dict(reqmap[key][0])
                    plan2[hs].append(((c.sid, ("regen", src_seed, hs)), req))
            key = (c.sid, ("stable", 0))
            if key in results:
                plan2[1].append(((c.sid, ("regen-stable", 0, 1)), dict(reqmap[key][0])))
        phase(plan2)
        # ---- truly first generation of a process vs pooled workers (sample)
        firsts = {}
        sample = cases[:: max(1, len(cases) // (12 if ctx.thorough else 5))]

        def first_in_process(c):
            w = workers.Worker(WORKER, env=workers.child_env(hashseed="0"))
            try:
                req = c.request(scratch.new(c.sid))
                res = w.ask(req)
                if res.get("ok"):
                    firsts[c.sid] = read_tree(target_of(req, res))
            finally:
                w.close()
        with ThreadPoolExecutor(max_workers=8) as ex:
            list(ex.map(first_in_process, sample))

        # ---- generation failures: C10 says nothing about inputs the generator refuses, but they must be
        #      refused consistently
        for c in cases:
            oks = {v: (c.sid, v) in results for (sid, v) in list(reqmap) if sid == c.sid and v[0] != "tstate"}
            if not any(oks.values()):
                exc = reqmap[(c.sid, ("seed", 0))][1].get("exc")
                run.dist("generation", f"refused:{(exc or ['?'])[0]}")
                continue
            run.dist("generation", "ok")
            bad = [v for v, ok in oks.items() if not ok]
            if bad:
                req, res = reqmap[(c.sid, bad[0])]
                run.violation(f"generation of {c.sid} succeeds for some variants and fails for {bad[:4]}: {res.get('exc')}",
                              {"case": c.sid, "failed_variants": [list(map(str, b)) for b in bad], "exc": res.get("exc"),
                               "tb": res.get("tb"), "schema": c.sc.sdl, "queries": c.sc.queries, "config": c.config()})

        # ---- K1b on the probes (also decides the finding classes of each case)
        for c in cases:
            for s in probe_seeds:
                key = (c.sid, ("probe", s))
                if key not in results:
                    continue
                k1_probe(ctx, c, s, reqmap[key][1], results[key])
                plain = results.get((c.sid, ("seed", s)))
                run.count()
                if plain is not None and plain != results[key]:
                    report_mismatch(ctx, c, "probing changed the generated bytes (harness self-check)",
                                    f"seed {s}", f"probe {s}", plain, results[key], scratch)
            run.dist("finding_class_inputs", "+".join(k for k in ("f12_class", "tie_class") if c.probe.get(k)) or "none")

        # ---- K3 comparisons
        def compare(c, ka, kb, la, lb, what, seeds_pair=None, only=None):
            fa, fb = results.get((c.sid, ka)), results.get((c.sid, kb))
            if fa is None or fb is None:
                return
            if only is not None:
                fa = {k: v for k, v in fa.items() if k in only}
                fb = {k: v for k, v in fb.items() if k in only}
            run.count()
            run.dist("comparisons", what)
            if fa == fb:
                return
            differing = [n for n in sorted(set(fa) | set(fb)) if fa.get(n) != fb.get(n)]
            report_mismatch(ctx, c, what, la, lb, fa, fb, scratch, seeds=seeds_pair)

        for c in cases:
            if (c.sid, ("seed", 0)) not in results:
                continue
            base = results[(c.sid, ("seed", 0))]
            run.nontrivial_case(("case", c.sid))
            distinct = {digest(results[(c.sid, ("seed", s))]) for s in seeds if (c.sid, ("seed", s)) in results}
            run.dist("distinct_outputs_over_seeds", str(len(distinct)))
            for s in seeds[1:]:
                compare(c, ("seed", 0), ("seed", s), "PYTHONHASHSEED=0", f"PYTHONHASHSEED={s}",
                        "hash seed", seeds_pair=(0, s))
            # creation order of the files of the schema / queries directories (hash seed held fixed by
            # comparing only the files no finding class touches when the seed differs)
            compare(c, ("split", 0, 0), ("split", 0, 1), "creation order 0", "creation order 1", "file creation order")
            for lo in ("reverse", "shuffle:1", "shuffle:2", "shuffle:3"):
                compare(c, ("split", 0, 0), ("listing", lo), "listing as the OS gives it", f"listing {lo}",
                        "directory listing order")
            compare(c, ("split", 0, 0), ("split", 1, 2), "creation order 0 seed 0", "creation order 2 seed 1",
                    "file creation order + hash seed", seeds_pair=None)
            compare(c, ("split", 0, 0), ("split", 2, 3), "creation order 0 seed 0", "creation order 3 seed 2",
                    "file creation order + hash seed", seeds_pair=None)
            # regeneration
            compare(c, ("seed", 0), ("regen", 0, 0), "fresh", "regenerated over itself", "regenerate (same seed)")
            compare(c, ("seed", 1), ("regen", 2, 1), "fresh seed 1", "seed 1 over a seed-2 generation",
                    "regenerate (other seed)")
            compare(c, ("seed", 2), ("regen", 4, 2), "fresh seed 2", "seed 2 over a seed-4 generation",
                    "regenerate (other seed)")
            compare(c, ("stable", 1), ("regen-stable", 0, 1), "fresh stable seed 1", "stable seed 1 over seed 0",
                    "regenerate (stable comments)")
            for s in (1, 2):
                compare(c, ("stable", 0), ("stable", s), "stable seed 0", f"stable seed {s}", "hash seed (stable comments)",
                        seeds_pair=None)
            # an unrelated directory named like an imported module next to the project files
            sh, cb = results.get((c.sid, ("shadow", 0))), results.get((c.sid, ("cwdbase", 0)))
            if sh is not None and cb is not None:
                run.count()
                run.dist("comparisons", "cwd contains a directory named like an imported module")
                if sh != cb:
                    report_mismatch(ctx, c, "cwd contains a directory named like an imported module", "plain cwd",
                                    "cwd with pydantic/ and typing_extensions/", cb, sh, scratch, env_variant=True)
                run.count()
                run.dist("comparisons", "interpreter started in the project directory vs elsewhere")
                if cb != base:
                    report_mismatch(ctx, c, "interpreter started in the project directory vs elsewhere (chdir later)",
                                    "started elsewhere", "started in the project directory", base, cb, scratch,
                                    env_variant=True)
            k1_layout(ctx, c, results)
            if c.sid in tstate_cases:
                k1_generate_into(ctx, c, base, results, reqmap)
            # stale directory: the files of the package are those of a fresh run, the others are untouched
            st = results.get((c.sid, ("stale", 0)))
            if st is not None:
                run.count()
                run.dist("comparisons", "stale target directory")
                pkg = set(base)
                if {k: v for k, v in st.items() if k in pkg} != base:
                    report_mismatch(ctx, c, "generation over a stale directory differs on the package's files",
                                    "fresh", "over stale", base, {k: v for k, v in st.items() if k in pkg}, scratch)
                stale_rel = {os.path.relpath(k, "gen_client"): v.encode() for k, v in stale_files.items()}
                # the package as generated while the target directory exists (for the open isort class the fresh
                # bytes differ in import blocks; that difference is reported above, not here)
                pk = base
                p = [[k, pk[k].decode("utf-8", "surrogateescape")] for k in sorted(pk)]
                fs = [[k, v.decode()] for k, v in stale_rel.items()]
                try:
                    m = dict(map(tuple, model.call("C10", [Sym("writeall"), p, fs])))
                    disk = {k: v.decode("utf-8", "surrogateescape") for k, v in st.items()}
                    if m != disk:
                        bad = sorted(k for k in set(m) | set(disk) if m.get(k) != disk.get(k))
                        run.violation(f"K1 write_all: directory after regenerating over stale content differs from the model on {bad[:5]} ({c.sid})",
                                      {"stage": "K1 write_all", "case": c.sid, "files": bad,
                                       "model_only": sorted(set(m) - set(disk)), "disk_only": sorted(set(disk) - set(m))},
                                      found_input=bool(bad))
                except model.ModelError as exc:
                    run.broken("K1 write_all", str(exc))
                rep = reqmap[(c.sid, ("stale", 0))][1].get("files") or []
                if len(rep) != len(set(rep)):
                    run.broken("K1 write_all", f"generator reported duplicate file names {rep}")
            if c.sid in firsts:
                run.count()
                run.dist("comparisons", "first generation of a process vs pooled worker")
                if firsts[c.sid] != base:
                    report_mismatch(ctx, c, "first generation of a fresh process differs from a generation in a worker that generated other packages before",
                                    "fresh process", "pooled worker", firsts[c.sid], base, scratch)
        k3_same_process(ctx, cases, scratch, results)
        k3_cross_project(ctx, scratch)
        k3_changing_inputs(ctx, scratch)
        k3_schema(ctx, cases, scratch, seeds)
        if cases:
            c = cases[0]
            run.sample({"case": c.sid, "plugins": list(c.plugins), "queries_head": c.sc.queries[:300],
                        "files": sorted(results.get((c.sid, ("seed", 0)), {})),
                        "digest_by_seed": {s: digest(results[(c.sid, ("seed", s))]) for s in seeds[:7]
                                           if (c.sid, ("seed", s)) in results}})
        for c in cases:
            if c.probe.get("f12_class") and (c.sid, ("seed", 0)) in results:
                run.sample({"case": c.sid, "class": "f12", "digest_by_seed": {
                    s: digest(results[(c.sid, ("seed", s))]) for s in seeds[:7] if (c.sid, ("seed", s)) in results}})
                break


def base_model_imports(src: bytes):
    """names imported from base_model at module level / under `if TYPE_CHECKING:` in a client module"""
    top, tc = [], []
    for st in ast.parse(src.decode()).body:
        if isinstance(st, ast.ImportFrom) and st.module == "base_model":
            top += [a.name for a in st.names]
        if isinstance(st, ast.If) and ast.unparse(st.test) == "TYPE_CHECKING":
            for s2 in st.body:
                if isinstance(s2, ast.ImportFrom) and s2.module == "base_model":
                    tc += [a.name for a in s2.names]
    return sorted(top), sorted(tc)


def k1_procstate(ctx, kind, cs, got, fresh_last: bytes, second_last: bytes):
    """Model gen_client_imports/run_history vs the client module of the SECOND generation of an interpreter.
    The shared nodes start as the constants of client_generators/constants.py; `wanted` of the first
    generation is what its own client module imports from base_model under TYPE_CHECKING; autoflake then keeps
    the names the second client uses (= the names its fresh generation imports)."""
    run = ctx.run
    try:
        from ariadne_codegen.client_generators import constants as k
        st0 = [[n.module, [a.name for a in n.names]] for n in (k.UNSET_IMPORT, k.UPLOAD_IMPORT)]
    except Exception as exc:  # noqa
        run.extra["procstate_constants_missing"] = repr(exc)
        return
    client0 = cs[0].sc.config.get("client_file_name", "client") + ".py"
    if got[0] is None or client0 not in got[0]:
        return
    _top0, wanted = base_model_imports(got[0][client0])
    fresh_top, fresh_tc = base_model_imports(fresh_last)
    real_top, real_tc = base_model_imports(second_last)
    plugin2 = "fwdrefs" in cs[-1].plugins
    wanted2 = fresh_tc if plugin2 else []
    out = model.call("C10", [Sym("procstate"), [[True, wanted], [plugin2, wanted2]], st0])
    imps2, moved2 = out[1]
    pred_names = sorted(n for m, names in imps2 if m == "base_model" for n in names)
    used = set(fresh_top) | set(fresh_tc)
    pred_top = sorted(n for n in pred_names if n in used)
    run.count()
    run.dist("k1_procstate", kind)
    if pred_top != real_top or sorted(moved2) != real_tc:
        run.violation(f"K1 gen_client_imports: model predicts base_model imports {pred_top} / TYPE_CHECKING {sorted(moved2)} for the second generation ({kind}: {[c.sid for c in cs]}), real {real_top} / {real_tc}",
                      {"stage": "K1 process state", "kind": kind, "sequence": [c.sid for c in cs], "wanted_first": wanted,
                       "model": out, "real": [real_top, real_tc], "fresh": [fresh_top, fresh_tc]}, found_input=False)


def k3_same_process(ctx, cases, scratch, results):
    """several generations in ONE interpreter: the same case twice; a plain case after a ClientForwardRefs one"""
    run = ctx.run
    plain = [c for c in cases if "fwdrefs" not in c.plugins and (c.sid, ("seed", 0)) in results]
    fwd = [c for c in cases if "fwdrefs" in c.plugins and (c.sid, ("seed", 0)) in results]
    n = 8 if ctx.thorough else 3
    jobs = []
    for c in plain[:: max(1, len(plain) // n)][:n]:
        jobs.append(("twice", [c, c]))
    for c in fwd[:n]:
        jobs.append(("twice-fwdrefs", [c, c]))
    for y, x in zip(fwd[:n], plain[1:: max(1, len(plain) // n)][:n]):
        jobs.append(("plain-after-fwdrefs", [y, x]))

    def seq(job):
        kind, cs = job
        w = workers.Worker(WORKER, env=workers.child_env(hashseed="0"))
        outs = []
        try:
            for c in cs:
                req = c.request(scratch.new(c.sid))
                res = w.ask(req)
                outs.append(read_tree(target_of(req, res)) if res.get("ok") else None)
        finally:
            w.close()
        return outs

    with ThreadPoolExecutor(max_workers=8) as ex:
        outs = list(ex.map(seq, jobs))
    for (kind, cs), got in zip(jobs, outs):
        run.count()
        run.dist("comparisons", f"same process: {kind}")
        last, want = got[-1], results[(cs[-1].sid, ("seed", 0))]
        first_ok = got[0] == results[(cs[0].sid, ("seed", 0))]
        if not first_ok:
            report_mismatch(ctx, cs[0], "first generation of a fresh process differs from the baseline", "fresh process",
                            "baseline", got[0] or {}, results[(cs[0].sid, ("seed", 0))], scratch)
        if last is None or last == want:
            continue
        differing = [k for k in sorted(set(last) | set(want)) if last.get(k) != want.get(k)]
        client_file = cs[-1].sc.config.get("client_file_name", "client") + ".py"
        if kind != "twice" and client_file in last and client_file in want:
            k1_procstate(ctx, kind, cs, got, want[client_file], last[client_file])
        report_mismatch(ctx, cs[-1], f"second generation in one interpreter differs ({kind}: {[c.sid for c in cs]})",
                        "fresh process", "second in process", want, last, scratch)
        run.nontrivial_case(("process-state", kind, cs[-1].sid))


def cross_projects(ctx):
    """Different projects that SHARE NAMES (types T0.., Node, AnyT, enums, scalars DateTime/JSONBlob, operations
    GetRoot/listLinked/Unions/Nodes/Touch, fragment names from one small pool, file names) but differ in content
    and configuration: scalar configured as a builtin / with parse+serialize / with the deprecated `import` key /
    not at all; files_to_include and a custom base client whose CONTENT is edited between runs; both strategies."""
    base = ctx.seed * 10007
    A, B = c10_gen.make(700 + base), c10_gen.make(701 + base)

    def proj(sid, sc, scalars, files=None, extra_cfg=None, plugins=()):
        cfg = {k: v for k, v in sc.config.items() if k != "scalars"}
        if scalars:
            cfg["scalars"] = scalars
        cfg.update(extra_cfg or {})
        fs = {k: v for k, v in sc.files.items()}
        fs.update(files or {})
        return Case(sid, scen_gen.Scenario(seed=sc.seed, sdl=sc.sdl, queries=sc.queries, config=cfg, files=fs), plugins, "cross")

    full = {"type": "datetime.datetime", "parse": "scalars_impl.parse_dt", "serialize": "scalars_impl.ser_dt"}
    impl = {"scalars_impl.py": c10_gen.SCALARS_PY}
    P = {
        "A-builtin+import1": proj("xA1", A, {"DateTime": {"type": "str"}, "JSONBlob": {"type": "MyBlob", "import": "blob_mod_one"}}),
        "B-unconfigured+import2": proj("xB1", B, {"JSONBlob": {"type": "MyBlob", "import": "blob_mod_two"}}),
        "A-full+unconfigured": proj("xA2", A, {"DateTime": full}, impl),
        "A-unconfigured": proj("xA3", A, None),
        "B-builtin-int": proj("xB2", B, {"DateTime": {"type": "int"}, "JSONBlob": {"type": "dict"}}, plugins=("shorter", "extract")),
    }
    base_client = open(os.path.join(workers.REPO, "ariadne_codegen", "client_generators", "dependencies",
                                    "async_base_client.py")).read().replace("class AsyncBaseClient", "class MyBaseClient")
    for v in (1, 2):
        P[f"A-included-v{v}"] = proj(
            f"xF{v}", A, {"DateTime": {"type": "datetime.datetime", "parse": ".extra_mod.parse_dt", "serialize": ".extra_mod.ser_dt"}},
            {"extra_mod.py": c10_gen.SCALARS_PY + f"\nVERSION = {v}\n" + ("" if v == 1 else "def added_in_v2():\n    return 2\n"),
             "my_base_client.py": base_client + f"\n# edition {v}\n"},
            {"files_to_include": ["extra_mod.py"], "base_client_file_path": "my_base_client.py",
             "base_client_name": "MyBaseClient", "async_client": True})
    return A, B, P


def k3_cross_project(ctx, scratch):
    """2-4 generations in ONE interpreter over DIFFERENT projects sharing names, both strategies interleaved; each
    generation byte for byte against the same generation in a fresh interpreter; and the interpreter-global
    state of ariadne_codegen (module globals, class attributes, function defaults, functools cache sizes)
    fingerprinted before and after every generation: any change is a correspondence break naming the site
    (Model gen_client_imports hands the state on unchanged: C10_history_independent)."""
    run = ctx.run
    A, B, P = cross_projects(ctx)

    def client(name):
        return ("client", name)

    def gs(which, fmt):
        return ("gs", which, fmt)

    seqs = [
        [client("A-builtin+import1"), client("B-unconfigured+import2"), client("A-full+unconfigured")],
        [client("B-builtin-int"), client("A-unconfigured"), client("B-unconfigured+import2")],
        [client("A-full+unconfigured"), client("A-unconfigured"), client("A-builtin+import1")],
        [client("B-unconfigured+import2"), client("A-builtin+import1")],
        [gs("A", "py"), client("A-unconfigured"), gs("A", "py")],
        [gs("B", "graphql"), client("B-builtin-int"), gs("B", "graphql"), gs("A", "graphql")],
        [client("A-builtin+import1"), gs("A", "py"), gs("B", "py")],
        [client("A-included-v1"), client("A-included-v2")],
        [client("A-included-v2"), client("A-included-v1"), client("A-unconfigured")],
    ]
    if ctx.thorough:
        names = sorted(P)
        for i in range(12):
            r = random.Random(i + ctx.seed)
            seqs.append([r.choice([client(r.choice(names)), gs(r.choice("AB"), r.choice(["py", "graphql"]))]) for _ in range(4)])

    def request(step, d):
        if step[0] == "client":
            return P[step[1]].request(d)
        sc = A if step[1] == "A" else B
        return {"dir": d, "schema": sc.sdl, "queries": None, "strategy": "graphqlschema", "files": {},
                "config": {"target_file_path": "schema_types.py" if step[2] == "py" else "schema.out.graphql"}}

    steps = sorted({st for sq in seqs for st in sq})
    fresh = {}

    def do_fresh(st):
        req = request(st, scratch.new("xf"))
        res = run_isolated(req, 0)
        fresh[st] = (read_tree(target_of(req, res)) if res.get("ok") else None, res)
    with ThreadPoolExecutor(max_workers=8) as ex:
        list(ex.map(do_fresh, steps))
    for st in steps:
        run.dist("cross_project_steps", st[0] if st[0] == "client" else f"graphqlschema-{st[2]}")
        if fresh[st][0] is None:
            run.broken("K3 cross-project", f"fresh generation of {st} failed: {fresh[st][1].get('exc')}")

    def do_seq(sq):
        w = workers.Worker(WORKER, env=workers.child_env(hashseed="0"))
        out = []
        try:
            state = w.ask({"cmd": "state"}).get("state") or {}
            shared_dir = scratch.new("xs")   # included files edited in place between runs: same project directory
            for st in sq:
                d = shared_dir if (st[0] == "client" and "included" in st[1]) else scratch.new("xs")
                req = request(st, d)
                res = w.ask(req)
                files = read_tree(target_of(req, res)) if res.get("ok") else None
                after = w.ask({"cmd": "state"}).get("state") or {}
                changed = sorted(k for k in set(state) | set(after) if state.get(k) != after.get(k))
                out.append((st, files, res, [(k, (state.get(k) or "<absent>")[:160], (after.get(k) or "<absent>")[:160])
                                             for k in changed]))
                state = after
        finally:
            w.close()
        return out
    with ThreadPoolExecutor(max_workers=8) as ex:
        outs = list(ex.map(do_seq, seqs))
    reported = set()
    for sq, out in zip(seqs, outs):
        label = " -> ".join(st[1] if st[0] == "client" else f"graphqlschema({st[1]},{st[2]})" for st in sq)
        for i, (st, files, res, changed) in enumerate(out):
            run.count()
            run.dist("comparisons", "cross-project sequence in one interpreter")
            if changed and not (set(k for k, _a, _b in changed) <= reported):
                reported |= set(k for k, _a, _b in changed)
                run.violation(f"interpreter-global state of ariadne_codegen changed during generation {i + 1} of [{label}]: "
                              + "; ".join(k for k, _a, _b in changed[:6]),
                              {"stage": "K1 module state (gen_client_imports hands the state on unchanged)", "sequence": label,
                               "generation": i + 1, "changed_sites": [{"site": k, "before": a, "after": b} for k, a, b in changed[:12]]},
                              found_input=False)
            want = fresh[st][0]
            if want is None:
                continue
            if files is None:
                run.violation(f"generation {i + 1} of [{label}] fails in a shared interpreter ({res.get('exc')}) but succeeds in a fresh one",
                              {"sequence": label, "generation": i + 1, "exc": res.get("exc"), "tb": res.get("tb")})
                continue
            if files != want:
                differing = [n for n in sorted(set(files) | set(want)) if files.get(n) != want.get(n)]
                key = (st, tuple(differing))
                if key in reported:
                    continue
                reported.add(key)
                proj = P[st[1]] if st[0] == "client" else None
                run.violation(
                    f"generation {i + 1} of [{label}] in one interpreter differs from the same generation in a fresh interpreter: {differing[:6]}",
                    {"sequence": label, "generation": i + 1, "differing_files": differing,
                     "earlier_generations": [str(x) for x in sq[:i]],
                     "config": proj.config() if proj else request(st, "")["config"],
                     "schema": (proj.sc.sdl if proj else (A if st[1] == "A" else B).sdl),
                     "queries": proj.sc.queries if proj else None,
                     "state_changes_so_far": [c[0] for o in out[: i + 1] for c in o[3]][:12],
                     "diff": "\n".join(udiff(want.get(n, b""), files.get(n, b""), n, "fresh interpreter", f"after {i} generation(s)")
                                       for n in differing[:3])})
            else:
                run.nontrivial_case(("cross-project", label, i))


def k3_changing_inputs(ctx, scratch):
    """Histories in which the INPUTS change between generations into ONE target package (each generation in an
    interpreter of its own, like the CLI): operations added / removed / edited with the schema file untouched,
    include_all_* / convert_to_snake_case flipped, plugins switched on and off, the schema file's mtime pushed into
    the past or the future without changing its content.  After every step the files of the package must be, byte
    for byte, those of a FRESH generation of that step's inputs (files of earlier steps that the step does not
    produce may stay: regenerate_keeps_other_files).  Inputs are written by the harness and only when their content
    changes, so an untouched schema file keeps its old mtime — what a generator that trusted mtimes would look at."""
    run = ctx.run
    A = c10_gen.make(1500 + ctx.seed * 10007)
    doc = parse(A.queries)
    ops = [print_ast(d) for d in doc.definitions if d.kind == "operation_definition"]
    frs = [print_ast(d) for d in doc.definitions if d.kind == "fragment_definition"]

    def queries(op_idx, edit=False):
        chosen = [ops[i] for i in op_idx]
        if edit:
            chosen = [o.replace("kind\n", "", 1) if o.startswith("mutation") else o for o in chosen]
        return "\n\n".join(chosen + frs) + "\n"

    base_cfg = {k: v for k, v in A.config.items()}
    pruned = {"include_all_inputs": False, "include_all_enums": False}
    full = {"include_all_inputs": True, "include_all_enums": True}
    plug = {"plugins": [PLUGINS["shorter"], PLUGINS["extract"]]}
    allops = list(range(len(ops)))
    few = [i for i, o in enumerate(ops) if "$" not in o.split("{")[0]][:2] or [0]     # operations without variables
    S = {   # step name -> (queries text, config overrides, schema mtime shift in seconds or None)
        "few-ops pruned": (queries(few), pruned, None),
        "all-ops pruned": (queries(allops), pruned, None),
        "one-op pruned": (queries(few[:1]), pruned, None),
        "all-ops edited pruned": (queries(allops, edit=True), pruned, None),
        "all-ops full": (queries(allops), full, None),
        "all-ops pruned camel": (queries(allops), {**pruned, "convert_to_snake_case": not base_cfg.get("convert_to_snake_case", True)}, None),
        "all-ops pruned plugins": (queries(allops), {**pruned, **plug}, None),
        "few-ops pruned, schema mtime -1 day": (queries(few), pruned, -86400),
        "all-ops pruned, schema mtime +1 day": (queries(allops), pruned, 86400),
    }
    histories = [
        ["few-ops pruned", "all-ops pruned", "one-op pruned", "all-ops edited pruned"],
        ["all-ops full", "few-ops pruned", "all-ops pruned camel", "all-ops pruned plugins", "all-ops pruned"],
        ["all-ops pruned, schema mtime +1 day", "few-ops pruned", "few-ops pruned, schema mtime -1 day", "all-ops pruned"],
    ]
    if ctx.thorough:
        names = sorted(S)
        for i in range(6):
            r = random.Random(77 + i + ctx.seed)
            histories.append([r.choice(names) for _ in range(5)])

    def put(d, step):
        q, over, shift = S[step]
        for name, text in [("schema.graphql", A.sdl), ("queries.graphql", q)] + sorted(A.files.items()):
            pth = os.path.join(d, name)
            if not (os.path.exists(pth) and open(pth).read() == text):
                with open(pth, "w") as fh:
                    fh.write(text)
        if shift is not None:
            import time as _t

            t0 = _t.time() + shift
            os.utime(os.path.join(d, "schema.graphql"), (t0, t0))
        cfg = {**base_cfg, **over, "schema_path": "schema.graphql", "queries_path": "queries.graphql"}
        return {"dir": d, "schema": None, "queries": None, "config": cfg, "files": {}}

    fresh = {}

    def do_fresh(step):
        req = put(scratch.new("hf"), step)
        res = run_isolated(req, 0)
        fresh[step] = (read_tree(target_of(req, res)) if res.get("ok") else None, res)
    with ThreadPoolExecutor(max_workers=8) as ex:
        list(ex.map(do_fresh, sorted(S)))
    for step, (files, res) in fresh.items():
        if files is None:
            run.broken("K3 changing inputs", f"fresh generation of step {step!r} failed: {res.get('exc')}")

    def do_history(h):
        d = scratch.new("hh")
        out = []
        for step in h:
            req = put(d, step)
            res = run_isolated(req, 0)
            out.append((step, read_tree(target_of(req, res)) if res.get("ok") else None, res))
        return out
    with ThreadPoolExecutor(max_workers=8) as ex:
        outs = list(ex.map(do_history, histories))
    for h, out in zip(histories, outs):
        for i, (step, files, res) in enumerate(out):
            run.count()
            run.dist("comparisons", "inputs changed between generations into one target")
            want = fresh[step][0]
            if want is None:
                continue
            label = " -> ".join(h[: i + 1])
            if files is None:
                run.violation(f"step {i + 1} of the history [{label}] fails in the existing target ({res.get('exc')}) but succeeds in a fresh one",
                              {"history": h[: i + 1], "exc": res.get("exc"), "tb": res.get("tb")})
                continue
            differing = [n for n in sorted(want) if files.get(n) != want[n]]
            if differing:
                q, over, shift = S[step]
                run.violation(
                    f"after the history [{label}] into one target, {differing[:6]} differ from a fresh generation of the last step's inputs",
                    {"history": h[: i + 1], "differing_files": differing, "schema": A.sdl, "queries_of_last_step": q,
                     "config_of_last_step": {**base_cfg, **over}, "schema_mtime_shift_s": shift,
                     "previous_steps": [{"step": s2, "config": S[s2][1], "schema_mtime_shift_s": S[s2][2]} for s2 in h[:i]],
                     "diff": "\n".join(udiff(want[n], files.get(n, b""), n, "fresh generation", f"after {i} earlier generation(s)") for n in differing[:3])})
                break
            run.nontrivial_case(("changing-inputs", label))


def k3_schema(ctx, cases, scratch, seeds):
    """graphqlschema strategy: .py and .graphql targets, single file and directory schemas, regeneration"""
    run = ctx.run
    picked = (cases[:: 3] if not ctx.thorough else cases[:: 2]) + [c for c in cases if c.many]
    picked = list(dict.fromkeys(picked))
    plan = {s: [] for s in seeds}
    for c in picked:
        for fmt, tfile in (("py", "schema_types.py"), ("graphql", "schema.out.graphql")):
            for s in seeds:
                d = scratch.new("gs")
                cfg = {"target_file_path": tfile}
                schema = c.sc.sdl
                variant = "file"
                if s % 3 == 1:
                    schema = c10_gen.shuffled(c.split_schema, random.Random(s))
                    variant = "dir"
                elif s % 3 == 2:
                    schema = c.split_schema
                    variant = "dir"
                plan[s].append(((c.sid, fmt, variant, s), {"dir": d, "schema": schema, "queries": None, "config": cfg,
                                                            "strategy": "graphqlschema", "files": {}}))
    out = {}
    reqs = {}

    def one_seed(item):
        hs, entries = item
        if not entries:
            return
        for (key, req), res in zip(entries, run_pool([e[1] for e in entries], hs, jobs=4)):
            reqs[key] = (req, res)
            if res.get("ok"):
                out[key] = read_tree(target_of(req, res))
    with ThreadPoolExecutor(max_workers=4) as ex:
        list(ex.map(one_seed, plan.items()))
    # regenerate over the existing file with another seed
    plan2 = {1: []}
    for key, (req, res) in list(reqs.items()):
        if key[3] == 0 and res.get("ok"):
            plan2[1].append(((key[0], key[1], key[2], "regen"), dict(req)))
    for (key, req), res in zip(plan2[1], run_pool([e[1] for e in plan2[1]], 1, jobs=8) if plan2[1] else []):
        if res.get("ok"):
            out[key] = read_tree(target_of(req, res))
    groups = {}
    for key, files in out.items():
        groups.setdefault((key[0], key[1], key[2]), {})[key[3]] = files
    for (sid, fmt, variant), by in groups.items():
        ref_key = sorted(by, key=str)[0]
        for k, files in by.items():
            run.count()
            run.dist("comparisons", f"graphqlschema {fmt} ({variant})")
            if files != by[ref_key]:
                name = next(iter(files))
                run.violation(f"graphqlschema {fmt} output of {sid} ({variant} schema) differs between {ref_key} and {k}",
                              {"case": sid, "format": fmt, "schema_variant": variant, "variants": [str(ref_key), str(k)],
                               "diff": udiff(by[ref_key].get(name, b""), files.get(name, b""), name, str(ref_key), str(k))})
    fails = [k for k, (rq, rs) in reqs.items() if not rs.get("ok")]
    run.dist("graphqlschema", "ok", len(reqs) - len(fails))
    if fails:
        run.dist("graphqlschema", "failed", len(fails))
        by_case = {}
        for k in fails:
            by_case.setdefault((k[0], k[1], k[2]), []).append(k[3])
        for (sid, fmt, variant), ss in by_case.items():
            total = [k for k in reqs if (k[0], k[1], k[2]) == (sid, fmt, variant)]
            if len(ss) != len(total):
                run.violation(f"graphqlschema {fmt} of {sid} ({variant}) fails only for seeds {ss}: {reqs[(sid, fmt, variant, ss[0])][1].get('exc')}",
                              {"case": sid, "seeds": ss})


def replay(ctx, path: str):
    """./check C10 quick --replay <file>: regenerate the replay's input (smallest_queries when present) under the
    recorded hash seeds, in fresh interpreters, and report whether the bytes still differ."""
    import json

    run = ctx.run
    d = json.load(open(path))
    if "schema" not in d or "queries" not in d:
        run.broken("replay", f"{path} names a correspondence/obligation ({d.get('stage')}), not an input: rerun the check")
        return
    ctx._cls = Classifier()
    seeds = d.get("hashseeds") or [0, 1, 2, 3, 4, 5, 6]
    sc = scen_gen.Scenario(seed=0, sdl=d["schema"], queries=d.get("smallest_queries") or d["queries"],
                           config={k: v for k, v in d.get("config", {}).items() if k != "plugins"},
                           files=d.get("extra_files") or {})
    case = Case(d.get("case", "replay"), sc, [k for k, v in PLUGINS.items() if v in d.get("config", {}).get("plugins", [])])
    with workers.Scratch(prefix="c10r-") as scratch:
        outs = {}
        for s in seeds:
            req = case.request(scratch.new("r"))
            res = run_isolated(req, s)
            run.count()
            outs[s] = read_tree(target_of(req, res)) if res.get("ok") else None
        ref = seeds[0]
        for s in seeds[1:]:
            if outs[s] != outs[ref]:
                fa, fb = outs[ref] or {}, outs[s] or {}
                differing = [n for n in sorted(set(fa) | set(fb)) if fa.get(n) != fb.get(n)]
                run.violation(f"replay: PYTHONHASHSEED={ref} vs {s} differ on {differing[:6]}",
                              {"hashseeds": [ref, s], "differing_files": differing, "schema": sc.sdl, "queries": sc.queries,
                               "config": case.config(),
                               "diff": "\n".join(udiff(fa.get(n, b""), fb.get(n, b""), n, f"seed {ref}", f"seed {s}") for n in differing[:4])})
                return
        run.sample({"replay": path, "result": "identical bytes for hash seeds " + str(seeds)})


# ----------------------------------------------------------------------------------------------- entry
def run(ctx):
    run = ctx.run
    if getattr(ctx, "replay", None):
        return replay(ctx, ctx.replay)
    run.rule = ("K3: each case = (schema, operations, configuration, plugin set) from the shared scenario generator "
                "and from the C10 stress generator (fragment mixin DAGs, unpacked fragments, large unions, enums, "
                "custom scalars; `casefold`: fragment names differing only in case); per case: PYTHONHASHSEED 0..N "
                "in fresh interpreters, 4 creation orders of split schema/query directories, regeneration over a "
                "previous generation (same/other seed, stable comments), stale target directory, first-in-process; "
                "graphqlschema strategy (.py/.graphql, file/dir schema) over the same seeds. Non-trivial = a case "
                "that generated, plus (case, seed) pairs whose recorded set iteration order was not the sorted one "
                "at a 2+-element dependency set, plus (case, seed) pairs with an isort key tie. K1a: one evaluation "
                "per distinct scanned site; K2: random lists.")
    run.assumptions += [
        "CPython: set iteration order is a function of PYTHONHASHSEED and the operations performed (modelled as an arbitrary permutation; real orders recorded per seed)",
        "isort (default configuration), black, autoflake, ast.unparse are deterministic functions of their input text (isort's name ordering is modelled and K2-checked; the rest sits inside the K3 byte comparison)",
        "the classification of each scanned site's sink (what its iteration order can reach) is by reading the code; K1a pins the set of sites and their syntactic context, K3 checks the consequence",
        "the file system lists a directory in an order the harness cannot force; creation orders are shuffled and the sort is proved order-independent",
    ]
    k2(ctx)
    with workers.Scratch(prefix="c10-") as scratch:
        # one consistent copy of the implementation for the whole run: /repo may receive commits while the
        # check runs, and a generation matrix mixing two versions of the tree would report their difference
        src = os.path.join(workers.REPO, "ariadne_codegen")
        snap = os.path.join(scratch.root, "repo_snapshot")
        shutil.copytree(src, os.path.join(snap, "ariadne_codegen"), ignore=shutil.ignore_patterns("__pycache__"))
        run.extra["implementation"] = {"repo": workers.REPO, "snapshot_digest": digest(read_tree(os.path.join(snap, "ariadne_codegen")))}
        real_repo, workers.REPO = workers.REPO, snap
        try:
            new = k1_scan(ctx, snap)
            k3(ctx, scratch)
        finally:
            workers.REPO = real_repo
        run.extra["implementation"]["changed_during_run"] = (
            digest(read_tree(src)) != run.extra["implementation"]["snapshot_digest"])
    if new:
        run.extra["note"] = "new scan sites were found; K3 above is the search for a concrete failing input"
