"""C14 generators: seeded schemas (data + SDL) and type-directed builder expression trees."""
from __future__ import annotations

import keyword
import re

# ---- GraphQL types as nested tuples: ("n", name) | ("l", t) | ("nn", t) ----


def T(name):
    return ("n", name)


def final(t):
    while t[0] != "n":
        t = t[1]
    return t[1]


def tstr(t):
    if t[0] == "n":
        return t[1]
    if t[0] == "l":
        return "[" + tstr(t[1]) + "]"
    return tstr(t[1]) + "!"


def wrap(rng, t, out=False):
    """random list / non-null wrappers"""
    r = rng.random()
    if r < 0.40:
        return t
    if r < 0.62:
        return ("nn", t)
    inner = ("nn", t) if rng.random() < 0.6 else t
    lst = ("l", inner)
    if rng.random() < 0.12:
        lst = ("l", ("nn", lst)) if rng.random() < 0.5 else ("l", lst)
    return ("nn", lst) if rng.random() < 0.5 else lst


FIELD_NAMES = [
    "id", "name", "fullName", "bestFriend", "barkVolume", "livesLeft", "createdAt", "created_at",
    "HTTPStatus", "itemCount", "owner", "parent", "friends", "pets", "topResult", "search", "node",
    "from", "class", "import", "isActive", "x2Value", "line2", "url", "nextPage", "homeTown", "age",
    "rating", "tags", "kind", "status", "title", "body", "authorName", "lastSeenAt", "value", "a_0",
]
ARG_NAMES = [
    "id", "ids", "first", "after", "filter", "orderBy", "limit", "unit", "since", "withDeleted",
    "colors", "a", "a_0", "a_1", "newName", "text", "in", "maxDepth", "zone", "b_0_1", "keys",
]
BUILDER_API = {"fields", "alias", "on", "to_ast", "get_formatted_variables", "formatted_variables"}


def snake_probe(n):
    from ariadne_codegen.utils import str_to_snake_case

    return str_to_snake_case(n)


def pick_names(rng, pool, k, taken=()):
    """k names, pairwise distinct also after snake-casing (F18 collisions are C18's subject)"""
    out, seen = [], {snake_probe(x) for x in taken} | set(taken)
    cand = list(pool)
    rng.shuffle(cand)
    for n in cand:
        s = snake_probe(n)
        if n in BUILDER_API or s in BUILDER_API or s in seen or n in seen:
            continue
        out.append(n)
        seen.add(s)
        seen.add(n)
        if len(out) == k:
            break
    return out


SCALARS = ["ID", "String", "Int", "Boolean"]


def gen_schema(rng, variant=0):
    """-> dict(types=[...], query=..., mutation=..., enums, inputs, scalars, conf)"""
    enums = {"Color": ["RED", "GREEN", "BLUE"], "SortOrder": ["ASC", "DESC"]}
    customs = {
        "Stamp": {"type": "str"},                                   # type only
        "Blob": {},                                                 # unconfigured -> Any
        "Instant": {"type": "str", "serialize": "c14ser.ser"},      # serialize
    }
    if variant % 7 == 5:
        customs["Instant"] = {"type": "datetime.datetime", "serialize": "c14ser.ser"}
    inputs = {
        "FilterIn": [("nameLike", T("String")), ("tags", ("l", ("nn", T("String")))), ("color", T("Color")),
                     ("minAge", T("Int"))],
        "PageIn": [("first", ("nn", T("Int"))), ("order", T("SortOrder"))],
    }
    leaf_arg_types = SCALARS + list(enums) + list(customs) + list(inputs)
    leaf_out_types = SCALARS + ["Color", "Stamp", "Instant"]
    n_obj = rng.randint(2, 4)
    obj_names = rng.sample(["Person", "Dog", "Cat", "Post", "Team", "Comment"], n_obj)
    n_if = rng.randint(1, 2)
    if_names = rng.sample(["Node", "Animal", "Entity"], n_if)
    uni_names = ["SearchResult"] if rng.random() < 0.85 else []
    if rng.random() < 0.25:
        uni_names.append("Pet")
    composites = obj_names + if_names + uni_names

    def gen_args(lo=0, hi=3):
        k = rng.randint(lo, hi)
        args = []
        for an in pick_names(rng, ARG_NAMES, k):
            args.append({"name": an, "type": wrap(rng, T(rng.choice(leaf_arg_types)))})
        return args

    def gen_field(name, allow_comp=True):
        r = rng.random()
        if allow_comp and r < 0.45:
            t = wrap(rng, T(rng.choice(composites)), out=True)
            args = gen_args(0, 2) if rng.random() < 0.5 else []
        else:
            t = wrap(rng, T(rng.choice(leaf_out_types)), out=True)
            args = gen_args(1, 2) if rng.random() < 0.3 else []
        return {"name": name, "args": args, "type": t}

    types = []
    ifaces = {}
    for i, n in enumerate(if_names):
        parents = []
        fields = []
        if i > 0 and rng.random() < 0.4:
            parents = [if_names[0]]
            fields = [dict(f) for f in ifaces[if_names[0]]["fields"]]
        names = pick_names(rng, FIELD_NAMES, rng.randint(1, 3), [f["name"] for f in fields])
        fields += [gen_field(x) for x in names]
        ifaces[n] = {"name": n, "kind": "i", "fields": fields, "ifaces": parents}
        types.append(ifaces[n])
    objs = {}
    for n in obj_names:
        impl = [x for x in if_names if rng.random() < 0.55]
        # an interface's parents must be implemented too
        for x in list(impl):
            for p in ifaces[x]["ifaces"]:
                if p not in impl:
                    impl.append(p)
        fields = []
        for x in impl:
            for f in ifaces[x]["fields"]:
                if f["name"] not in [g["name"] for g in fields]:
                    fields.append(dict(f))
        names = pick_names(rng, FIELD_NAMES, rng.randint(2, 4), [f["name"] for f in fields])
        fields += [gen_field(x) for x in names]
        objs[n] = {"name": n, "kind": "o", "fields": fields, "ifaces": impl}
        types.append(objs[n])
    # every interface needs an implementor (else the union/interface has no possible type)
    for n in if_names:
        if not any(n in o["ifaces"] for o in objs.values()):
            o = objs[obj_names[0]]
            need = [n] + ifaces[n]["ifaces"]
            for x in need:
                if x not in o["ifaces"]:
                    o["ifaces"].append(x)
                    for f in ifaces[x]["fields"]:
                        same = [g for g in o["fields"] if g["name"] == f["name"]]
                        if same:
                            o["fields"][o["fields"].index(same[0])] = dict(f)
                        else:
                            o["fields"].append(dict(f))
    # a field shared by name between an interface and an object must agree: re-copy interface versions
    for o in objs.values():
        for x in o["ifaces"]:
            for f in ifaces[x]["fields"]:
                for j, g in enumerate(o["fields"]):
                    if g["name"] == f["name"]:
                        o["fields"][j] = dict(f)
    for it in ifaces.values():
        for p in it["ifaces"]:
            for f in ifaces[p]["fields"]:
                for j, g in enumerate(it["fields"]):
                    if g["name"] == f["name"]:
                        it["fields"][j] = dict(f)
    unions = {}
    for n in uni_names:
        members = rng.sample(obj_names, min(len(obj_names), rng.randint(1, 3)))
        unions[n] = {"name": n, "kind": "u", "fields": [], "ifaces": [], "members": members}
        types.append(unions[n])
    # roots
    # root methods are named str_to_snake_case(field) with no keyword handling: a root field called
    # `from`/`class`/`import` makes generation itself die in black (noted in notes/C14.md; C04's subject)
    root_pool = [n for n in FIELD_NAMES if not keyword.iskeyword(snake_probe(n))]
    qnames = pick_names(rng, root_pool, rng.randint(3, 6))
    qfields = []
    for i, x in enumerate(qnames):
        f = gen_field(x)
        if i < len(composites):  # make most composites reachable from the root
            f["type"] = wrap(rng, T(composites[i]), out=True)
            f["args"] = gen_args(0, 3)
        qfields.append(f)
    types.append({"name": "Query", "kind": "o", "fields": qfields, "ifaces": []})
    mutation = None
    if rng.random() < 0.6:
        mnames = pick_names(rng, ["renamePerson", "ping", "addTag", "deleteAll", "setColor"], rng.randint(1, 3))
        mfields = []
        for x in mnames:
            f = gen_field(x)
            f["args"] = gen_args(1, 3) if rng.random() < 0.8 else []
            mfields.append(f)
        types.append({"name": "Mutation", "kind": "o", "fields": mfields, "ifaces": []})
        mutation = "Mutation"
    conf = {"snake": rng.random() < 0.8, "async": rng.random() < 0.5, "customs": customs}
    if variant % 3 == 1:      # configured module names (fixes 2282fe6 / 9abf1db)
        conf["enums_module"] = "my_enums"
        conf["inputs_module"] = "my_inputs"
    return {"types": types, "query": "Query", "mutation": mutation, "enums": enums, "inputs": inputs,
            "customs": customs, "conf": conf}


def fixed_schema():
    """the schema of the witness corpus (one case per finding class)"""
    A = lambda n, t: {"name": n, "type": t}
    F = lambda n, t, args=(): {"name": n, "args": list(args), "type": t}
    animal = [F("id", ("nn", T("ID"))), F("name", ("nn", T("String"))), F("bestFriend", T("Animal"))]
    types = [
        {"name": "Node", "kind": "i", "fields": [F("id", ("nn", T("ID")))], "ifaces": []},
        {"name": "Animal", "kind": "i", "fields": animal, "ifaces": ["Node"]},
        {"name": "Dog", "kind": "o", "ifaces": ["Animal", "Node"],
         "fields": animal + [F("barkVolume", T("Int"), [A("unit", T("String"))]),
                             F("friends", ("nn", ("l", ("nn", T("Animal")))), [A("first", T("Int")), A("ids", ("nn", ("l", ("nn", T("ID")))))]),
                             F("owner", T("Person"))]},
        {"name": "Cat", "kind": "o", "ifaces": ["Animal", "Node"], "fields": animal + [F("livesLeft", T("Int"))]},
        {"name": "Person", "kind": "o", "ifaces": [],
         "fields": [F("id", ("nn", T("ID"))), F("fullName", ("nn", T("String"))),
                    F("pets", ("nn", ("l", ("nn", T("Animal")))), [A("limit", T("Int")), A("filter", T("FilterIn"))]),
                    F("bornAt", T("Instant")), F("friend", T("Person"), [A("since", T("Instant"))]),
                    F("favourite", T("SearchResult")),
                    F("x", T("Int"), [A("a", T("Int")), A("a_0", T("Int"))])]},
        {"name": "SearchResult", "kind": "u", "fields": [], "ifaces": [], "members": ["Dog", "Cat", "Person"]},
        {"name": "Query", "kind": "o", "ifaces": [], "fields": [
            F("node", T("Node"), [A("id", ("nn", T("ID")))]),
            F("animals", ("nn", ("l", ("nn", T("Animal")))), [A("ids", ("nn", ("l", ("nn", T("ID"))))), A("colors", ("l", T("Color"))), A("filter", T("FilterIn")), A("after", T("Instant"))]),
            F("person", T("Person"), [A("id", ("nn", T("ID")))]),
            F("p", T("Person"), [A("a", T("Int")), A("a_0", T("Int"))]),
            F("search", ("nn", ("l", ("nn", T("SearchResult")))), [A("text", ("nn", T("String")))]),
            F("me", T("Person")), F("version", T("String")),
            F("events", T("Person"), [A("at", ("l", ("nn", T("Instant")))), A("opt", ("l", T("Instant")))]),
            F("serverTime", T("Instant"), [A("zone", T("String"))])]},
        {"name": "Mutation", "kind": "o", "ifaces": [], "fields": [
            F("renamePerson", T("Person"), [A("id", ("nn", T("ID"))), A("newName", ("nn", T("String")))]),
            F("ping", T("String"))]},
    ]
    enums = {"Color": ["RED", "GREEN", "BLUE"], "SortOrder": ["ASC", "DESC"]}
    inputs = {"FilterIn": [("nameLike", T("String")), ("tags", ("l", ("nn", T("String")))), ("color", T("Color")), ("minAge", T("Int"))],
              "PageIn": [("first", ("nn", T("Int"))), ("order", T("SortOrder"))]}
    customs = {"Stamp": {"type": "str"}, "Blob": {}, "Instant": {"type": "str", "serialize": "c14ser.ser"}}
    return {"types": types, "query": "Query", "mutation": "Mutation", "enums": enums, "inputs": inputs,
            "customs": customs, "conf": {"snake": True, "async": True, "customs": customs}}


def sdl(sc):
    out = []
    for n in sc["customs"]:
        out.append(f"scalar {n}")
    for n, vs in sc["enums"].items():
        out.append(f"enum {n} {{ {' '.join(vs)} }}")
    for n, fs in sc["inputs"].items():
        out.append(f"input {n} {{ " + " ".join(f"{k}: {tstr(t)}" for k, t in fs) + " }")
    for t in sc["types"]:
        if t["kind"] == "u":
            out.append(f"union {t['name']} = " + " | ".join(t["members"]))
            continue
        kw = "interface" if t["kind"] == "i" else "type"
        impl = (" implements " + " & ".join(t["ifaces"])) if t["ifaces"] else ""
        fl = []
        for f in t["fields"]:
            a = ""
            if f["args"]:
                a = "(" + ", ".join(f"{x['name']}: {tstr(x['type'])}" for x in f["args"]) + ")"
            fl.append(f"  {f['name']}{a}: {tstr(f['type'])}")
        out.append(f"{kw} {t['name']}{impl} {{\n" + "\n".join(fl) + "\n}")
    roots = f"schema {{ query: {sc['query']}" + (f" mutation: {sc['mutation']}" if sc["mutation"] else "") + " }"
    out.append(roots)
    return "\n".join(out) + "\n"


def config(sc, pkg):
    scal = {}
    for n, c in sc["customs"].items():
        if c:
            scal[n] = dict(c)
    return {"tool": {"ariadne-codegen": {
        "schema_path": "schema.graphql", "enable_custom_operations": True, "target_package_name": pkg,
        "convert_to_snake_case": sc["conf"]["snake"], "async_client": sc["conf"]["async"],
        "include_comments": "none", "scalars": scal,
        "enums_module_name": sc["conf"].get("enums_module", "enums"),
        "input_types_module_name": sc["conf"].get("inputs_module", "input_types")}}}


# ---- sexp encoding of the world for the Coq model ----
def world_sx(sc):
    from ..sexp import Sym, opt

    def ty(t):
        if t[0] == "n":
            return [Sym("n"), t[1]]
        return [Sym(t[0]), ty(t[1])]

    kinds = {t["name"]: t["kind"] for t in sc["types"]}
    tl = []
    for t in sc["types"]:
        fs = [[f["name"], [[a["name"], ty(a["type"])] for a in f["args"]], ty(f["type"])] for f in t["fields"]]
        tl.append([t["name"], Sym(t["kind"]), fs, list(t["ifaces"])])
    sers = [n for n, c in sc["customs"].items() if c.get("serialize")]
    return [[sc["conf"]["snake"], sers], tl, opt(sc["query"]), opt(sc["mutation"])]


# ---- the collector's reachability (custom_generator_utils.TypeCollector), re-implemented ----
def collected(sc):
    tm = {t["name"]: t for t in sc["types"]}
    seen = set()

    def dep(start):
        stack = [start]
        while stack:
            cur = stack.pop()
            if cur in seen or cur not in tm:
                continue
            seen.add(cur)
            t = tm[cur]
            if t["kind"] in ("o", "i"):
                for f in t["fields"]:
                    ft = tm.get(final(f["type"]))
                    if ft is None:
                        continue
                    if ft["kind"] in ("o", "i"):      # interfaces too since fix 0e87b8b
                        stack.append(ft["name"])
                    elif ft["kind"] == "u":
                        stack.extend(ft["members"])
                stack.extend(t["ifaces"])
            elif t["kind"] == "u":
                stack.extend(t["members"])

    for root in (sc["query"], sc["mutation"]):
        if root:
            for f in tm[root]["fields"]:
                dep(final(f["type"]))
    return {n for n in seen if tm[n]["kind"] in ("o", "i")}


# ---- values ----
def gen_value(rng, sc, t, depth=0, bad=False):
    """-> (wire JSON value, tagged value for the driver); bad: malformed stream — a None item may
    stand at a NON-NULL item position (outside g_conform for serialised scalars)"""
    if t[0] == "nn":
        return gen_value(rng, sc, t[1], depth, bad)
    if t[0] == "l":
        k = rng.choice([0, 1, 2, 2])
        vs = [gen_value(rng, sc, t[1], depth + 1, bad) for _ in range(k)]
        if t[1][0] != "nn" or (bad and final(t) in sc["customs"]):   # nullable items: sometimes a None item
            vs = [(None, None) if rng.random() < (0.5 if bad else 0.15) else v for v in vs]
        return [v[0] for v in vs], {"list": [v[1] for v in vs]}
    n = t[1]
    if n in ("ID", "String"):
        v = rng.choice(["1", "a", "x y", "", "42", "é"])
        return v, v
    if n == "Int":
        v = rng.choice([0, 1, -3, 7, 100])
        return v, v
    if n == "Boolean":
        v = rng.random() < 0.5
        return v, v
    if n in sc["enums"]:
        m = rng.choice(sc["enums"][n])
        return m, {"enum": [n, m]}
    if n in sc["customs"]:
        v = rng.choice(["2020-01-01", "t0", "zz"])
        return v, v
    if n in sc["inputs"]:
        obj, tag = {}, {}
        for k, ft in sc["inputs"][n]:
            if ft[0] == "nn" or rng.random() < 0.5:
                w, g = gen_value(rng, sc, ft, depth + 1)
                obj[k] = w
                tag[k] = g
        return obj, {"input": [n, tag]}
    raise ValueError(n)


class ExprGen:
    """type-directed random builder expressions over the model's class table"""

    def __init__(self, rng, sc, classes, present):
        self.rng, self.sc = rng, sc
        self.ct = {c[0]: c[1] for c in classes}   # class name -> list of fieldmeta lists
        self.tm = {t["name"]: t for t in sc["types"]}
        self.present = present                     # generated class names
        self.stats = {}
        self.bad_used = False
        # reuse stream: sub-field objects built for an earlier operation of the history are placed
        # into later, different operations (each at most once per operation, never nested in one another)
        self.reuse = False
        self.pool = []          # (class the object is a field of, model expr, name)  — from earlier operations
        self.pending = []       # defined in the operation being generated
        self.defs = {}          # name -> driver expression that builds the object from fresh objects
        self.used_now = set()
        self.in_let = False

    def possible(self, tname):
        t = self.tm[tname]
        if t["kind"] == "u":
            return list(t["members"])
        if t["kind"] == "i":
            return [o["name"] for o in self.sc["types"] if o["kind"] == "o" and tname in o["ifaces"]]
        return []

    def cls_of_type(self, tname):
        k = self.tm[tname]["kind"]
        return tname + {"o": "Fields", "i": "Interface", "u": "Union"}[k]

    def fdef(self, cls_type, gql):
        for f in self.tm[cls_type]["fields"]:
            if f["name"] == gql:
                return f
        for i in self.tm[cls_type]["ifaces"]:
            for f in self.tm[i]["fields"]:
                if f["name"] == gql:
                    return f
        return None

    def args(self, fm, f, edge):
        out, tagged = [], []
        for am in fm[6]:
            ad = [a for a in f["args"] if a["name"] == am[0]][0]
            req = am[4] == "t"
            if req or self.rng.random() < 0.55:
                if (not req) and self.rng.random() < 0.12:
                    out.append([am[0], None])           # explicit None
                    tagged.append([am[1], None])
                    continue
                bad = edge and self.rng.random() < 0.06
                self.bad_used = self.bad_used or bad
                w, g = gen_value(self.rng, self.sc, ad["type"], bad=bad)
                out.append([am[0], w])
                tagged.append([am[1], g])
        return out, tagged

    def field_expr(self, cls, owner_type, fm, depth, edge):
        """expression for field `fm` of class `cls` (owner GraphQL type owner_type); returns (model expr, driver expr)"""
        rng = self.rng
        py, gql, emit, meth, ocls, okind, ams = fm
        f = self.fdef(owner_type, gql)
        if meth == "t":
            a, ta = self.args(fm, f, edge)
            m = ["call", cls, py, a]
            d = ["call", cls, py, ta]
        else:
            m = ["attr", cls, py]
            d = ["attr", cls, py]
        ftype = final(f["type"])
        if okind in ("fields", "iface") and ocls in self.present:
            m, d = self.add_fields(m, d, ocls, ftype, depth, edge)
        if okind in ("iface", "union"):
            poss = self.possible(ftype)
            k = rng.choice([0, 1, 1, 2]) if okind == "iface" else rng.choice([1, 1, 2])
            if meth != "t" and not edge:
                k = 0      # on() on a shared attribute only in the edge stream
            for tn in rng.sample(poss, min(k, len(poss))):
                ccls = tn + "Fields"
                if ccls not in self.present:
                    continue
                subs = self.sub_list(ccls, tn, depth, edge)
                if subs:
                    m = ["on", m, tn, [s[0] for s in subs]]
                    d = ["on", d, tn, [s[1] for s in subs]]
            if okind == "iface" and rng.random() < 0.3 and ocls in self.present:
                m, d = self.add_fields(m, d, ocls, ftype, depth, edge)
        p_alias = 0.15 if meth == "t" else (0.25 if edge else 0.0)
        if rng.random() < p_alias:
            al = rng.choice(["n1", "x", "al", "aB", "n1"] + ([""] if edge else []))
            m = ["alias", m, al]
            d = ["alias", d, al]
        return m, d

    def child_expr(self, cls, owner_type, fm, depth, edge):
        """a sub-field; in the reuse stream it is sometimes remembered for later operations"""
        remember = self.reuse and not self.in_let and fm[3] == "t" and self.rng.random() < 0.45
        if remember:
            self.in_let = True
        m, d = self.field_expr(cls, owner_type, fm, depth, edge)
        if remember:
            self.in_let = False
            name = f"o{len(self.defs)}"
            self.defs[name] = d
            self.pending.append((cls, m, name))
            d = ["let", name, d]
        return m, d

    def end_operation(self):
        self.pool += self.pending
        self.pending = []
        self.used_now = set()

    def add_fields(self, m, d, ocls, ftype, depth, edge):
        subs = self.sub_list(ocls, ftype, depth, edge)
        if subs:
            m = ["fields", m, [s[0] for s in subs]]
            d = ["fields", d, [s[1] for s in subs]]
        return m, d

    def sub_list(self, cls, tname, depth, edge):
        rng = self.rng
        fms = self.ct.get(cls)
        if not fms:
            return []
        if depth <= 1:
            cand = [fm for fm in fms if fm[5] == "leaf"]
        else:
            cand = list(fms)
        if not cand:
            return []
        k = rng.randint(1, min(3, len(cand)))
        picks = rng.sample(cand, k)
        if edge and rng.random() < 0.3:
            picks.append(rng.choice(picks))          # the same field twice
        out = [self.child_expr(cls, tname, fm, depth - 1, edge) for fm in picks]
        if self.reuse and not self.in_let:
            cand = [p for p in self.pool if p[0] == cls and p[2] not in self.used_now]
            rng.shuffle(cand)
            for c in cand[: rng.choice([1, 1, 2])]:
                if rng.random() < 0.8:
                    self.used_now.add(c[2])
                    out.insert(rng.randint(0, len(out)), (c[1], ["ref", c[2]]))
        return out

    def operation(self, root_cls, root_type, depth, edge):
        fms = self.ct[root_cls]
        k = self.rng.choice([1, 1, 1, 2, 2, 3])
        out = []
        for _ in range(k):
            fm = self.rng.choice(fms)
            m, d = self.field_expr(root_cls, root_type, fm, depth, edge)
            if k > 1 and m[0] != "alias" and self.rng.random() < 0.7:
                al = f"t{len(out)}"
                m, d = ["alias", m, al], ["alias", d, al]
            out.append((m, d))
        return out


def expr_sx(e):
    from ..sexp import Sym, json_sx

    k = e[0]
    if k == "attr":
        return [Sym("attr"), e[1], e[2]]
    if k == "call":
        return [Sym("call"), e[1], e[2], [[a, json_sx(v)] for a, v in e[3]]]
    if k == "fields":
        return [Sym("fields"), expr_sx(e[1]), [expr_sx(x) for x in e[2]]]
    if k == "alias":
        return [Sym("alias"), expr_sx(e[1]), e[2]]
    if k == "on":
        return [Sym("on"), expr_sx(e[1]), e[2], [expr_sx(x) for x in e[3]]]
    raise ValueError(k)


def expr_depth(e):
    k = e[0]
    if k in ("attr", "call"):
        return 1
    if k == "alias":
        return expr_depth(e[1])
    subs = e[2] if k == "fields" else e[3]
    return max([expr_depth(e[1])] + [1 + expr_depth(x) for x in subs])


def expr_size(e):
    k = e[0]
    if k in ("attr", "call"):
        return 1
    if k == "alias":
        return expr_size(e[1])
    subs = e[2] if k == "fields" else e[3]
    return expr_size(e[1]) + sum(expr_size(x) for x in subs)


def expand_refs(d, defs):
    """driver expression with let/ref -> the same expression built from fresh objects only"""
    k = d[0]
    if k == "ref":
        return expand_refs(defs[d[1]], defs)
    if k == "let":
        return expand_refs(d[2], defs)
    if k in ("attr", "call"):
        return d
    if k == "alias":
        return ["alias", expand_refs(d[1], defs), d[2]]
    if k == "fields":
        return ["fields", expand_refs(d[1], defs), [expand_refs(x, defs) for x in d[2]]]
    return ["on", expand_refs(d[1], defs), d[2], [expand_refs(x, defs) for x in d[3]]]


def has_ref(d):
    k = d[0]
    if k == "ref":
        return True
    if k == "let":
        return has_ref(d[2])
    if k in ("attr", "call"):
        return False
    subs = [d[1]] + (d[2] if k == "fields" else d[3] if k == "on" else [])
    return any(has_ref(x) for x in subs)
