"""C13 implementation drivers: the bundled async base clients of $VERIF_REPO driven through
execute_ws against (a) a scripted fake connection object (no event loop, exhaustive sweeps) and
(b) a real `websockets` server on 127.0.0.1 (runtime-only part of the property).

Nothing in /repo is edited: `ws_connect` is replaced in the namespace of the two loaded modules.
"""
from __future__ import annotations

import asyncio
import datetime
import importlib
import json
import re
from typing import Any, List, Optional

import websockets
from pydantic import Field
from websockets.exceptions import ConnectionClosed, ConnectionClosedOK

from ..sexp import Sym, json_sx, sx_json

DEP = "ariadne_codegen.client_generators.dependencies"
PLAIN = importlib.import_module(f"{DEP}.async_base_client")
OTEL = importlib.import_module(f"{DEP}.async_base_client_open_telemetry")
BM = importlib.import_module(f"{DEP}.base_model")
EXC = importlib.import_module(f"{DEP}.exceptions")
REAL_WS_CONNECT = {PLAIN: PLAIN.ws_connect, OTEL: OTEL.ws_connect}

VARIANTS = ("plain", "otel", "otel-tracer")
UUID = re.compile(r"^[0-9a-f]{8}-[0-9a-f]{4}-4[0-9a-f]{3}-[89ab][0-9a-f]{3}-[0-9a-f]{12}$")
EXPECTED_ACK_MSG = "Invalid message received. Expected: connection_ack"


# ------------------------------------------------------------------------------------------
# frames
def wire(frame) -> str:
    """frame = ("t", text) | ("j", json value) -> the text sent by the server"""
    return frame[1] if frame[0] in ("t", "raw") else json.dumps(frame[1])   # "raw": str or bytes as delivered


def frame_sx(frame):
    return [Sym("t"), frame[1]] if frame[0] == "t" else [Sym("j"), json_sx(frame[1])]


# ------------------------------------------------------------------------------------------
# variables fixtures: Python value + its model encoding (Model/Ws.v pyv) written by hand, NOT
# computed with the code under test
class Inner(BM.BaseModel):
    inner_value: int = Field(alias="innerValue")
    opt: Optional[str] = None


class Inp(BM.BaseModel):
    field_a: int = Field(alias="fieldA")
    note: Optional[str] = None
    nested: Optional[Inner] = None
    unset_one: Optional[int] = Field(alias="unsetOne", default=None)


class WithDate(BM.BaseModel):
    at: datetime.datetime


DT = datetime.datetime(2024, 1, 2, 3, 4, 5)
DT_JSON = "2024-01-02T03:04:05"


def vars_fixtures():
    """name -> (python variables or None, model sexp for option (list (string*pyv)))"""
    U = BM.UNSET
    j = lambda v: [Sym("j"), json_sx(v)]
    m = lambda ok, v: [Sym("m"), ok, json_sx(v)]
    inp = Inp(field_a=1, note=None, nested=Inner(inner_value=2))
    inp_dump = {"fieldA": 1, "note": None, "nested": {"innerValue": 2}}
    inner = Inner(innerValue=5, opt="x")
    inner_dump = {"innerValue": 5, "opt": "x"}
    fx = {
        "none": (None, None),
        "rich": (
            {"a": 1, "skip": U, "inp": inp, "lst": [inner, 2, [inner]], "s": "str", "n": None,
             "d": {"k": [1, {"z": True}]}},
            [["a", j(1)], ["skip", Sym("u")], ["inp", m(True, inp_dump)],
             ["lst", [Sym("l"), m(True, inner_dump), j(2), [Sym("l"), m(True, inner_dump)]]],
             ["s", j("str")], ["n", j(None)], ["d", j({"k": [1, {"z": True}]})]],
        ),
        # side stream
        "emptydict": ({}, []),
        "all-unset": ({"x": U, "y": U}, [["x", Sym("u")], ["y", Sym("u")]]),
        "datetime": ({"since": DT}, [["since", [Sym("q"), json_sx(DT_JSON)]]]),
        "model-datetime": ({"w": WithDate(at=DT)}, [["w", m(False, {"at": DT_JSON})]]),
        "nested-unset": ({"l": [1, U]}, [["l", [Sym("l"), j(1), Sym("u")]]]),
        "list-datetime": ({"l": [DT], "k": 1}, [["l", [Sym("l"), [Sym("q"), json_sx(DT_JSON)]]], ["k", j(1)]]),
    }
    return fx


def request_sx(query, opname, vars_sx):
    return [query, None if opname is None else [Sym("some"), opname],
            None if vars_sx is None else [Sym("some"), vars_sx]]


def cfg_sx(cfg: dict):
    kv = lambda d: [[k, json_sx(v)] for k, v in d.items()]
    opt = lambda x, f: None if x is None else [Sym("some"), f(x)]
    return [cfg.get("url", ""), kv(cfg.get("headers") or {}), opt(cfg.get("origin"), lambda s: s),
            opt(cfg.get("init_payload"), json_sx), opt(cfg.get("kw_headers"), kv), kv(cfg.get("kw_other") or {})]


# ------------------------------------------------------------------------------------------
# recording tracer (opentelemetry-sdk is not installed; the client only needs this surface)
class RecSpan:
    def __init__(self, name, log):
        self.name, self.attrs = name, {}
        log.append(self)

    def set_attribute(self, k, v):
        self.attrs[k] = v

    def __enter__(self):
        return self

    def __exit__(self, *a):
        return False


class RecTracer:
    def __init__(self):
        self.spans: List[RecSpan] = []

    def start_as_current_span(self, name, context=None, **kw):
        return RecSpan(name, self.spans)


# ------------------------------------------------------------------------------------------
# scripted fake connection (behaviour measured on websockets 17.1, re-validated against the real
# loopback server on every run)
class FakeConn:
    def __init__(self, frames: List[str], log: list):
        self.frames, self.pos, self.log, self.closed = frames, 0, log, False

    async def recv(self):
        if self.pos >= len(self.frames):
            raise ConnectionClosedOK(None, None)
        self.pos += 1
        self.log.append("r")
        return self.frames[self.pos - 1]

    def __aiter__(self):
        return self

    async def __anext__(self):
        if self.pos >= len(self.frames):
            raise StopAsyncIteration
        self.pos += 1
        self.log.append("r")
        return self.frames[self.pos - 1]

    async def send(self, msg):
        if self.closed:
            raise ConnectionClosedOK(None, None)
        self.log.append(["s", msg])

    async def close(self, *a, **k):
        self.closed = True
        self.log.append("c")


class FakeConnect:
    """stands for `websockets.connect`: records the call, is an async context manager"""

    def __init__(self, frames, log):
        self.frames, self.log = frames, log
        self.calls, self.entered, self.exited = [], 0, 0

    def __call__(self, *args, **kwargs):
        self.calls.append((args, kwargs))
        return self

    async def __aenter__(self):
        self.entered += 1
        self.conn = FakeConn(self.frames, self.log)
        return self.conn

    async def __aexit__(self, *a):
        self.exited += 1
        return False


_HTTP = []


def make_client(variant: str, cfg: dict, tracer=None, url=None):
    if not _HTTP:      # one shared httpx.AsyncClient per process: constructing one costs ~50 ms (TLS context)
        import httpx

        _HTTP.append(httpx.AsyncClient())
    kw = dict(http_client=_HTTP[0], ws_url=url if url is not None else cfg.get("url", ""), ws_headers=cfg.get("headers"),
              ws_origin=cfg.get("origin"), ws_connection_init_payload=cfg.get("init_payload"))
    if variant == "plain":
        return PLAIN, PLAIN.AsyncBaseClient(**kw)
    if variant == "otel":
        return OTEL, OTEL.AsyncBaseClientOpenTelemetry(**kw)
    return OTEL, OTEL.AsyncBaseClientOpenTelemetry(tracer=tracer, **kw)


def call_kwargs(cfg: dict) -> dict:
    kw = dict(cfg.get("kw_other") or {})
    if cfg.get("kw_headers") is not None:
        kw["extra_headers"] = cfg["kw_headers"]
    return kw


def classify_exception(e: BaseException, frames_wire: List[str], frames) -> list:
    if isinstance(e, EXC.GraphQLClientGraphQLMultiError):
        errs = [x.original for x in e.errors]
        for x in e.errors:   # from_dict copies message/locations/path/extensions from the dict
            if x.message != x.original["message"] or x.locations != x.original.get("locations") \
                    or x.path != x.original.get("path") or x.extensions != x.original.get("extensions"):
                return ["other", "multi-error attributes differ from the error dict"]
        return ["multi", errs, e.data]
    if isinstance(e, EXC.GraphQLClientInvalidMessageFormat):
        if e.message == EXPECTED_ACK_MSG:
            return ["invalid", None]
        for w, f in zip(frames_wire, frames):
            if e.message == w:
                return ["invalid", list(f)]
        return ["invalid", ["?", repr(e.message)]]
    if isinstance(e, ConnectionClosed):
        return "closed"
    return ["other", type(e).__name__]


def canon_sent(msg: str):
    """text sent by the client -> JSON with the uuid replaced by the model's placeholder"""
    try:
        m = json.loads(msg)
    except ValueError:
        return {"<not json>": msg}
    if isinstance(m, dict) and m.get("type") == "subscribe":
        m["id"] = "<id>" if isinstance(m.get("id"), str) and UUID.match(m["id"]) else {"<bad id>": m.get("id")}
    return m


def drive(agen, log):
    """run an async generator to completion without an event loop (the fake connection never
    suspends); returns the terminal exception or None"""
    while True:
        co = agen.__anext__()
        try:
            co.send(None)
        except StopIteration as e:
            log.append(["y", e.value])
            continue
        except StopAsyncIteration:
            return None
        except BaseException as e:  # noqa: BLE001
            return e
        raise RuntimeError("client suspended on the fake connection")


def new_client(variant: str, cfg: dict):
    """(module, client object, tracer) to be reused over several run_fake calls (histories)"""
    tracer = RecTracer() if variant == "otel-tracer" else None
    mod, client = make_client(variant, cfg, tracer)
    return mod, client, tracer


def canon_run(log, fc, exc, wires, frames):
    """(connect, events, fin) in canonical form from what one FakeConnect / log pair recorded"""
    fin = "finished" if exc is None else classify_exception(exc, wires, frames)
    events = [([x[0], canon_sent(x[1])] if x[0] == "s" else x) if isinstance(x, list) else x for x in log]
    connect = None
    if len(fc.calls) == 1:
        args, kwargs = fc.calls[0]
        kwargs = dict(kwargs)
        sub = kwargs.pop("subprotocols", None)
        # (the fake connect has signature (*args, **kwargs), so _ws_headers_keyword() of /repo 91472e8 picks
        # "extra_headers" here; which keyword the real library takes is decided by the real-server run)
        connect = [list(args), [str(s) for s in (sub or [])],
                   {k: (str(v) if k == "origin" and v is not None else v) for k, v in kwargs.items()}]
    return connect, events, fin


def run_fake(variant: str, cfg: dict, query, opname, variables, frames, existing=None, kwargs=None) -> dict:
    """one execute_ws run against the scripted fake connection -> canonical trace.
    existing: (module, client, tracer) of new_client() to run on an object that already has a history;
    kwargs: the keyword arguments of this call (default: those described by cfg)"""
    log: list = []
    wires = [wire(f) for f in frames]
    fc = FakeConnect(wires, log)
    if existing is None:
        existing = new_client(variant, cfg)
    mod, client, tracer = existing
    span0 = len(tracer.spans) if tracer else 0
    old = mod.ws_connect
    mod.ws_connect = fc
    try:
        exc = drive(client.execute_ws(query, opname, variables,
                                      **(call_kwargs(cfg) if kwargs is None else kwargs)), log)
    finally:
        mod.ws_connect = old
    connect, events, fin = canon_run(log, fc, exc, wires, frames)
    return {"connect": connect, "events": events, "fin": fin,
            "spans": [s.name for s in tracer.spans[span0:]] if tracer else [],
            "ctx": (len(fc.calls), fc.entered, fc.exited),
            "span_attrs": [(s.name, dict(s.attrs)) for s in tracer.spans[span0:]] if tracer else []}


# ------------------------------------------------------------------------------------------
# model trace decoding
def decode_frame(e):
    return ["t", e[1]] if e[0] == "t" else ["j", sx_json(e[1])]


def decode_trace(e) -> dict:
    conn, events, fin, spans = e
    url, subs, kw = conn
    ev = []
    for x in events:
        if x == "r" or x == "c":
            ev.append(x)
        else:
            ev.append([x[0], sx_json(x[1])])
    if fin in ("finished", "closed"):
        f: Any = fin
    elif fin[0] == "multi":
        f = ["multi", [sx_json(x) for x in fin[1]], sx_json(fin[2])]
    elif fin[0] == "invalid":
        f = ["invalid", None if fin[1] == "none" else decode_frame(fin[1][1])]
    else:
        f = ["other", fin[1]]
    return {"connect": [[url], list(subs), {k: sx_json(v) for k, v in kw}], "events": ev, "fin": f,
            "spans": list(spans)}


def strict(v) -> str:
    """type-strict canonical text (True != 1, key order ignored)"""
    return json.dumps(v, sort_keys=True, default=repr)


def project(tr: dict) -> dict:
    """the observables the property text speaks about"""
    fin = tr["fin"]
    conn = tr.get("connect")
    if conn:   # origin=None and no origin keyword mean the same handshake
        conn = [conn[0], conn[1], {k: v for k, v in conn[2].items() if not (k == "origin" and v is None)}]
    return {"connect": conn, "sent": [x[1] for x in tr["events"] if isinstance(x, list) and x[0] == "s"],
            "yielded": [x[1] for x in tr["events"] if isinstance(x, list) and x[0] == "y"],
            "closes": sum(1 for x in tr["events"] if x == "c"),
            "fin": fin if isinstance(fin, str) else ([fin[0]] + (fin[1:] if fin[0] == "multi" else []))}


# ------------------------------------------------------------------------------------------
# real websockets server on loopback
async def real_case(variant, cfg, query, opname, variables, frames, expect_msgs: int, adapter: bool,
                    timeout: float = 2.0) -> dict:
    """One connection to a real server that plays `frames`; the server waits for the client's
    connection_init before the first frame, for the subscribe after an ack, and for
    `expect_msgs` client messages in total (the model's prediction) before closing."""
    from websockets.asyncio.server import serve

    wires = [wire(f) for f in frames]
    rec: dict = {"got": [], "notes": []}
    done = asyncio.Event()

    async def handler(ws):
        try:
            rec["subprotocol"] = ws.subprotocol
            rec["headers"] = {k.lower(): v for k, v in ws.request.headers.raw_items()}
            rec["path"] = ws.request.path
            try:
                rec["got"].append(await asyncio.wait_for(ws.recv(), timeout))
                rec["order"] = "init-before-any-frame"
                if wires:
                    await ws.send(wires[0])
                    if frames[0][0] == "j" and isinstance(frames[0][1], dict) and frames[0][1].get("type") == "connection_ack":
                        if expect_msgs >= 2:
                            rec["got"].append(await asyncio.wait_for(ws.recv(), timeout))
                    for w in wires[1:]:
                        await ws.send(w)
                while len(rec["got"]) < expect_msgs:
                    rec["got"].append(await asyncio.wait_for(ws.recv(), timeout))
                # anything beyond the prediction? (short grace period)
                try:
                    rec["got"].append(await asyncio.wait_for(ws.recv(), 0.02))
                    rec["notes"].append("extra client message")
                except (asyncio.TimeoutError, ConnectionClosed):
                    pass
            except asyncio.TimeoutError:
                rec["notes"].append("timeout waiting for client message")
            except ConnectionClosed:
                rec["notes"].append("client closed early")
        finally:
            done.set()

    log: list = []
    async with serve(handler, "127.0.0.1", 0, subprotocols=["graphql-transport-ws"]) as server:
        port = server.sockets[0].getsockname()[1]
        url = f"ws://127.0.0.1:{port}/graphql"
        tracer = RecTracer() if variant == "otel-tracer" else None
        mod, client = make_client(variant, cfg, tracer, url=url)
        old = mod.ws_connect
        if adapter:
            real = REAL_WS_CONNECT[mod]

            def adapted(*a, **k):
                if "extra_headers" in k:
                    k["additional_headers"] = k.pop("extra_headers")
                return real(*a, **k)

            mod.ws_connect = adapted
        exc = None
        try:
            async def consume():
                async for d in client.execute_ws(query, opname, variables, **call_kwargs(cfg)):
                    log.append(["y", d])
            await asyncio.wait_for(consume(), timeout * 3)
        except BaseException as e:  # noqa: BLE001
            exc = e
        finally:
            mod.ws_connect = old
        try:
            await asyncio.wait_for(done.wait(), timeout)
        except asyncio.TimeoutError:
            rec["notes"].append("handler did not finish")
    fin = "finished" if exc is None else classify_exception(exc, wires, frames)
    return {"yielded": [x[1] for x in log], "fin": fin, "exc": None if exc is None else f"{type(exc).__name__}: {exc}",
            "server": rec, "sent": [canon_sent(g) for g in rec["got"]]}
