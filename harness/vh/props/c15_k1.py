"""C15 K1: extracted model (Model/Plugins.v `generate`) applied to the canonicalised UNPLUGGED package vs the
canonicalised package the real generator produced with the same plugin list."""
from __future__ import annotations

import json

from .. import model
from ..impl import scen
from ..sexp import Sym
from . import c15_canon as canon




def plugin_sx(c):
    return {"S": [Sym("shorter"), "fragments"], "E": [Sym("extract"), "operations"],
            "F": Sym("forward"), "N": Sym("noreimports"), "I": Sym("identity")}[c]


def real_canonical(files):
    c = canon.client_of(files["client.py"], complete=False)
    out = {"client": canon.canonical_client(canon.sx_plain(canon.client_sexp(c)), cleanup=False)}
    ii, ia = canon.init_of(files.get("__init__.py", ""))
    out["init"] = None if (not ii and ia is None) else canon.canonical_init(ii, ia)
    out["operations"] = None
    if "operations.py" in files:
        consts, all_ = canon.operations_of(files["operations.py"])
        out["operations"] = {"consts": [list(x) for x in consts], "all": all_}
    return out, c["other"]


def model_canonical(res, extra_used):
    if res == ["fails"]:
        return "fails"
    if not (isinstance(res, list) and res and res[0] == "ok"):
        return {"error": res}
    _ok, client, init, ops = res
    out = {"client": canon.canonical_client(client, cleanup=True, extra_used=extra_used)}
    out["init"] = None if init == "none" else canon.canonical_init(init[1][0], init[1][1])
    out["operations"] = None
    if ops:
        consts = [[k, canon.norm_doc(v)] for k, v in ops[0]]
        out["operations"] = {"consts": consts, "all": sorted(k for k, _ in consts), "modules": len(ops)}
    return out


def _same_but_imports(a, b):
    """equal except that the real client imports MORE operations constants (a constant that a parameter shadowed
    is unused for autoflake; once the parameter is renamed it is used again)"""
    try:
        ca, cb = dict(a["client"]), dict(b["client"])
        ia, ib = set(map(tuple, ca.pop("imports"))), set(map(tuple, cb.pop("imports")))
        return ({k: v for k, v in a.items() if k != "client"} == {k: v for k, v in b.items() if k != "client"}
                and ca == cb and ia <= ib and all(n.endswith("_GQL") for _s, n in ib - ia))
    except Exception:  # noqa
        return False


def first_difference(a, b, path="$"):
    if type(a) != type(b):
        return f"{path}: {str(a)[:160]} != {str(b)[:160]}"
    if isinstance(a, dict):
        for k in sorted(set(a) | set(b)):
            if a.get(k) != b.get(k):
                return first_difference(a.get(k), b.get(k), f"{path}.{k}")
    if isinstance(a, list):
        if len(a) != len(b):
            extra = [x for x in a if x not in b][:3], [x for x in b if x not in a][:3]
            return f"{path}: lengths {len(a)} != {len(b)}; only-left {extra[0]} only-right {extra[1]}"
        for i, (x, y) in enumerate(zip(a, b)):
            if x != y:
                return first_difference(x, y, f"{path}[{i}]")
    return f"{path}: {str(a)[:160]} != {str(b)[:160]}"


def run(ctx, cases):
    run = ctx.run
    cmds, meta = [], []
    for case in cases:
        base_files = case.files[""]
        try:
            enc = canon.encode_unplugged(base_files, case.ops, scen.method_name)
        except Exception as exc:  # noqa
            run.broken("K1 canonicaliser", f"unplugged package of seed {case.sc.seed} unreadable: {type(exc).__name__}: {exc}")
            continue
        for cfg in case.configs:
            cmds.append([Sym("generate"), [plugin_sx(c) for c in cfg], enc])
            meta.append((case, cfg, "model"))
    results = model.batch("C15", cmds, chunk=8) if cmds else []
    verdict = {}
    for (case, cfg, variant), res in zip(meta, results):
        key = (id(case), cfg)
        if key not in verdict:
            try:
                real, other = real_canonical(case.files[cfg]) if case.gen[cfg].ok else ("fails", [])
            except Exception as exc:  # noqa
                verdict[key] = {"case": case, "cfg": cfg, "real_error": f"{type(exc).__name__}: {exc}", "variants": {}}
                continue
            verdict[key] = {"case": case, "cfg": cfg, "real": real, "other": other, "variants": {}}
        v = verdict[key]
        if "real" not in v:
            continue
        used = set(canon.IDENT.findall(" ".join(v["other"])))
        mc = model_canonical(res, used)
        if v["real"] == "fails":
            v["variants"][variant] = None if mc == "fails" else "model generates, the generator fails"
            continue
        # the operations module's __all__ is only comparable when the module exists
        if isinstance(mc, dict) and mc.get("operations") and v["real"].get("operations"):
            mc["operations"].pop("modules", None)
        v["variants"][variant] = None if mc == v["real"] else first_difference(mc, v["real"])
        if v["variants"][variant] is not None and "E" in cfg and isinstance(mc, dict) and mc.get("operations"):
            # ExtractOperations' process_name hook (fixes/C15-extract-constant-shadowed.diff) renames an argument
            # that is named like a constant; this renaming is modelled here, in the canonical form
            constants = {k for k, _ in mc["operations"]["consts"]}
            methods = []
            for m in mc["client"]["methods"]:
                names = {p[0] for p in m[2]}
                for p in [p[0] for p in m[2] if p[0] in constants]:
                    new = p
                    while new in constants or (new != p and new in names):
                        new += "_"
                    m = canon.rename_param_in_method(m, p, new)
                methods.append(m)
            mc2 = dict(mc, client=dict(mc["client"], methods=methods))
            # the import of a constant that was only shadowed before is used again
            if mc2 == v["real"] or _same_but_imports(mc2, v["real"]):
                v["variants"][variant] = None
                run.dist("k1_extract_reserved_names", "renamed")
    for v in verdict.values():
        case, cfg = v["case"], v["cfg"]
        run.count()
        if "real_error" in v:
            run.broken("K1 canonicaliser", f"package generated with {cfg!r} unreadable: {v['real_error']}")
            continue
        oks = [k for k, d in v["variants"].items() if d is None]
        run.dist("k1", "agree" if oks else "disagree")
        if v["real"] == "fails" and oks:
            # both sides refuse: generation with this plugin list crashes, as the faithful model predicts
            run.dist("k1", "agree-on-failure")
        if not oks:
            run.violation(f"K1: model and generator disagree for plugins {cfg!r} (seed {case.sc.seed}): "
                          + json.dumps(v["variants"])[:900],
                          {"seed": case.sc.seed, "features": list(case.sc.features), "configuration": cfg,
                           "differences": v["variants"], "schema": case.sc.sdl, "queries": case.sc.queries,
                           "config": case.sc.config}, found_input=False)
