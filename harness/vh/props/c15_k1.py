"""C15 K1: extracted model (Model/Plugins.v `generate`) applied to the canonicalised UNPLUGGED package vs the
canonicalised package the real generator produced with the same plugin list."""
from __future__ import annotations

import json

from .. import model
from ..impl import scen
from ..sexp import Sym
from . import c15_canon as canon




def plugin_sx(c, frag="fragments", ops="operations"):
    return {"S": [Sym("shorter"), frag], "E": [Sym("extract"), ops],
            "F": Sym("forward"), "N": Sym("noreimports"), "I": Sym("identity")}[c]


def real_canonical(files, ops_mod="operations"):
    c = canon.client_of(files["client.py"], complete=False)
    out = {"client": canon.canonical_client(canon.sx_plain(canon.client_sexp(c)), cleanup=False)}
    ii, ia = canon.init_of(files.get("__init__.py", ""))
    out["init"] = None if (not ii and ia is None) else canon.canonical_init(ii, ia)
    out["operations"] = None
    if ops_mod + ".py" in files:
        consts, all_ = canon.operations_of(files[ops_mod + ".py"])
        out["operations"] = {"consts": [list(x) for x in consts], "all": all_}
    return out, c["other"]


def model_canonical(res, extra_used):
    if res == ["fails"]:
        return "fails"
    if not (isinstance(res, list) and res and res[0] == "ok"):
        return {"error": res}
    _ok, client, init, ops = res
    out = {"client": canon.canonical_client(client, cleanup=True, extra_used=extra_used)}
    out["init"] = None if init == "none" else canon.canonical_init(init[1][0], init[1][1])
    out["operations"] = None
    if ops:
        consts = [[k, canon.norm_doc(v)] for k, v in ops[0]]
        out["operations"] = {"consts": consts, "all": sorted(k for k, _ in consts), "modules": len(ops)}
    return out


def _same_but_imports(a, b):
    """equal except that the real client imports MORE operations constants (a constant that a parameter shadowed
    is unused for autoflake; once the parameter is renamed it is used again)"""
    try:
        ca, cb = dict(a["client"]), dict(b["client"])
        ia, ib = set(map(tuple, ca.pop("imports"))), set(map(tuple, cb.pop("imports")))
        return ({k: v for k, v in a.items() if k != "client"} == {k: v for k, v in b.items() if k != "client"}
                and ca == cb and ia <= ib and all(n.endswith("_GQL") for _s, n in ib - ia))
    except Exception:  # noqa
        return False


def dict_params(src, method):
    """[(GraphQL variable name, parameter feeding it)] of a client method, in declaration order (the variables dict)"""
    import ast

    for cls in [n for n in ast.parse(src).body if isinstance(n, ast.ClassDef)]:
        for fn in cls.body:
            if isinstance(fn, (ast.FunctionDef, ast.AsyncFunctionDef)) and fn.name == method:
                params = {a.arg for a in fn.args.args}
                for st in fn.body:
                    if isinstance(st, ast.AnnAssign) and isinstance(st.value, ast.Dict):
                        out = []
                        for k, v in zip(st.value.keys, st.value.values):
                            ps = [n.id for n in ast.walk(v) if isinstance(n, ast.Name) and n.id in params]
                            out.append((k.value, ps[0] if ps else None))
                        return out
    return None


def reserved_names(ctx, cases):
    """K1 for the reserved-name loop of arguments.py and ExtractOperations.process_name: the model's assign_names
    (a) without constants must give the parameter names of the UNPLUGGED methods, (b) with the constants recorded
    up to the operation must give the parameter names of the methods generated with ExtractOperations.  Processed
    names and the reserved set are taken from the real functions (utils.process_name, ArgumentsGenerator)."""
    run = ctx.run
    from ariadne_codegen.client_generators.arguments import ArgumentsGenerator
    from ariadne_codegen.client_generators.scalars import ScalarData
    from ariadne_codegen.utils import process_name, str_to_pascal_case

    from . import c15 as k3

    cmds, meta, out = [], [], {}
    for case in cases:
        snake = case.sc.config.get("convert_to_snake_case", True)
        scalars = {k: ScalarData(type_=v["type"], graphql_name=k, serialize=v.get("serialize"), parse=v.get("parse"))
                   for k, v in (case.sc.config.get("scalars") or {}).items()}
        try:
            reserved = sorted(ArgumentsGenerator(schema=case.gen[""].schema, convert_to_snake_case=snake,
                                                 custom_scalars=scalars)._get_reserved_argument_names())
        except Exception as exc:  # noqa
            run.broken("K1 reserved names", f"ArgumentsGenerator._get_reserved_argument_names unusable: {type(exc).__name__}: {exc}")
            return out
        e_cfg = next((c for c in case.configs if "E" in c and case.gen[c].ok), None)
        consts = []
        for op in case.ops:
            name = op.name.value
            consts.append(k3.const_name(name))
            processed = [process_name(vd.variable.name.value, convert_to_snake_case=snake, node=vd)
                         for vd in op.variable_definitions or ()]
            res = reserved + [str_to_pascal_case(name)]
            for kind, cs in (("unplugged", []), ("extract", list(consts))):
                cmds.append([Sym("assign"), cs, res, processed])
                meta.append((case, op, kind, e_cfg))
    results = model.batch("C15", cmds) if cmds else []
    base_names = {}
    for (case, op, kind, e_cfg), names in zip(meta, results):
        meth = scen.method_name(op.name.value)
        cfg = "" if kind == "unplugged" else e_cfg
        if cfg is None:
            continue
        real = dict_params(case.files[cfg]["client.py"], meth)
        run.count()
        if real is None or any(p is None for _k, p in real):
            run.dist("k1_reserved_names", "not-comparable")
            continue
        if [p for _k, p in real] != list(names):
            run.violation(f"K1 reserved names: model {list(names)} vs generated parameters {[p for _k, p in real]} "
                          f"({kind}, operation {op.name.value}, seed {case.sc.seed})",
                          {"seed": case.sc.seed, "operation": op.name.value, "kind": kind, "model": list(names),
                           "generated": real, "schema": case.sc.sdl, "queries": case.sc.queries,
                           "config": case.sc.config}, found_input=False)
            continue
        run.dist("k1_reserved_names", kind + ("-renamed" if kind == "extract" and list(names) != base_names.get((id(case), meth)) else ""))
        if kind == "unplugged":
            base_names[(id(case), meth)] = list(names)
        else:
            ren = {o: n for o, n in zip(base_names.get((id(case), meth), []), names) if o != n}
            if ren:
                out.setdefault(id(case), {"renames": {}})["renames"][meth] = ren
    return out


def first_difference(a, b, path="$"):
    if type(a) != type(b):
        return f"{path}: {str(a)[:160]} != {str(b)[:160]}"
    if isinstance(a, dict):
        for k in sorted(set(a) | set(b)):
            if a.get(k) != b.get(k):
                return first_difference(a.get(k), b.get(k), f"{path}.{k}")
    if isinstance(a, list):
        if len(a) != len(b):
            extra = [x for x in a if x not in b][:3], [x for x in b if x not in a][:3]
            return f"{path}: lengths {len(a)} != {len(b)}; only-left {extra[0]} only-right {extra[1]}"
        for i, (x, y) in enumerate(zip(a, b)):
            if x != y:
                return first_difference(x, y, f"{path}[{i}]")
    return f"{path}: {str(a)[:160]} != {str(b)[:160]}"


def run(ctx, cases):
    from . import c15 as k3mod

    run = ctx.run
    cmds, meta = [], []
    for case in cases:
        base_files = case.files[""]
        try:
            enc = canon.encode_unplugged(base_files, case.ops, scen.method_name, fragments_module=k3mod.frag_module(case.sc))
        except Exception as exc:  # noqa
            run.broken("K1 canonicaliser", f"unplugged package of seed {case.sc.seed} unreadable: {type(exc).__name__}: {exc}")
            continue
        for cfg in case.configs:
            cmds.append([Sym("generate"), [plugin_sx(c, k3mod.frag_module(case.sc), k3mod.ops_module(case.sc)) for c in cfg], enc])
            meta.append((case, cfg, "model"))
    results = model.batch("C15", cmds, chunk=8) if cmds else []
    names_by_case = reserved_names(ctx, cases)
    verdict = {}
    for (case, cfg, variant), res in zip(meta, results):
        key = (id(case), cfg)
        if key not in verdict:
            try:
                real, other = (real_canonical(case.files[cfg], k3mod.ops_module(case.sc)) if case.gen[cfg].ok
                               else ("fails", []))
            except Exception as exc:  # noqa
                verdict[key] = {"case": case, "cfg": cfg, "real_error": f"{type(exc).__name__}: {exc}", "variants": {}}
                continue
            verdict[key] = {"case": case, "cfg": cfg, "real": real, "other": other, "variants": {}}
        v = verdict[key]
        if "real" not in v:
            continue
        used = set(canon.IDENT.findall(" ".join(v["other"])))
        mc = model_canonical(res, used)
        if v["real"] == "fails":
            v["variants"][variant] = None if mc == "fails" else "model generates, the generator fails"
            continue
        # the operations module's __all__ is only comparable when the module exists
        if isinstance(mc, dict) and mc.get("operations") and v["real"].get("operations"):
            mc["operations"].pop("modules", None)
        v["variants"][variant] = None if mc == v["real"] else first_difference(mc, v["real"])
        if v["variants"][variant] is not None and "E" in cfg and isinstance(mc, dict) and mc.get("operations"):
            # ExtractOperations' process_name hook renames an argument named like a constant.  The NAMES come from the
            # Coq model (assign_names with the constants recorded so far, see reserved_names below); only the
            # textual substitution into the opaque statements is done here.
            renames = (names_by_case.get(id(case)) or {}).get("renames", {})
            methods = []
            for m in mc["client"]["methods"]:
                for old, new_ in (renames.get(m[0]) or {}).items():
                    m = canon.rename_param_in_method(m, old, new_)
                methods.append(m)
            mc2 = dict(mc, client=dict(mc["client"], methods=methods))
            # the import of a constant that was only shadowed before is used again
            if mc2 == v["real"] or _same_but_imports(mc2, v["real"]):
                v["variants"][variant] = None
                run.dist("k1_extract_reserved_names", "renamed")
    for v in verdict.values():
        case, cfg = v["case"], v["cfg"]
        run.count()
        if "real_error" in v:
            run.broken("K1 canonicaliser", f"package generated with {cfg!r} unreadable: {v['real_error']}")
            continue
        oks = [k for k, d in v["variants"].items() if d is None]
        run.dist("k1", "agree" if oks else "disagree")
        if v["real"] == "fails" and oks:
            # both sides refuse: generation with this plugin list crashes, as the faithful model predicts
            run.dist("k1", "agree-on-failure")
        if not oks:
            run.violation(f"K1: model and generator disagree for plugins {cfg!r} (seed {case.sc.seed}): "
                          + json.dumps(v["variants"])[:900],
                          {"seed": case.sc.seed, "features": list(case.sc.features), "configuration": cfg,
                           "differences": v["variants"], "schema": case.sc.sdl, "queries": case.sc.queries,
                           "config": case.sc.config}, found_input=False)
