"""K1 for the result-side model (Model/Results.v): generated result modules on disk vs the model's classes."""
from __future__ import annotations

from graphql import FragmentDefinitionNode, GraphQLEnumType

from .. import model
from ..canon import encode, results
from ..gen import scenario
from ..impl import scen, workers
from ..sexp import Sym

FUEL = 400


def compare_generated(run, g, engine="C01"):
    """-> number of modules compared; reports disagreements on run."""
    S = g.schema
    cfg = g.res.get("config", {})
    sc_cfg = encode.scalars_cfg(cfg)
    custom = {x[1] for x in sc_cfg}
    enums = {n for n, t in S.type_map.items() if isinstance(t, GraphQLEnumType)}
    frs = [d for d in g.doc.definitions if isinstance(d, FragmentDefinitionNode)]
    C = [cfg.get("convert_to_snake_case", True), sc_cfg]
    es, ef = encode.schema(S), [encode.frag(f) for f in frs]
    cmds, keys = [], []
    for op in g.operations():
        cmds.append([Sym("classes"), FUEL, C, es, ef, encode.operation(op)])
        keys.append(("op", op.name.value if op.name else "", scen.method_name(op.name.value) + ".py" if op.name else None))
    for f in frs:
        cmds.append([Sym("classes"), FUEL, C, es, ef, [Sym("frag"), encode.frag(f)]])
        keys.append(("frag", f.name.value, cfg.get("fragments_module_name", "fragments") + ".py"))
    res = model.batch(engine, cmds, jobs=1)
    rep_base = {"seed": g.sc.seed, "features": list(g.sc.features), "schema": g.sc.sdl, "queries": g.sc.queries,
                "config": cfg}
    model_errs = [(k, r) for k, r in zip(keys, res) if r[0] != "ok"]
    if not g.ok:
        exc = g.res.get("exc") or ["?", "?"]
        run.dist("k1", "generator-raised")
        if model_errs:
            k, r = model_errs[0]
            want = r[1].split(":")[0]
            if want not in exc[0] and want != "fuel":
                run.violation(f"K1: model predicts {r[1]!r} for {k[1]} but the generator raised {exc[0]}: {exc[1][:200]}",
                              dict(rep_base, model=r, impl=exc), found_input=False)
            else:
                run.dist("k1", "error-agrees:" + want)
        return 0
    if model_errs:
        k, r = model_errs[0]
        run.violation(f"K1: model predicts {r[1]!r} for {k[0]} {k[1]} but the generator succeeded",
                      dict(rep_base, model=r), found_input=False)
        return 0
    files = g.files()
    n = 0
    frag_model = {}
    for k, r in zip(keys, res):
        if k[0] == "frag":
            frag_model.update(results.as_map(results.from_model(r[1])))
            continue
        n += 1
        try:
            impl = results.as_map(results.classes(files[k[2]], enums, custom))
        except (results.CanonError, KeyError, SyntaxError) as exc:
            run.violation(f"K1: cannot read generated module {k[2]}: {exc}", dict(rep_base, module=k[2]), found_input=False)
            continue
        mod = results.as_map(results.from_model(r[1]))
        if mod != impl:
            bad = next(c for c in sorted(set(mod) | set(impl)) if mod.get(c) != impl.get(c))
            run.violation(f"K1: result classes of {k[2]} differ from Model/Results.v at class {bad}",
                          dict(rep_base, module=k[2], cls=bad, model=mod.get(bad), impl=impl.get(bad)),
                          found_input=False)
        else:
            run.dist("k1", "operation-module-equal")
    fname = cfg.get("fragments_module_name", "fragments") + ".py"
    if fname in files:
        n += 1
        try:
            impl = results.as_map(results.classes(files[fname], enums, custom))
        except (results.CanonError, SyntaxError) as exc:
            run.violation(f"K1: cannot read generated module {fname}: {exc}", dict(rep_base, module=fname), found_input=False)
            return n
        # the fragments module holds the classes of the fragments that were not excluded
        missing = {c: v for c, v in impl.items() if frag_model.get(c) != v}
        if missing:
            bad = sorted(missing)[0]
            run.violation(f"K1: fragments module class {bad} differs from Model/Results.v",
                          dict(rep_base, module=fname, cls=bad, model=frag_model.get(bad), impl=impl.get(bad)),
                          found_input=False)
        else:
            run.dist("k1", "fragments-module-equal")
    return n


def corpus_scenarios(prop="C01"):
    """hand-written regression scenarios (minimised shapes of past findings and seeded changes): run first"""
    import glob
    import json
    import os
    from graphql import build_schema, parse, validate
    out = []
    root = os.path.join(os.environ.get("VERIF_ROOT", "/verif"), "corpus", prop)
    for i, f in enumerate(sorted(glob.glob(os.path.join(root, "*.json")))):
        d = json.load(open(f))
        errs = validate(build_schema(d["sdl"]), parse(d["queries"]))
        if errs:
            raise RuntimeError(f"corpus scenario {f} is not valid GraphQL: {errs[0]}")
        out.append(scenario.Scenario(seed=900000 + i, sdl=d["sdl"], queries=d["queries"], config=d.get("config", {}),
                                     features=("corpus",), notes={"name": d["name"]}))
    return out


def run_k1(ctx, n_main=None):
    run = ctx.run
    n_main = n_main or (30 if not ctx.thorough else 250)
    n_exotic = 10 if not ctx.thorough else 60
    base = ctx.seed * 100000 + 500
    scs = corpus_scenarios()
    for si, (feats, n) in enumerate([((), n_main), (("foreign_cond",), n_exotic), (("cond_fragment",), n_exotic),
                                     (("untyped_inline",), n_exotic), (("weird_names",), n_exotic)]):
        for i in range(n):
            try:
                scs.append(scenario.make(base + 10000 * si + i, feats))
            except RuntimeError:
                pass
    total = 0
    with workers.Scratch() as sc:
        gens = scen.generate(scs, sc)
        for g in gens:
            total += compare_generated(run, g)
            run.count()
        # generation must not depend on what the same interpreter generated before: regenerate every scenario
        # in ONE worker process, in reverse order (fragment / type / operation names repeat across scenarios),
        # and compare every file byte for byte with the pooled generation
        ok = [g for g in gens if g.ok]
        again = scen.generate([g.sc for g in reversed(ok)], sc, jobs=1)
        for g, h in zip(reversed(ok), again):
            run.count()
            if not h.ok:
                run.violation(f"scenario {g.sc.seed} generates in a fresh process but fails after other generations in "
                              f"the same interpreter: {h.res.get('exc')}",
                              {"seed": g.sc.seed, "schema": g.sc.sdl, "queries": g.sc.queries, "config": g.res.get("config"),
                               "exception": h.res.get("exc")})
                continue
            fa, fb = g.files(), h.files()
            diff = sorted(k for k in set(fa) | set(fb) if fa.get(k) != fb.get(k))
            if diff:
                run.violation(f"generated files of scenario {g.sc.seed} depend on what the interpreter generated before: "
                              f"{diff[:4]} differ",
                              {"seed": g.sc.seed, "schema": g.sc.sdl, "queries": g.sc.queries, "config": g.res.get("config"),
                               "files": diff, "first": fa.get(diff[0], "")[:1500], "second": fb.get(diff[0], "")[:1500]})
            else:
                run.dist("k1", "same-after-other-generations")
    run.extra["k1_modules_compared"] = total
    return total
