"""C13, RUNTIME-ONLY part: execute_ws against a real `websockets` server on 127.0.0.1.

Checks (a) the handshake of the UNCHANGED client code against the installed websockets (the project
requires websockets>=14.2): subprotocol, configured headers, origin; (b) on a sample of frame
sequences that what the server receives / the consumer gets / the terminal outcome equal the model's
prediction — which also validates the scripted fake connection used by the exhaustive sweep.
No theorem covers this part; it is labelled runtime-only in the evidence.
"""
from __future__ import annotations

import asyncio
import itertools
import time

from .. import model
from ..sexp import Sym
from .c13 import CFG_BASE, CFG_SIDE, INIT, LETTERS, OPNAME, QUERY, mk_frame


def _model(I, variant, cfg, vname, frames, fx):
    rq = I.request_sx(QUERY, OPNAME, fx[vname][1])
    r = model.call("C13", [Sym("ws"), variant, I.cfg_sx(cfg), rq, [I.frame_sx(f) for f in frames]])
    if model.is_error(r):
        raise RuntimeError(f"model error {r}")
    return I.decode_trace(r)


def run(ctx, k1_clean: bool):
    run = ctx.run
    from . import c13_impl as I
    import websockets

    fx = I.vars_fixtures()
    t0 = time.time()
    info = {"label": "runtime-only (real websockets server on 127.0.0.1; no theorem covers the handshake)",
            "websockets_version": websockets.__version__, "connections": 0, "retries": 0, "mismatches": 0}
    run.extra["real_server"] = info
    loop = asyncio.new_event_loop()
    try:
        # ---- (a) handshake of the unchanged code
        cfg = CFG_SIDE["headers+origin"]
        frames = [mk_frame("ack", 0), mk_frame("next", 1), mk_frame("complete", 2)]
        mt = _model(I, "plain", cfg, "rich", frames, fx)
        exp = I.project(mt)
        adapter = False
        for variant in I.VARIANTS:
            r = loop.run_until_complete(I.real_case(variant, cfg, QUERY, OPNAME, fx["rich"][0], frames, len(exp["sent"]), False))
            info["connections"] += 1
            if r["exc"] and "extra_headers" in r["exc"] and r["exc"].startswith("TypeError"):
                adapter = True
                run.finding("F13-extra-headers",
                            f"{variant}: handshake with websockets {websockets.__version__} fails before connecting: {r['exc']}",
                            {"variant": variant, "cfg": cfg, "frames": [list(f) for f in frames], "exception": r["exc"],
                             "websockets": websockets.__version__})
                run.dist("real_server", "handshake-fails-F13")
            elif r["exc"]:
                run.violation(f"real handshake ({variant}) failed: {r['exc']}",
                              {"variant": variant, "cfg": cfg, "frames": [list(f) for f in frames], "result": r})
            else:
                run.dist("real_server", "handshake-ok-unadapted")
        info["adapter_extra_headers_to_additional_headers"] = adapter
        info["handshake_unchanged_code"] = "fails (F13 is back)" if adapter else "succeeds"
        # ---- (b) sample of sequences
        n = len(LETTERS)
        seqs = [()] + [p for L in (1, 2) for p in itertools.product(range(n), repeat=L)]
        rng = ctx.rng
        for _ in range(900 if ctx.thorough else 110):
            L = rng.randint(3, 6)
            s = [0] if rng.random() < 0.85 else [rng.randrange(n)]
            s += [rng.choice([1, 1, 1, 2, 3, 4, 5, 5, 6, 7, 7, 8, 9, 10, 11, 12]) for _ in range(L - 1)]
            seqs.append(tuple(s))
        cfgs = [("base", dict(CFG_BASE)), ("headers+origin", CFG_SIDE["headers+origin"]),
                ("kw-headers-merge", CFG_SIDE["kw-headers-merge"]), ("kw-origin-override", {"origin": "https://o.test", "kw_other": {"origin": "https://kw.test"}})]
        shown = 0
        for si, idx in enumerate(seqs):
            letters = [LETTERS[i] for i in idx]
            frames = [mk_frame(l, i) for i, l in enumerate(letters)]
            variant = I.VARIANTS[si % 3]
            cname, cfg = cfgs[(si // 3) % len(cfgs)]
            cfg = dict(cfg, init_payload=INIT["set" if (si // 2) % 2 else "unset"])
            vname = "rich" if (si // 5) % 2 else "none"
            mt = _model(I, variant, cfg, vname, frames, fx)
            exp = I.project(mt)
            fake = I.project(I.run_fake(variant, cfg, QUERY, OPNAME, fx[vname][0], frames))
            problems = None
            for attempt in range(3):
                r = loop.run_until_complete(I.real_case(variant, cfg, QUERY, OPNAME, fx[vname][0], frames,
                                                       len(exp["sent"]), adapter, timeout=1.0))
                info["connections"] += 1
                problems = []
                fin = r["fin"] if isinstance(r["fin"], str) else ([r["fin"][0]] + (r["fin"][1:] if r["fin"][0] == "multi" else []))
                if I.strict(r["sent"]) != I.strict(exp["sent"]):
                    problems.append("messages received by the server differ from the model")
                if I.strict(r["yielded"]) != I.strict(exp["yielded"]):
                    problems.append("yielded values differ from the model")
                if I.strict(fin) != I.strict(exp["fin"]):
                    problems.append(f"outcome {fin} differs from the model {exp['fin']}")
                if not k1_clean:
                    pass
                elif I.strict({k: fake[k] for k in ("sent", "yielded", "fin")}) != I.strict({"sent": r["sent"], "yielded": r["yielded"], "fin": fin}):
                    problems.append("fake connection run differs from the real server run")
                sv = r["server"]
                if r["exc"] is None or "got" in sv and sv["got"]:
                    if sv.get("subprotocol") != "graphql-transport-ws":
                        problems.append(f"negotiated subprotocol {sv.get('subprotocol')!r}")
                    hd = sv.get("headers", {})
                    want = dict(cfg.get("headers") or {})
                    want.update(cfg.get("kw_headers") or {})
                    for k, v in want.items():
                        if hd.get(k.lower()) != v:
                            problems.append(f"header {k} not received as configured ({hd.get(k.lower())!r})")
                    worigin = (cfg.get("kw_other") or {}).get("origin", cfg.get("origin"))
                    if (hd.get("origin") or None) != (worigin or None):
                        problems.append(f"origin {hd.get('origin')!r} != configured {worigin!r}")
                    if sv.get("order") != "init-before-any-frame":
                        problems.append("server did not get connection_init first")
                if sv.get("notes"):
                    problems.append("server notes: %s" % sv["notes"])
                if not problems:
                    break
                info["retries"] += 1
            run.dist("real_server", "len%d" % len(frames))
            run.dist("real_server_outcome", exp["fin"][0] if isinstance(exp["fin"], list) else exp["fin"])
            if problems and info["mismatches"] >= 5:
                info["aborted"] = "sample stopped after 6 mismatching cases"
                break
            if problems:
                info["mismatches"] += 1
                if info["mismatches"] <= 3:
                    run.violation("real websockets server run (%s, %s) on frames %s: %s" % (variant, cname, letters, "; ".join(problems)),
                                  {"variant": variant, "cfg": cfg, "vars": vname, "letters": letters,
                                   "frames": [list(f) for f in frames], "real": r, "model": exp, "fake": fake,
                                   "adapter": adapter}, found_input=True)
            elif shown < 2 and len(frames) >= 3 and letters[0] == "ack":
                shown += 1
                run.sample({"real_server_case": letters, "variant": variant, "config": cname,
                            "server_received": r["sent"], "yielded": r["yielded"], "outcome": r["fin"],
                            "handshake": {"subprotocol": r["server"].get("subprotocol"),
                                          "origin": r["server"].get("headers", {}).get("origin"),
                                          "path": r["server"].get("path")}}, limit=10)
        run.count(info["connections"])
    finally:
        loop.close()
    info["wall_s"] = round(time.time() - t0, 1)
