"""C12 — Every HTTP response is classified into exactly one documented outcome.

K1: Model/GetData.v (extracted) vs get_data of the four bundled base clients (six variants with the
    tracer on/off), on the exhaustive table status codes x body classes plus a random JSON stream.
    Each response is produced by httpx.MockTransport for a real `execute` call, then `get_data`.
    Compared: outcome kind, exception class identity, status_code, `response is response`,
    every error's message/locations/path/extensions/original, partial data, returned data.
K3: the property's text evaluated directly on the real code (independent of the model) for every
    body inside the property's restriction (errors absent or a list of objects with a message);
    this is also the failing-input search: the smallest failing (status, body) is the replay.
K3m: generated clients (sync/async x plain/OpenTelemetry) driven through their methods
    (c12_methods.py): method returns model_validate(data) exactly when get_data returns data.
"""
from __future__ import annotations

import json
import os
from concurrent.futures import ProcessPoolExecutor

from .. import model
from ..sexp import Sym, json_sx, sx_json
from . import _clients
from ._clients import canon

STATUSES_STD = [100, 101, 199, 200, 201, 202, 204, 206, 226, 299, 300, 301, 304, 399, 400, 401, 404, 418,
                429, 499, 500, 502, 503, 599]
STATUSES_ODD = [-1, 0, 99, 600, 999, 1000]

E1 = {"message": "boom"}
E2 = {"message": "second", "path": ["a", 0, "b"]}
EFULL = {"message": "full", "locations": [{"line": 1, "column": 2}], "path": ["q", 1],
         "extensions": {"code": "X", "n": [1, None]}, "other": True}
ENULLS = {"message": "nulls", "locations": None, "path": None, "extensions": None}
ENONSTR = {"message": None}

DATA_SHAPES = [("absent", ...), ("null", None), ("empty-obj", {}), ("obj", {"a": 1, "b": {"c": [1, "x", None]}}),
               ("obj-nullfield", {"a": None}), ("list", []), ("zero", 0), ("str", "x"), ("false", False),
               ("float", {"f": 1.5})]
ERR_SHAPES = [
    # (name, value, spec_shaped)
    ("absent", ..., True), ("empty-list", [], True), ("one", [E1], True), ("two", [E1, E2], True),
    ("full", [EFULL], True), ("nulls+full", [ENULLS, EFULL, E1], True), ("msg-null", [ENONSTR], True),
    ("dup-errors", [E1, E1], True),
    # outside the property's restriction (not a list of objects with a message): K1 only
    ("null", None, False), ("empty-obj", {}, False), ("zero", 0, False), ("empty-str", "", False),
    ("false", False, False), ("zero-float", 0.0, False), ("str", "boom", False), ("obj", {"message": "x"}, False),
    ("int", 5, False), ("true", True, False), ("float", 1.5, False), ("list-int", [1], False),
    ("list-nomsg", [{"x": 1}], False), ("list-msg-then-int", [E1, 5], False),
    ("list-int-then-nomsg", [5, {"x": 1}], False), ("list-nomsg-then-int", [{"x": 1}, 5], False),
    ("list-list", [[]], False), ("list-str", ["s"], False), ("list-null", [None], False),
]
EXTRAS = [("none", {}), ("extensions", {"extensions": {"trace": 1}})]

NON_JSON = [("empty", b""), ("text", b"not json"), ("html", b"<html><body>502</body></html>"),
            ("truncated", b'{"data": '), ("open-brace", b"{"), ("invalid-utf8", b"\x80abc"),
            ("bad-utf16", b"\xff\xfe\x00"), ("single-quotes", b"{'data': 1}"),
            ("trailing", b'{"data": 1} x'), ("two-docs", b'{"data": 1}{"data": 2}')]
NON_OBJECT = [None, True, False, 0, 1, -1, 1.5, "", "data", [], [1], [{"data": 1}], ["data", "errors"],
              [{"errors": [E1]}]]


class Case:
    __slots__ = ("cls", "raw", "body", "spec")

    def __init__(self, cls, raw, body, spec):
        self.cls, self.raw, self.body, self.spec = cls, raw, body, spec  # body: ("none",) | ("some", value)


def body_cases(ctx):
    cases = []
    # corpus first: the inputs of Example C12_examples (Properties/C12.v), replayed on the real code
    err1 = {"message": "boom", "path": ["a", 0]}
    for v in ({"data": {"a": 1}}, {"errors": []}, {"data": None, "errors": [err1]}, {"extensions": {}},
              {"data": {"a": None}, "errors": [err1]}, {"errors": "boom"}, {"errors": [{"msg": "x"}]}):
        cases.append(Case("coq-example", json.dumps(v).encode(), ("some", v), py_spec_body(v)))
    cases.append(Case("coq-example", b"", ("none",), True))
    for name, raw in NON_JSON:
        try:
            json.loads(raw)
            raise RuntimeError(f"generator: {raw!r} is JSON")
        except ValueError:
            pass
        cases.append(Case(f"nonjson:{name}", raw, ("none",), True))
    for v in NON_OBJECT:
        cases.append(Case(f"nonobject:{type(v).__name__}", json.dumps(v).encode(), ("some", v), True))
    for dn, d in DATA_SHAPES:
        for en, e, spec in ERR_SHAPES:
            for xn, x in EXTRAS:
                obj = {}
                if d is not ...:
                    obj["data"] = d
                obj.update(x)
                if e is not ...:
                    obj["errors"] = e
                cases.append(Case(f"object:data={dn}:errors={en}:extra={xn}", json.dumps(obj).encode(), ("some", obj), spec))
    # encodings / lexical variants of valid JSON (value known by construction)
    o = {"data": {"a": "żółw"}}
    cases.append(Case("object:utf16", json.dumps(o).encode("utf-16"), ("some", o), True))
    cases.append(Case("object:utf8-bom-less-unicode", json.dumps(o, ensure_ascii=False).encode(), ("some", o), True))
    cases.append(Case("object:dup-key-last-wins", b'{"data": {"a": 1}, "data": {"a": 2}}', ("some", {"data": {"a": 2}}), True))
    cases.append(Case("object:dup-errors-last-wins", b'{"errors": [{"message": "m"}], "data": 1, "errors": []}',
                      ("some", {"errors": [], "data": 1}), True))
    cases.append(Case("object:whitespace", b' \n{ "data" : { } }\n ', ("some", {"data": {}}), True))
    cases.append(Case("object:bigint", b'{"data": {"n": 123456789012345678901234567890}}',
                      ("some", {"data": {"n": 123456789012345678901234567890}}), True))
    # random stream
    rng = ctx.rng
    keys = ["data", "errors", "message", "locations", "path", "extensions", "x"]

    def rnd(depth):
        r = rng.random()
        if depth <= 0 or r < 0.35:
            return rng.choice([None, True, False, 0, 1, -3, 2.5, "", "s", "message"])
        if r < 0.6:
            return [rnd(depth - 1) for _ in range(rng.randint(0, 3))]
        return {k: rnd(depth - 1) for k in rng.sample(keys, rng.randint(0, 4))}

    def rnd_body():
        r = rng.random()
        if r < 0.1:
            return rnd(2)
        obj = {}
        if rng.random() < 0.7:
            obj["data"] = rnd(3)
        if rng.random() < 0.7:
            k = rng.random()
            if k < 0.6:
                obj["errors"] = [dict({"message": rng.choice(["m", "", None, 3])}, **{kk: rnd(2) for kk in rng.sample(keys[3:], rng.randint(0, 3))})
                                 for _ in range(rng.randint(0, 3))]
            else:
                obj["errors"] = rnd(2)
        if rng.random() < 0.3:
            obj[rng.choice(["extensions", "x"])] = rnd(1)
        items = list(obj.items())
        rng.shuffle(items)
        return dict(items)

    for _ in range(6000 if ctx.thorough else 600):
        v = rnd_body()
        cases.append(Case("random", json.dumps(v).encode(), ("some", v), py_spec_body(v)))
    return cases


def py_spec_body(v) -> bool:
    """the property's restriction: errors, when present, is a list of objects each with a message"""
    if not isinstance(v, dict) or "errors" not in v:
        return True
    e = v["errors"]
    return isinstance(e, list) and all(isinstance(x, dict) and "message" in x for x in e)


# ---------- running the implementation ----------
QUERY = "query Q { x }"
MUTATION = "mutation Q($file: Upload!) { up(file: $file) }"
PATHS = ("json", "multipart")


def observe(v, client, resp):
    m = v.mod
    exc_mod = _clients.dep_module("exceptions")
    try:
        d = client.get_data(resp)
    except Exception as e:  # noqa: BLE001 — every escaping exception is an observation
        t = type(e)
        if not (getattr(m, t.__name__, None) is t or t.__module__.startswith("builtins")):
            return ("crash", f"{t.__module__}.{t.__name__}")
        try:
            text = ("str", str(e))
        except Exception as se:  # noqa: BLE001 — __str__ returning a non-string
            text = ("str-raises", type(se).__name__)
        # the caller's view: which of the documented classes does `except <class>` catch?  "exactly one documented
        # outcome" = exactly one of them, so every order of except clauses ends in the same handler
        docs = (exc_mod.GraphQLClientHttpError, exc_mod.GraphQLClientInvalidResponseError, exc_mod.GraphQLClientGraphQLMultiError)
        caught = tuple(isinstance(e, c) for c in docs)
        if t is exc_mod.GraphQLClientHttpError and m.GraphQLClientHttpError is t:
            return ("http", e.status_code, e.response is resp, isinstance(e, exc_mod.GraphQLClientError), caught, text)
        if t is exc_mod.GraphQLClientInvalidResponseError and m.GraphQLClientInvalidResponseError is t:
            return ("invalid", e.response is resp, isinstance(e, exc_mod.GraphQLClientError), caught, text)
        if t is exc_mod.GraphQLClientGraphQLMultiError and m.GraphQLClientGraphQLMultiError is t:
            errs = []
            for g in e.errors:
                if type(g) is not exc_mod.GraphQLClientGraphQLError:
                    return ("crash", f"error object of type {type(g).__name__}")
                errs.append((canon(g.message), canon(g.locations), canon(g.path), canon(g.extensions), canon(g.original)))
            return ("multi", errs, canon(e.data), isinstance(e, exc_mod.GraphQLClientError), caught, text)
        return ("crash", t.__name__)
    return ("data", canon(d))


def _worker(args):
    vi, cases = args
    import httpx

    v = _clients.variants()[vi]
    cur = {}

    def handler(request):
        return httpx.Response(cur["st"], content=cur["raw"], headers=({"content-type": cur["ct"]} if cur["ct"] else {}))

    import io

    bm = _clients.dep_module("base_model")

    def variables_of(path):
        # both request paths of execute: JSON, and multipart (an Upload among the variables)
        if path == "json":
            return {}
        return {"file": bm.Upload(filename="f.txt", content=io.BytesIO(b"data"), content_type="text/plain")}

    out = []
    if v.is_async:
        async def go():
            client = v.make(httpx.MockTransport(handler))
            for st, raw, ct in cases:
                cur["st"], cur["raw"], cur["ct"] = st, raw, ct
                pair = []
                for path in PATHS:
                    try:
                        resp = await client.execute(QUERY if path == "json" else MUTATION, operation_name="Q",
                                                    variables=variables_of(path))
                    except Exception as e:  # noqa: BLE001 — nothing may escape execute for a scripted response
                        pair.append(("execute-raised", f"{type(e).__module__}.{type(e).__name__}"))
                        continue
                    pair.append(observe(v, client, resp))
                out.append(tuple(pair))
            await client.http_client.aclose()
        _clients.run_coro(go())
    else:
        client = v.make(httpx.MockTransport(handler))
        for st, raw, ct in cases:
            cur["st"], cur["raw"], cur["ct"] = st, raw, ct
            pair = []
            for path in PATHS:
                try:
                    resp = client.execute(QUERY if path == "json" else MUTATION, operation_name="Q", variables=variables_of(path))
                except Exception as e:  # noqa: BLE001
                    pair.append(("execute-raised", f"{type(e).__module__}.{type(e).__name__}"))
                    continue
                pair.append(observe(v, client, resp))
            out.append(tuple(pair))
        client.http_client.close()
    return v.name, out


# ---------- model outcome -> the same canonical form ----------
def model_obs(r):
    o = r[0]
    kind = o[0]
    text = ("str-raises", "TypeError") if r[3] == "none" else ("str", r[3][1])
    if kind == "http":
        return ("http", int(o[1]), True, True, (True, False, False), text)
    if kind == "invalid":
        return ("invalid", True, True, (False, True, False), text)
    if kind == "multi":
        return ("multi", [tuple(canon(sx_json(x)) for x in g) for g in o[1]], canon(sx_json(o[2])), True,
                (False, False, True), text)
    if kind == "data":
        return ("data", canon(sx_json(o[1])))
    if kind == "crash":
        return ("crash", o[1])
    raise ValueError(f"model answered {r!r}")


# ---------- the property text, directly (K3) ----------
def k3_expected(st, case):
    """None when the property text does not judge the input (errors not spec-shaped)."""
    if not (200 <= st <= 299):
        return ("http", st, True, True, (True, False, False))
    if case.body == ("none",):
        return ("invalid", True, True, (False, True, False))
    v = case.body[1]
    if not isinstance(v, dict) or ("data" not in v and "errors" not in v):
        return ("invalid", True, True, (False, True, False))
    if not case.spec:
        return None
    errs = v.get("errors")
    if errs:
        return ("multi", [(canon(e["message"]), canon(e.get("locations")), canon(e.get("path")),
                           canon(e.get("extensions")), canon(e)) for e in errs], canon(v.get("data")), True,
                (False, False, True))
    return ("data", canon(v.get("data")))


def run(ctx):
    run = ctx.run
    run.rule = ("exhaustive table: 30 status codes (24 standard incl. every class boundary + 6 out-of-range) x "
                "body classes (10 non-JSON byte strings, 14 JSON non-objects, 10 data shapes x 27 errors shapes x "
                "2 extra-key settings, encoding/duplicate-key variants) + seeded random JSON bodies, each through "
                "execute+get_data of 8 client variants (the OpenTelemetry clients also with a no-op tracer and with a RECORDING tracer); a case is non-trivial when the status is 2xx (the body decides "
                "the outcome); distinct by (status, body bytes)")
    run.assumptions += [
        "CPython json.loads / httpx.Response.json decide what is JSON (bodies are JSON or not by construction)",
        "httpx.Response.is_success is 200..299 (re-measured by the table: every status is run)",
        "model_validate of the generated result model is pydantic's (C01); here only its composition with get_data",
    ]
    variants = _clients.variants()
    run.extra["clients"] = [v.name for v in variants]
    from . import src_consts
    src_consts.check_c12(run, model.call("C12", [Sym("constants")]))
    bodies = body_cases(ctx)
    statuses = STATUSES_STD + STATUSES_ODD
    cells = [(st, c) for c in bodies for st in statuses]
    cmds = [[Sym("get_data"), st, (Sym("none") if c.body == ("none",) else [Sym("some"), json_sx(c.body[1])])] for st, c in cells]
    mres = model.batch("C12", cmds)
    for r in mres:
        if model.is_error(r):
            run.broken("model", repr(r))
            return
    # K2-ish sanity inside the model answers: hypotheses partition, spec flag agrees with the harness predicate
    for (st, c), r in zip(cells, mres):
        hs = r[1]
        if sum(h == "t" for h in hs) != 1:
            run.broken("model partition", f"{st} {c.raw!r} {hs}")
        if c.body != ("none",) and (r[2] == "t") != py_spec_body(c.body[1]):
            run.broken("spec_body predicate", f"harness and model disagree on {c.raw!r}")
    # the response's Content-Type is not in the property's decision table: varied over the cells, outcome must not move
    ctypes = ["application/json", "application/graphql-response+json", "text/html; charset=utf-8", None]
    cell_ct = [ctypes[(i // len(statuses) + i % len(statuses)) % len(ctypes)] for i in range(len(cells))]
    raw_cases = [(st, c.raw, ct) for (st, c), ct in zip(cells, cell_ct)]
    for ct in cell_ct:
        run.dist("response_content_type", str(ct))
    with ProcessPoolExecutor(max_workers=len(variants)) as ex:
        results = list(ex.map(_worker, [(i, raw_cases) for i in range(len(variants))]))
    k1_bad, k3_fail = [], []
    kinds = {}
    for vname, obs in results:
        if len(obs) != len(cells):
            run.broken("impl run", f"{vname}: {len(obs)} of {len(cells)} observations")
            continue
        for (st, c), r, pair, ct in zip(cells, mres, obs, cell_ct):
            for path, o in zip(PATHS, pair):
                run.count()
                pv = f"{vname} [{path} request]"
                mo = model_obs(r)
                if o != mo:
                    k1_bad.append((pv, st, c, o, mo, ct))
                exp = k3_expected(st, c)
                if exp is not None and o[:len(exp)] != exp:
                    k3_fail.append((pv, st, c, o, exp, ct))
                elif exp is None and o[0] == "execute-raised":
                    # the response never reached get_data: "no other exception type escapes" fails whatever the body
                    k3_fail.append((pv, st, c, o, ("(any get_data outcome)",), ct))
            o = pair[0]
            if vname == results[0][0]:
                kinds[mo[0]] = kinds.get(mo[0], 0) + 1
                run.dist("status_class", "2xx" if 200 <= st <= 299 else ("out-of-range" if st in STATUSES_ODD else f"{st // 100}xx"))
                run.dist("body_class", c.cls.split(":")[0] + (":" + c.cls.split(":")[2] if c.cls.startswith("object:data") else ""))
                run.dist("in_property_restriction", str(c.spec))
                if 200 <= st <= 299:
                    run.nontrivial_case((st, c.raw))
    run.extra["outcome_kinds_model"] = kinds
    run.extra["cells"] = len(cells)
    run.extra["k1_disagreements"] = len(k1_bad)
    run.extra["k3_failures"] = len(k3_fail)
    run.exhaustive = True
    # ---- decide: K3 failures are property failures with a concrete input; the smallest is reported first ----
    k3_fail.sort(key=lambda t: (len(t[2].raw), abs(t[1] - 200), t[0]))
    seen = set()
    for vname, st, c, o, exp, ct in k3_fail:
        key = (c.cls, o[0], exp[0])
        if key in seen:
            continue
        seen.add(key)
        run.violation(
            f"{vname}: status {st} (response Content-Type {ct}) body {c.raw[:120]!r} ({c.cls}): property demands {exp[0]}, get_data gave {o[0]}"
            + (f"; `except` on the documented classes (Http, InvalidResponse, MultiError) matches {o[-2]}, exactly one must: {exp[-1]}"
               if o[0] == exp[0] and len(o) > 2 and isinstance(o[-2], tuple) and o[-2] != exp[-1] else ""),
            {"client": vname, "status": st, "response_content_type": ct, "body": c.raw.decode("latin-1"), "body_class": c.cls,
             "expected": exp, "observed": o})
        if len(seen) >= 8:
            break
    if k1_bad and not k3_fail:
        k1_bad.sort(key=lambda t: (len(t[2].raw), abs(t[1] - 200), t[0]))
        vname, st, c, o, mo, ct = k1_bad[0]
        run.violation(
            f"K1: model and {vname} disagree on status {st} body {c.raw[:120]!r}: impl {o} model {mo}; the property text "
            f"does not judge this input (errors member not spec-shaped) or agrees with the code",
            {"client": vname, "status": st, "response_content_type": ct, "body": c.raw.decode("latin-1"), "impl": o, "model": mo,
             "disagreements": len(k1_bad)}, found_input=False)
    want = {(200, "object:data=obj:errors=absent:extra=none"), (200, "object:data=obj-nullfield:errors=full:extra=none"),
            (500, "object:data=absent:errors=one:extra=none"), (200, "nonjson:html"),
            (200, "object:data=absent:errors=empty-list:extra=none"), (204, "nonjson:empty")}
    for i, (st, c) in enumerate(cells):
        if (st, c.cls) in want:
            run.sample({"status": st, "body": c.raw.decode("latin-1"), "class": c.cls, "observed": repr(results[0][1][i])})
    # ---- generated client methods ----
    try:
        from . import c12_methods
    except ImportError:
        c12_methods = None
    if c12_methods is not None:
        c12_methods.run(ctx)
