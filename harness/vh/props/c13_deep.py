"""C13 deepening: (1) model DATA derived from /repo's source on every run (fail closed), (2) the Coq
witnesses (`..._refuted`, regression Examples, non-vacuity Examples) replayed on the REAL code first,
(3) subscriptions overlapping in time on ONE client object (asyncio.gather over a fake connection that
suspends at every operation) compared with the same calls run alone and with the model."""
from __future__ import annotations

import ast
import asyncio
import inspect
import itertools
import json

from .. import model
from ..sexp import Sym


# ------------------------------------------------------------------------------------------------
def tables(run, I):
    t = model.call("C13", [Sym("tables")])
    if model.is_error(t):
        run.broken("K2 tables", f"model: {t}")
        return
    types, subproto, spans, ser_error, _idph = t
    types = [list(x) for x in types]
    info = {"type_table": types, "subprotocol": subproto, "span_names": list(spans)}
    run.extra["tables_from_source"] = info
    for mod in (I.PLAIN, I.OTEL):
        name = mod.__name__.rsplit(".", 1)[-1]
        enum = getattr(mod, "GraphQLTransportWSMessageType", None)
        if enum is None:
            run.broken("K2 type table", f"{name}: GraphQLTransportWSMessageType not found (derivation no longer applies)")
            continue
        src = [[m.name, m.value] for m in enum]
        if src != types:
            run.violation(f"K2 message-type table of {name} differs from the model's (Model/Ws.v type_table): {src} vs {types}",
                          {"module": name, "source": src, "model": types}, found_input=False)
        if getattr(mod, "GRAPHQL_TRANSPORT_WS", None) != subproto:
            run.violation(f"K2 subprotocol constant of {name}: {getattr(mod, 'GRAPHQL_TRANSPORT_WS', None)!r} vs model {subproto!r}",
                          {"module": name}, found_input=False)
        # the text of the "expected ack" error, read from the source
        try:
            tree = ast.parse(inspect.getsource(mod))
        except (OSError, SyntaxError) as e:
            run.broken("K2 source", f"{name}: {e}")
            continue
        texts = {c.value for n in ast.walk(tree) if isinstance(n, ast.JoinedStr)
                 for c in n.values if isinstance(c, ast.Constant) and isinstance(c.value, str)}
        want = I.EXPECTED_ACK_MSG.rsplit(" ", 1)[0] + " "
        if want not in texts:
            run.violation(f"K2 {name}: the f-string {want!r} of the expected-type error is no longer in the source",
                          {"module": name, "fstrings": sorted(texts)}, found_input=False)
    # span names of the telemetry variant
    try:
        tree = ast.parse(inspect.getsource(I.OTEL))
        found = set()
        for n in ast.walk(tree):
            if isinstance(n, (ast.AsyncFunctionDef, ast.FunctionDef)) and "ws" in n.name or \
                    isinstance(n, (ast.AsyncFunctionDef, ast.FunctionDef)) and n.name in (
                        "_send_connection_init_with_telemetry", "_send_subscribe_with_telemetry"):
                for c in ast.walk(n):
                    if isinstance(c, ast.Call) and isinstance(c.func, ast.Attribute) and c.func.attr == "start_as_current_span" \
                            and c.args and isinstance(c.args[0], ast.Constant):
                        found.add(c.args[0].value)
        default_root = inspect.signature(I.OTEL.AsyncBaseClientOpenTelemetry.__init__).parameters["ws_root_span_name"].default
        found.add(default_root)
        if found != set(spans):
            run.violation(f"K2 span names of the subscription path in the source {sorted(found)} vs model {sorted(spans)}",
                          {"source": sorted(found), "model": sorted(spans)}, found_input=False)
        info["span_names_in_source"] = sorted(found)
    except Exception as e:  # noqa: BLE001
        run.broken("K2 span names", repr(e))
    import pydantic_core

    if not hasattr(pydantic_core, ser_error):
        run.broken("K2 serialisation error class", ser_error)


# ------------------------------------------------------------------------------------------------
def fr(ty, **rest):
    return ("j", dict({"type": ty}, **rest))


ACK = fr("connection_ack")
D1 = {"x": 1}


def NEXT(d):
    return fr("next", payload={"data": d})


COMPLETE = fr("complete")
C0 = {"url": "ws://x"}
Q0 = ("subscription { x }", None)


def corpus_cases(I):
    """One entry per Coq witness of Properties/C13.v: (theorem, cfg, (query, opname), vars fixture, frames,
    expectation written by hand from the Coq statement)"""
    boom = [{"message": "boom"}]
    e_boom = fr("error", payload=boom)
    n_err = fr("next", payload={"data": None, "errors": boom})
    single = fr("error", payload={"message": "single object"})
    xdata = fr("next", payload="xdatax")
    unhash = ("j", {"type": ["next"]})
    return [
        ("C13_regression_null_data (errors raised)", C0, Q0, "none", [ACK, NEXT(D1), n_err, NEXT(D1)],
         {"fin": ["multi", boom, None], "yielded": [D1], "consumed": 3}),
        ("C13_regression_null_data (null without errors)", C0, Q0, "none", [ACK, NEXT(None)],
         {"fin": ["invalid", list(NEXT(None))], "yielded": []}),
        ("C13_regression_null_data (empty errors)", C0, Q0, "none",
         [ACK, fr("next", payload={"data": None, "errors": []})],
         {"fin": ["invalid", list(fr("next", payload={"data": None, "errors": []}))]}),
        ("C13_regression_shape (JSON array first)", C0, Q0, "none", [("j", [1, 2])],
         {"fin": ["invalid", ["j", [1, 2]]], "n_sent": 1}),
        ("C13_regression_shape (error payload single object)", C0, Q0, "none", [ACK, single],
         {"fin": ["invalid", list(single)]}),
        ("C13_regression_shape (error payload {})", C0, Q0, "none", [ACK, fr("error", payload={})],
         {"fin": ["invalid", list(fr("error", payload={}))]}),
        ("C13_regression_shape (next payload string containing data)", C0, Q0, "none", [ACK, NEXT(D1), xdata],
         {"fin": ["invalid", list(xdata)], "yielded": [D1]}),
        ("C13_regression_shape (unhashable type)", C0, Q0, "none", [ACK, unhash], {"fin": ["invalid", list(unhash)]}),
        ("C13_regression_shape (error without payload)", C0, Q0, "none", [ACK, fr("error")],
         {"fin": ["multi", [], {"type": "error"}]}),
        ("C13_regression_after_complete", C0, Q0, "none",
         [ACK, COMPLETE, NEXT(D1), fr("ping"), fr("error", payload=[{"message": "late"}])],
         {"fin": "finished", "yielded": [], "consumed": 2, "n_sent": 2, "closes": 1}),
        ("C13_regression_datetime_variable", C0, ("subscription($t: DateTime) { x(since: $t) }", "S"), "coq-datetime",
         [ACK], {"fin": "finished", "variables": {"t": "2024-01-02T03:04:05", "w": {"at": "2024-01-02T03:04:05"}}}),
        ("C13_regression_empty_object_data", C0, Q0, "none", [ACK, NEXT({}), NEXT(0), NEXT(""), NEXT(D1)],
         {"yielded": [{}, 0, "", D1], "fin": "finished"}),
        ("C13_rich_example", {"url": "ws://h/g", "headers": {"X-A": "1", "X-B": "2"}, "origin": "https://o",
                              "init_payload": {"token": "t"}, "kw_headers": {"X-B": "over"},
                              "kw_other": {"open_timeout": 5}},
         ("subscription S($a: Int) { count(a: $a) }", "S"), "coq-rich",
         [ACK, NEXT(D1), fr("ping"), fr("pong"), NEXT({"x": 2}), COMPLETE],
         {"yielded": [D1, {"x": 2}], "fin": "finished", "n_sent": 3,
          "kwargs": {"origin": "https://o", "open_timeout": 5, "extra_headers": {"X-A": "1", "X-B": "over"}},
          "variables": {"a": 1, "inp": {"fieldA": 1}, "lst": [{"k": 2}, 3]}}),
        ("C13_error_hypotheses_satisfiable", C0, Q0, "none", [ACK, NEXT(D1), fr("ping"), e_boom, NEXT(D1)],
         {"fin": ["multi", boom, e_boom[1]], "yielded": [D1]}),
    ]


def corpus(run, I):
    import datetime

    from pydantic import BaseModel as PBM

    fx = I.vars_fixtures()

    class K(I.BM.BaseModel):
        k: int

    class FA(I.BM.BaseModel):
        fieldA: int

    DT = datetime.datetime(2024, 1, 2, 3, 4, 5)
    j = lambda v: [Sym("j"), I.json_sx(v)]
    fx["coq-datetime"] = ({"t": DT, "w": I.WithDate(at=DT)},
                          [["t", [Sym("q"), I.json_sx(I.DT_JSON)]], ["w", [Sym("m"), False, I.json_sx({"at": I.DT_JSON})]]])
    fx["coq-rich"] = ({"a": 1, "skip": I.BM.UNSET, "inp": FA(fieldA=1), "lst": [K(k=2), 3]},
                      [["a", j(1)], ["skip", Sym("u")], ["inp", [Sym("m"), True, I.json_sx({"fieldA": 1})]],
                       ["lst", [Sym("l"), [Sym("m"), True, I.json_sx({"k": 2})], j(3)]]])
    n = bad = 0
    for name, cfg, (query, opname), vname, frames, exp in corpus_cases(I):
        cmd = [Sym("ws"), None, I.cfg_sx(cfg), I.request_sx(query, opname, fx[vname][1]), [I.frame_sx(f) for f in frames]]
        for v in I.VARIANTS:
            cmd[1] = v
            m = I.decode_trace(model.call("C13", cmd))
            tr = I.run_fake(v, cfg, query, opname, fx[vname][0], frames)
            n += 1
            run.count()
            problems = [k for k in ("connect", "events", "fin", "spans") if I.strict(tr[k]) != I.strict(m[k])]
            problems = ["model/code differ in " + k for k in problems]
            obs = I.project(tr)
            sub = [x for x in obs["sent"] if isinstance(x, dict) and x.get("type") == "subscribe"]
            got = {"yielded": obs["yielded"], "fin": tr["fin"],
                   "n_sent": len(obs["sent"]), "closes": obs["closes"],
                   "consumed": sum(1 for e in tr["events"] if e == "r"),
                   "kwargs": tr["connect"][2] if tr["connect"] else None,
                   "variables": sub[0]["payload"].get("variables") if sub else None}
            for k, want in exp.items():
                if I.strict(got[k]) != I.strict(want):
                    problems.append(f"{k}: the Coq statement says {want!r}, the real code gives {got[k]!r}")
            if problems:
                bad += 1
                run.violation(f"corpus: Coq witness {name} replayed on the real code ({v}): " + "; ".join(problems),
                              {"theorem": name, "variant": v, "cfg": cfg, "vars": vname, "frames": [list(f) for f in frames],
                               "impl": {k: tr[k] for k in ("connect", "events", "fin")}, "model": m, "expected": exp},
                              found_input=True)
    run.extra["corpus"] = {"witnesses": len(corpus_cases(I)), "runs": n, "failing": bad,
                           "what": "every _refuted / regression / non-vacuity witness of Properties/C13.v replayed first on the "
                                   "real code (3 client variants) against hand-written expectations taken from the Coq "
                                   "statements, and against the extracted model"}


# ------------------------------------------------------------------------------------------------
class SlowConn:
    """like c13_impl.FakeConn but every operation yields to the event loop first, so that subscriptions
    running under asyncio.gather interleave at every receive / send / close"""

    def __init__(self, frames, log):
        self.frames, self.pos, self.log, self.closed = frames, 0, log, False

    async def recv(self):
        from websockets.exceptions import ConnectionClosedOK

        await asyncio.sleep(0)
        if self.pos >= len(self.frames):
            raise ConnectionClosedOK(None, None)
        self.pos += 1
        self.log.append("r")
        return self.frames[self.pos - 1]

    def __aiter__(self):
        return self

    async def __anext__(self):
        await asyncio.sleep(0)
        if self.pos >= len(self.frames):
            raise StopAsyncIteration
        self.pos += 1
        self.log.append("r")
        return self.frames[self.pos - 1]

    async def send(self, msg):
        from websockets.exceptions import ConnectionClosedOK

        await asyncio.sleep(0)
        if self.closed:
            raise ConnectionClosedOK(None, None)
        self.log.append(["s", msg])

    async def close(self, *a, **k):
        await asyncio.sleep(0)
        self.closed = True
        self.log.append("c")


class SlowConnect:
    def __init__(self, frames, log):
        self.frames, self.log = frames, log
        self.calls, self.entered, self.exited = [], 0, 0

    async def __aenter__(self):
        await asyncio.sleep(0)
        self.entered += 1
        return SlowConn(self.frames, self.log)

    async def __aexit__(self, *a):
        await asyncio.sleep(0)
        self.exited += 1
        return False


SCRIPTS = {
    "stream": ["ack", "next", "ping", "next", "complete"],
    "long": ["ack", "ping", "next", "next", "pong", "ping", "next", "next-empty", "complete"],
    "error": ["ack", "next", "error", "next"],
    "no-ack": ["ping", "ack"],
    "closed": [],
    "malformed": ["ack", "next", "non-json"],
    "open-end": ["ack", "next", "next", "ping"],
}


def concurrent(run, I, rng, n_random):
    from .c13 import OPNAME, QUERY, mk_frame

    fx = I.vars_fixtures()
    cfg = {"url": "ws://b.test/g", "headers": {"Authorization": "Bearer t"}, "origin": "https://o.test",
           "init_payload": {"token": "secret"}}
    names = list(SCRIPTS)
    groups = [list(p) for p in itertools.product(names, repeat=2)]
    for _ in range(n_random):
        groups.append([rng.choice(names) for _ in range(rng.randint(3, 4))])
    bad, runs = 0, 0
    loop = asyncio.new_event_loop()
    try:
        for gi, group in enumerate(groups):
            variant = I.VARIANTS[gi % 3]
            calls = []
            for si, sn in enumerate(group):
                frames = [mk_frame(l, i) for i, l in enumerate(SCRIPTS[sn])]
                vname = "rich" if (gi + si) % 2 else "none"
                kw = {"extra_headers": {"X-Sub": str(si)}}
                if si % 2:
                    kw["open_timeout"] = si
                calls.append((sn, frames, vname, kw))
            mod, client, tracer = I.new_client(variant, cfg)
            state0 = _freeze_client(client)
            conns = {}

            def dispatch(*args, **kwargs):
                hd = kwargs.get("extra_headers") or kwargs.get("additional_headers") or {}
                sc = conns[hd.get("X-Sub")]
                sc.calls.append((args, kwargs))
                return sc

            logs = []
            for si, (sn, frames, vname, kw) in enumerate(calls):
                log = []
                logs.append(log)
                conns[str(si)] = SlowConnect([I.wire(f) for f in frames], log)

            async def consume(si, frames, vname, kw):
                try:
                    async for d in client.execute_ws(QUERY, OPNAME, fx[vname][0], **kw):
                        logs[si].append(["y", d])
                        await asyncio.sleep(0)
                    return None
                except BaseException as e:  # noqa: BLE001
                    return e

            old = mod.ws_connect
            mod.ws_connect = dispatch
            try:
                async def all_of_them():
                    return await asyncio.gather(*[consume(si, c[1], c[2], c[3]) for si, c in enumerate(calls)])

                excs = loop.run_until_complete(all_of_them())
            finally:
                mod.ws_connect = old
            for si, (sn, frames, vname, kw) in enumerate(calls):
                runs += 1
                wires = [I.wire(f) for f in frames]
                connect, events, fin = I.canon_run(logs[si], conns[str(si)], excs[si], wires, frames)
                solo = I.run_fake(variant, cfg, QUERY, OPNAME, fx[vname][0], frames, kwargs=dict(kw))
                c2 = dict(cfg, kw_headers=kw["extra_headers"], kw_other={k: v for k, v in kw.items() if k != "extra_headers"})
                m = I.decode_trace(model.call("C13", [Sym("ws"), variant, I.cfg_sx(c2), I.request_sx(QUERY, OPNAME, fx[vname][1]),
                                                      [I.frame_sx(f) for f in frames]]))
                problems = []
                for k, got in (("connect", connect), ("events", events), ("fin", fin)):
                    if I.strict(got) != I.strict(solo[k]):
                        problems.append(f"{k} differs from the same call run alone")
                    if I.strict(got) != I.strict(m[k]):
                        problems.append(f"{k} differs from the model")
                sc = conns[str(si)]
                if (len(sc.calls), sc.entered, sc.exited) != (1, 1, 1):
                    problems.append(f"connection context used {(len(sc.calls), sc.entered, sc.exited)} times")
                if problems:
                    bad += 1
                    if bad <= 3:
                        run.violation("concurrent: subscription #%d (%s) of %s overlapping on one client object (%s): %s" % (
                            si, sn, group, variant, "; ".join(problems)),
                            {"variant": variant, "group": group, "index": si, "scripts": {g: SCRIPTS[g] for g in group},
                             "overlapping": {"connect": connect, "events": events, "fin": fin},
                             "alone": {k: solo[k] for k in ("connect", "events", "fin")}, "model": m}, found_input=True)
            if _freeze_client(client) != state0:
                bad += 1
                if bad <= 3:
                    run.violation(f"concurrent: vars(client) changed by overlapping subscriptions {group} ({variant})",
                                  {"variant": variant, "group": group}, found_input=True)
            run.dist("concurrent", f"group-of-{len(group)}")
    finally:
        loop.close()
    run.count(runs)
    run.extra["concurrent"] = {"groups": len(groups), "subscriptions": runs, "failing": bad,
                               "what": "2-4 subscriptions on ONE client object under asyncio.gather over a fake connection that "
                                       "yields to the event loop at every recv/send/close/enter/exit (all ordered pairs of 7 scripts "
                                       "+ random groups of 3-4, rotating over the 3 client variants); each subscription's connect "
                                       "parameters, event log and outcome vs the same call run alone and vs the model; vars(client) unchanged"}


def _freeze_client(client):
    from . import _clients

    return _clients._freeze(vars(client))


# ------------------------------------------------------------------------------------------------
# The JSON-TEXT dimension of a frame.  The model classifies a frame by the JSON VALUE it carries; which
# texts / byte strings are a JSON value, and which value, is Python's json.loads — the function the client
# is specified to use (trusted base).  Here frames are given as raw str / bytes; the reference decides
# value / not-JSON, and the oracle is: a `next` frame the reference accepts is yielded and the stream goes
# on; a frame the reference rejects raises the invalid-message error carrying the frame.
def _deep(n):
    v = {"leaf": n}
    for i in range(n - 1):
        v = [v] if i % 2 == 0 else {"r": v}
    return v


def wire_cases():
    J = json.dumps
    nx = lambda data_text: '{"type": "next", "id": "1", "payload": {"data": ' + data_text + '}}'
    cases = []
    for d in (50, 150, 250, 400):
        cases.append((f"deep-{d}", nx(J({"thread": _deep(d)}))))
    cases.append(("deep-250-bytes", nx(J({"thread": _deep(250)})).encode()))
    cases += [
        ("lone-surrogate-escape", nx('{"s": "\\ud800 lone"}')),
        ("surrogate-pair-escape", nx('{"s": "\\ud83d\\ude00"}')),
        ("non-bmp-raw", nx('{"s": "\U0001F600 é"}')),
        ("nul-escape", nx('{"s": "a\\u0000b"}')),
        ("long-string-2MB", nx('{"s": "' + "x" * (2 * 1024 * 1024) + '"}')),
        ("many-keys", nx(J({f"k{i}": i for i in range(20000)}))),
        ("float-overflow-1e400", nx('{"x": 1e400, "y": -1E+400}')),
        ("negative-zero", nx('{"x": -0.0, "y": -0}')),
        ("int-2^63", nx('{"x": 9223372036854775808, "y": -9223372036854775809, "z": ' + "9" * 300 + '}')),
        ("float-underflow", nx('{"x": 1E-400, "y": 1.7976931348623157e308}')),
        ("NaN-Infinity-literals", nx('{"x": NaN, "y": Infinity, "z": -Infinity}')),
        ("whitespace-around", " \n\t" + nx('{"a": 1}') + " \r\n"),
        ("duplicate-payload-key", '{"type": "next", "payload": {"data": {"a": 1}}, "payload": {"data": {"a": 2}}}'),
        ("bytes-utf8", nx('{"s": "é中"}').encode("utf-8")),
        ("bytes-utf8-bom", b"\xef\xbb\xbf" + nx('{"a": 1}').encode("utf-8")),
        ("bytes-utf16-bom", nx('{"s": "é"}').encode("utf-16")),
        ("bytes-utf16-le", nx('{"a": 1}').encode("utf-16-le")),
        ("bytes-utf32", nx('{"a": 1}').encode("utf-32")),
        ("bytearray-utf8", bytearray(nx('{"a": 1}').encode("utf-8"))),
        # not JSON for the reference
        ("str-with-bom", "﻿" + nx('{"a": 1}')),
        ("trailing-garbage", nx('{"a": 1}') + " x"),
        ("single-quotes", "{'type': 'next'}"),
        ("truncated-deep", nx(J({"thread": _deep(150)}))[:-40]),
        ("empty-text", ""),
        ("empty-bytes", b""),
        ("bytes-invalid-utf8", b'{"type": "next", "payload": {"data": {"s": "\xff\xfe\xfd"}}}'),
    ]
    return cases


def wire_dimension(run, I):
    from .c13 import CFG_BASE, OPNAME, QUERY

    marker = {"type": "next", "id": "1", "payload": {"data": {"marker": True}}}
    ack = {"type": "connection_ack"}
    n = bad = 0
    dist = {}
    for name, raw in wire_cases():
        try:
            ref = ("value", json.loads(raw))
        except json.JSONDecodeError:
            ref = ("not-json", None)
        except UnicodeDecodeError:
            ref = ("undecodable", None)
        for position in ("stream", "ack-payload"):
            if position == "ack-payload":
                if ref[0] != "value":
                    continue
                # the same exotic value inside the payload of the ack
                if isinstance(raw, (bytes, bytearray)):
                    continue
                body = raw.strip()
                x = '{"type": "connection_ack", "payload": ' + body + '}'
                frames = [("raw", x), ("j", marker), ("j", {"type": "complete"})]
                want_y, want_fin = [marker["payload"]["data"]], "finished"
            else:
                frames = [("j", ack), ("raw", raw), ("j", marker), ("j", {"type": "complete"})]
                if ref[0] == "value":
                    want_y, want_fin = [ref[1]["payload"]["data"], marker["payload"]["data"]], "finished"
                else:
                    want_y, want_fin = [], "invalid"
            for v in I.VARIANTS:
                n += 1
                run.count()
                tr = I.run_fake(v, CFG_BASE, QUERY, OPNAME, None, frames)
                obs = I.project(tr)
                fin = tr["fin"] if isinstance(tr["fin"], str) else tr["fin"][0]
                problems = []
                if repr(obs["yielded"]) != repr(want_y):
                    problems.append("yielded %s, the reference (json.loads) says %s" % (_short(obs["yielded"]), _short(want_y)))
                if fin != want_fin:
                    problems.append(f"outcome {tr['fin'] if isinstance(tr['fin'], str) else tr['fin'][:2]} instead of {want_fin}")
                elif fin == "invalid" and tr["fin"][1] != ["raw", raw]:
                    problems.append("the invalid-message error does not carry the frame")
                dist[f"{ref[0]}"] = dist.get(ref[0], 0) + 1
                if problems:
                    bad += 1
                    rep = {"case": name, "variant": v, "position": position, "frame_repr": _short(raw, 400),
                           "frame_type": type(raw).__name__, "frame_length": len(raw),
                           "reference": ref[0], "observed_outcome": tr["fin"] if isinstance(tr["fin"], str) else tr["fin"][:2]}
                    what = "wire: frame %s (%s, %d %s) at position %s, %s client: %s" % (
                        name, type(raw).__name__, len(raw), "bytes" if not isinstance(raw, str) else "chars", position, v,
                        "; ".join(problems))
                    if bad <= 4:    # no class is open here any more (C13-undecodable-binary fixed by /repo 9eec336)
                        run.violation(what, rep, found_input=True)
    for k, c in dist.items():
        run.dist("wire_reference", k, c)
    run.extra["wire_dimension"] = {"cases": len(wire_cases()), "runs": n, "deviating": bad,
                                   "what": "frames as raw text / bytes: nesting 50..400 containers deep, lone surrogate escapes, "
                                           "2 MB strings, 20000 keys, 1e400 / -0.0 / 2^63 / NaN literals, duplicate keys, binary "
                                           "frames (utf-8, BOM, utf-16, utf-32, bytearray), and non-JSON texts; reference = "
                                           "json.loads (trusted base); accepted next frames must be yielded and the stream go on, "
                                           "rejected ones raise the invalid-message error carrying the frame"}


def _short(v, n=160):
    r = repr(v)
    return r if len(r) <= n else r[: n // 2] + " ... " + r[-n // 2:]
