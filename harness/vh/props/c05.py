"""C05 — result models are as strict as the schema."""
from . import k1_results, k3_results


def run(ctx):
    run = ctx.run
    run.rule = ("for every conformant response of every generated operation: all single-point corruptions (non-null "
                "position nulled, unconditional key removed, value replaced by each JSON kind outside pydantic's lax "
                "conversion table for its type, __typename replaced by a non-possible type) must be rejected by the "
                "generated client method; non-trivial = distinct (operation, response) whose corruptions were tried")
    run.assumptions += ["graphql-core 3.2.12 execute_sync is the reference executor", "pydantic 2.13 lax-mode table (DESIGN §5)"]
    k1_results.run_k1(ctx)
    k3_results.run_results(ctx, "C05")
