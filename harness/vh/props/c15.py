"""C15 — Bundled plugins preserve client behaviour apart from their documented change.

K3 (direct oracle, differential): every scenario is generated once without plugins and once per plugin
configuration (all 2^4 subsets of {ShorterResults, ExtractOperations, ClientForwardRefs, NoReimports}, both /
all orders of the members that interact, the identity plugin alone and inserted into other configurations).
Every distinct generated tree is imported in a fresh interpreter and every client method is driven under the
same scripted plans and the same arguments as the unplugged client:
   * files: only the files a plugin documents may differ (identity plugin: byte-identical tree);
   * the package imports, models are complete, __all__ is the unplugged one (+ the constants / emptied);
   * each method sends the same request (document modulo the literal's indentation, operationName, variables,
     envelope) and returns the same value — or exactly the single top-level field for ShorterResults;
   * type hints as a type checker resolves them (TYPE_CHECKING imports executed) are the unplugged ones,
     the return hint being the single field's hint when shortened;
   * ExtractOperations constants are named SNAKE_UPPER + _GQL and equal the unplugged strings.
K1 (model <-> code): the canonicalised unplugged package is fed to the extracted Coq model
(Model/Plugins.v, `generate`) with the same plugin list; its output must equal the canonicalised plugged
package produced by the real generator (c15_canon.py).
"""
from __future__ import annotations

import hashlib
import itertools
import json
import random
import textwrap

from graphql import parse, print_ast

from ..gen import scenario
from ..impl import scen, workers

CONTRIB = "ariadne_codegen.contrib."
PLUGINS = {
    "S": CONTRIB + "shorter_results.ShorterResultsPlugin",
    "E": CONTRIB + "extract_operations.ExtractOperationsPlugin",
    "F": CONTRIB + "client_forward_refs.ClientForwardRefsPlugin",
    "N": CONTRIB + "no_reimports.NoReimportsPlugin",
    "I": "c15_identity_plugin.IdentityPlugin",
    # lower case = the same plugin given by its MODULE path (plugins/explorer.py: a module entry stands for every
    # plugin class the module exposes; each of these modules exposes exactly one)
    "s": CONTRIB + "shorter_results",
    "e": CONTRIB + "extract_operations",
    "f": CONTRIB + "client_forward_refs",
    "n": CONTRIB + "no_reimports",
    "i": "c15_identity_plugin",
}
# configurations mixing class-path and module-path entries: the tree must be the one of the all-class-path spelling
FORM_CONFIGS = ["sF", "Fs", "fS", "Sf", "sEf", "feS", "SeFn", "nE", "i", "sefn"]
IDENTITY_SRC = (
    "from ariadne_codegen.plugins.base import Plugin\n\n\n"
    "class IdentityPlugin(Plugin):\n"
    '    """Overrides no hook."""\n'
)
# files a plugin is documented to change (relative to the unplugged tree)
ALLOWED = {"S": {"client.py"}, "E": {"client.py", "__init__.py", "operations.py"}, "F": {"client.py"},
           "N": {"__init__.py"}, "I": set()}



PLANS = [
    {"k": 0, "null": 0.0, "lens": [1], "seed": 0},
    {"k": 1, "null": 0.3, "lens": [0, 2], "seed": 1},
    {"k": 3, "null": 1.0, "lens": [0], "seed": 3},
]

FIXED_SDL = """scalar DateTime
enum Color { RED GREEN }
interface Node { id: ID! }
type User implements Node { id: ID! name: String color: Color created: DateTime friends: [User!] }
type Bot implements Node { id: ID! model: String }
union Actor = User | Bot
input Filter { name: String color: Color since: DateTime }
type Query {
  me: User
  users(filter: Filter, color: Color): [User!]!
  node(id: ID!): Node
  nodes: [Node]
  actor: Actor
  actors: [Actor!]
  count: Int!
  when: DateTime
  whens: [DateTime!]
  col: Color
  cols: [Color]!
  since(t: DateTime): Int
}
type Mutation { rename(id: ID!, name: String!): User }
type Subscription { tick(n: Int): Int! userChanged: User actorChanged: Actor! times: DateTime }
"""
FIXED_QUERIES = """query GetMe { me { id name } }
query ListUsers($f: Filter, $c: Color) { users(filter: $f, color: $c) { id ...UF } }
query GetNode($id: ID!) { node(id: $id) { id ... on User { name } } }
query GetNodes { nodes { id ... on Bot { model } } }
query GetActor { actor { __typename ... on User { name } ... on Bot { model } } }
query GetActors { actors { ... on User { name } ... on Bot { model } } }
query GetCount { count }
query GetWhen { when }
query GetWhens { whens }
query GetCol { col }
query GetCols { cols }
query Since($t: DateTime) { since(t: $t) }
query Aliased { total: count }
query OnlyTypename { __typename }
query Two { count me { id } }
query ViaFrag { ...QF }
query FragAndField { ...QF count }
query DupField { ...QF me { id } }
query WholeFrag { me { ...UF } }
mutation Rename($id: ID!, $name: String!) { rename(id: $id, name: $name) { id name } }
subscription Tick($n: Int) { tick(n: $n) }
subscription UserChanged { userChanged { id name } }
subscription ActorChanged { actorChanged { ... on User { id } ... on Bot { model } } }
subscription Times { times }
fragment UF on User { name color }
fragment QF on Query { me { id } }
"""


# variable names that clash with the locals of a generated method (query, variables, response, data, _query), with
# names the plugins introduce (the operations constants X_GQL, TYPE_CHECKING), with typing names used in
# annotations and with classes the plugins import — on queries, a mutation and subscriptions
CLASH_SDL = """type Item { id: ID! name: String }
type Query {
  search(query: String, variables: Int, response: String, data: String): [Item!]!
  find(_query: String, SEARCH_GQL: String, FIND_GQL: String, Optional: Int, TYPE_CHECKING: Boolean, List: String): Item
  lookup(LookupLookup: String, gql: String, Any: String, UNSET: String, Dict: Int, UnsetType: String): Item
  count(query: String): Int!
  both(query: String, _query: String): Int
}
type Mutation { rename(query: ID!, data: String!, variables: String, RENAME_GQL: String): Item }
type Subscription {
  watch(query: String, response: Int, data: String, WATCH_GQL: String, AsyncIterator: String): Item
  ticks(query: String, variables: Int): Int!
}
"""
CLASH_QUERIES = """query Search($query: String, $variables: Int, $response: String, $data: String) {
  search(query: $query, variables: $variables, response: $response, data: $data) { id name } }
query Find($_query: String, $SEARCH_GQL: String, $FIND_GQL: String, $Optional: Int, $TYPE_CHECKING: Boolean, $List: String) {
  find(_query: $_query, SEARCH_GQL: $SEARCH_GQL, FIND_GQL: $FIND_GQL, Optional: $Optional, TYPE_CHECKING: $TYPE_CHECKING, List: $List) { id } }
query Lookup($LookupLookup: String, $gql: String, $Any: String, $UNSET: String, $Dict: Int, $UnsetType: String) {
  lookup(LookupLookup: $LookupLookup, gql: $gql, Any: $Any, UNSET: $UNSET, Dict: $Dict, UnsetType: $UnsetType) { id name } }
query Count($query: String) { count(query: $query) }
query CountTwo($query: String) { count(query: $query) again: count(query: $query) }
mutation Rename($query: ID!, $data: String!, $variables: String, $RENAME_GQL: String) {
  rename(query: $query, data: $data, variables: $variables, RENAME_GQL: $RENAME_GQL) { id name } }
subscription Watch($query: String, $response: Int, $data: String, $WATCH_GQL: String, $AsyncIterator: String) {
  watch(query: $query, response: $response, data: $data, WATCH_GQL: $WATCH_GQL, AsyncIterator: $AsyncIterator) { id } }
subscription Ticks($query: String, $variables: Int) { ticks(query: $query, variables: $variables) }
"""


# the package of the Coq Examples (Properties/C15.v `mini`): run first, with explicit expectations (the regression
# Examples C15_forward_refs_regression_F24, C15_all_plugins_example, C15_order_dependence replayed on the real code)
CORPUS_SDL = """input Filter { name: String }
type User { id: ID! }
type Query { me(f: Filter): User }
"""
CORPUS_QUERIES = "query GetMe($f: Filter) { me(f: $f) { id } }\n"


# regression of the former finding C15-extract-constant-shadowed (fixed by /repo edeb7cc; Coq:
# C15_reserved_names_regression): a variable named like the operation's own constant, snake-casing off
CORPUS2_SDL = "type Query { find(FIND_GQL: String, other: Int, gql: String): Int  count(FIND_GQL: String): Int }\n"
CORPUS2_QUERIES = """query Find($FIND_GQL: String, $other: Int, $gql: String) { find(FIND_GQL: $FIND_GQL, other: $other, gql: $gql) }
query Count($FIND_GQL: String) { count(FIND_GQL: $FIND_GQL) }
"""


# operation ORDER: the same variable is spelled like a LATER / an EARLIER / the own operation's constant; the hook of
# ExtractOperations is stateful (it knows the constants recorded so far), so every operation must be asked anew
CORPUS3_SDL = "type Query { a(B_GQL: Int, C_GQL: Int): Int  b(B_GQL: Int, C_GQL: Int): Int  c(B_GQL: Int): Int  d(x: Int): Int }\n"
CORPUS3_OPS = ["query A($B_GQL: Int, $C_GQL: Int) { a(B_GQL: $B_GQL, C_GQL: $C_GQL) }",
               "query B($B_GQL: Int, $C_GQL: Int) { b(B_GQL: $B_GQL, C_GQL: $C_GQL) }",
               "query C($B_GQL: Int) { c(B_GQL: $B_GQL) }",
               "query D($x: Int) { d(x: $x) }"]
N_FORM_SCENARIOS = 4


def method_source(src, name):
    i = src.find(f"def {name}(")
    if i < 0:
        return ""
    j = src.find("\n    async def ", i + 1)
    k = src.find("\n    def ", i + 1)
    ends = [x for x in (j, k) if x > 0]
    return src[i:min(ends)] if ends else src[i:]


def corpus_expectations(case, ev):
    def client(cfg):
        f = case.files.get(cfg)
        return None if f is None else f.get("client.py", "")

    def expect(cfg, what, ok):
        ev.append(("count", 1))
        if not ok:
            ev.append(("violation", f"corpus (Coq example package) with {cfg!r}: {what}",
                       replay_of(case, cfg, client=(client(cfg) or "")[:1500]), True))

    if case.sc.seed == -104:
        # regression of C15-forward-refs-empty-type-checking-block (Coq: C15_forward_refs_regression_empty_block)
        for cfg in case.configs:
            ev.append(("count", 1))
            if client(cfg) is None:
                ev.append(("violation", f"corpus (scalar-only package) with {cfg!r}: generation fails: {case.gen[cfg].res.get('exc')}",
                           replay_of(case, cfg, exc=case.gen[cfg].res.get("exc")), True))
            elif "S" in cfg and "F" in cfg and cfg.index("S") < cfg.index("F"):
                expect(cfg, "no TYPE_CHECKING block / import is expected when only builtin annotations remain",
                       "TYPE_CHECKING" not in client(cfg) and "        from .item import Item" in client(cfg))
        return
    if case.sc.seed in (-102, -103):
        order = [q.split()[1].split("(")[0] for q in case.sc.queries.strip().splitlines()]
        for cfg in [c for c in case.configs if "E" in c and client(c) is not None]:
            src = client(cfg)
            seen = []
            for op in order:
                seen.append(op + "_GQL")
                m = method_source(src, op.lower())
                for var in ("B_GQL", "C_GQL"):
                    if f'"{var}":' not in m:
                        continue
                    want = var + "_" if var in seen else var
                    expect(cfg, f"operation order {order}: in method {op.lower()} the argument for ${var} must be named {want} "
                                f"(constants recorded so far: {seen})",
                           f'"{var}": {want}' + ("," if False else "") in m and f"query={op}_GQL," in m)
        return
    if case.sc.seed == -101:
        for cfg in [c for c in case.configs if client(c) is not None]:
            src = client(cfg)
            if "E" in cfg:
                expect(cfg, "the argument named like the constant FIND_GQL is not renamed / the constant is not what is sent",
                       "FIND_GQL_:" in src and "query=FIND_GQL," in src and '"FIND_GQL": FIND_GQL_' in src
                       and "query=COUNT_GQL," in src)
            else:
                expect(cfg, "without ExtractOperations the argument keeps its name FIND_GQL", "FIND_GQL:" in src and "FIND_GQL_" not in src)
        return
    for cfg in [c for c in case.configs if "F" in c and client(c) is not None]:
        src = client(cfg)
        expect(cfg, "deferred import is not `from .get_me import GetMe` (regression of F24)",
               "        from .get_me import GetMe\n" in src and "from ..get_me" not in src)
        expect(cfg, "TYPE_CHECKING is not imported from the absolute module typing (regression of F24)",
               "from .typing" not in src and "TYPE_CHECKING" in src.split("if TYPE_CHECKING")[0])
        block = src.split("if TYPE_CHECKING:")[1].split("\n\n")[0] if "if TYPE_CHECKING:" in src else ""
        expect(cfg, "TYPE_CHECKING block does not import Filter from .input_types", "from .input_types import Filter" in block)
    for cfg in [c for c in case.configs if "S" in c and client(c) is not None]:
        src = client(cfg)
        after_f = "F" in cfg and cfg.index("F") < cfg.index("S")
        expect(cfg, "ShorterResults " + ("must leave the method alone after ClientForwardRefs" if after_f
                                         else "does not return the single field"),
               ("model_validate(data).me" in src) != after_f)
    for cfg in [c for c in case.configs if "E" in c and client(c) is not None]:
        ops = case.files[cfg].get("operations.py", "")
        expect(cfg, "operations.py lacks GET_ME_GQL / the client does not pass it",
               "GET_ME_GQL = " in ops and "query=GET_ME_GQL" in client(cfg))


REDUCED = ["S", "E", "F", "N", "SE", "SF", "FS", "EF", "SEFN", "FESN", "I"]
# operation names built to collide if the constant's name were not injective (X / XGql / XGqlGql, a bare Gql)
COLLIDE_SDL = "type Query { item: Int userDetails: Int }\n"
COLLIDE_QUERIES = """query item { item }
query itemGql { item }
query itemGqlGql { item }
query userDetails { userDetails }
query userDetailsGql { userDetails }
query Gql { item }
query GqlGql { userDetails }
"""
# (sub-scenario, reference scenario, what the pair shows): trees must be identical configuration by configuration
TREE_PAIRS = [(-4, -1, "unknown and kebab-case option keys must be ignored"),
              (-5, -7, "the legacy [ariadne-codegen] section must give the package of [tool.ariadne-codegen]")]


def option_scenarios(base1):
    """Options the bundled plugins read from the RAW configuration (derived from source by c15_source.raw_option_reads:
    fragments_module_name by ShorterResults; the extract-operations table, and through get_client_settings
    target_package_name / include_comments / async_client, by ExtractOperations) take NON-DEFAULT values here;
    option keys the settings ignore (unknown, kebab-case) and the legacy section must not change the package."""
    out = []
    cfg3 = dict(base1.config, fragments_module_name="shared_fragments", include_comments="stable",
                target_package_name="my_client", **{"extract-operations": {"operations_module_name": "ops_module"}})
    out.append(scenario.Scenario(seed=-3, sdl=base1.sdl, queries=base1.queries, config=cfg3, files=dict(base1.files),
                                 features=("fixed", "plugin_options"), notes={"configs": REDUCED}))
    cfg4 = dict(base1.config, **{"fragments-module-name": "kebab_fragments", "no_such_option": True,
                                 "target-package-name": "kebab_client", "plugins-extra": ["x"]})
    out.append(scenario.Scenario(seed=-4, sdl=base1.sdl, queries=base1.queries, config=cfg4, files=dict(base1.files),
                                 features=("fixed", "ignored_keys"), notes={"configs": REDUCED}))
    cfg7 = dict(base1.config, fragments_module_name="shared_fragments")
    out.append(scenario.Scenario(seed=-7, sdl=base1.sdl, queries=base1.queries, config=cfg7, files=dict(base1.files),
                                 features=("fixed", "plugin_options"), notes={"configs": REDUCED}))
    out.append(scenario.Scenario(seed=-5, sdl=base1.sdl, queries=base1.queries, config=dict(cfg7), files=dict(base1.files),
                                 features=("fixed", "legacy_section"), notes={"configs": REDUCED, "legacy_section": True}))
    out.append(scenario.Scenario(seed=-6, sdl=COLLIDE_SDL, queries=COLLIDE_QUERIES,
                                 config={"convert_to_snake_case": True, "async_client": True, "opentelemetry_client": False},
                                 features=("fixed", "constant_collisions"), notes={"configs": REDUCED}))
    return out


def compare_trees_across(cases, run):
    by_seed = {c.sc.seed: c for c in cases}
    for sub, ref, what in TREE_PAIRS:
        a, b = by_seed.get(sub), by_seed.get(ref)
        if a is None or b is None or not getattr(a, "files", None) or not getattr(b, "files", None):
            continue
        for cfg in [""] + a.configs:
            fa, fb = a.files.get(cfg), b.files.get(cfg)
            if fa is None or fb is None:
                continue
            run.count()
            changed = sorted(k for k in set(fa) | set(fb) if fa.get(k) != fb.get(k))
            run.dist("option_forms", ("same" if not changed else "differs") + ":" + what.split()[1])
            if changed:
                rep = replay_of(a, cfg, reference_config=b.sc.config, changed=changed, legacy_section=bool(a.sc.notes.get("legacy_section")))
                run.violation(f"{what}: with plugins {cfg!r} files {changed} differ", rep)


def fixed_scenarios():
    out = _fixed_scenarios()
    out.insert(0, scenario.Scenario(seed=-100, sdl=CORPUS_SDL, queries=CORPUS_QUERIES,
                                    config={"convert_to_snake_case": True, "async_client": True,
                                            "opentelemetry_client": False}, features=("corpus",)))
    out.insert(1, scenario.Scenario(seed=-101, sdl=CORPUS2_SDL, queries=CORPUS2_QUERIES,
                                    config={"convert_to_snake_case": False, "async_client": True,
                                            "opentelemetry_client": False}, features=("corpus",)))
    for i, snake in enumerate([False, True]):
        cfg = {"convert_to_snake_case": snake, "async_client": True, "opentelemetry_client": False}
        out.append(scenario.Scenario(seed=-11 - i, sdl=CLASH_SDL, queries=CLASH_QUERIES, config=cfg,
                                     features=("fixed", "local_clash")))
    # enable_custom_operations is part of the configuration product (async and sync client)
    out.insert(2, scenario.Scenario(seed=-102, sdl=CORPUS3_SDL, queries="\n".join(CORPUS3_OPS) + "\n",
                                    config={"convert_to_snake_case": False, "async_client": True,
                                            "opentelemetry_client": False}, features=("corpus",)))
    out.insert(3, scenario.Scenario(seed=-103, sdl=CORPUS3_SDL, queries="\n".join(reversed(CORPUS3_OPS)) + "\n",
                                    config={"convert_to_snake_case": False, "async_client": True,
                                            "opentelemetry_client": False}, features=("corpus",)))
    out.insert(4, scenario.Scenario(seed=-104, sdl="type Query { item: Int }\n", queries="query item { item }\n",
                                    config={"convert_to_snake_case": True, "async_client": True,
                                            "opentelemetry_client": False}, features=("corpus",)))
    for i, (base, asyn) in enumerate([(out[6], True), (out[7], False)]):
        cfg = dict(base.config, enable_custom_operations=True, async_client=asyn)
        queries = base.queries if asyn else "\n".join(
            l for l in base.queries.split("\nsubscription")[0].splitlines())
        sdl = base.sdl if asyn else base.sdl.split("type Subscription")[0]
        out.append(scenario.Scenario(seed=-21 - i, sdl=sdl, queries=queries + "\n", config=cfg,
                                     features=("fixed", "custom_operations") + (("local_clash",) if not asyn else ()),
                                     files=dict(base.files)))
    # string literals carrying the characters str.splitlines() treats as line ends although GraphQL does not
    # (U+2028, U+2029, NEL, form feed, file/group/record separators): they are data and must reach the wire unchanged
    seps = "first\u2028second\u2029third\x85fourth\x0cfifth\x1csixth\x1dseventh\x1eeighth"
    sep_q = (f'query FindSep {{ find(text: "{seps}") }}\n'
             f'query FindSepBlock($t: String = "d\u2028e") {{ find(text: $t) again: find(text: """blk\u2028 x\n  y\x85""") }}\n')
    sep = [scenario.Scenario(seed=-105 - i, sdl="type Query { find(text: String): Int }\n", queries=sep_q,
                             config={"convert_to_snake_case": True, "async_client": asyn, "opentelemetry_client": False},
                             features=("fixed", "line_separators")) for i, asyn in enumerate((True, False))]
    return out + option_scenarios(out[5]) + sep


def _fixed_scenarios():
    out = []
    files, sc = scenario.scalar_module()
    for i, (snake, scalars) in enumerate([(True, True), (False, False)]):
        cfg = {"convert_to_snake_case": snake, "async_client": True, "opentelemetry_client": False}
        if scalars:
            cfg["scalars"] = sc
        out.append(scenario.Scenario(seed=-1 - i, sdl=FIXED_SDL, queries=FIXED_QUERIES, config=cfg,
                                     features=("fixed",), files=dict(files) if scalars else {}))
    return out


def configurations(thorough: bool, rng: random.Random):
    """Plugin configurations as strings over S,E,F,N,I (order = configuration order)."""
    out = []
    for mask in range(16):
        sub = "".join(c for i, c in enumerate("SEFN") if mask >> i & 1)
        out.append(sub)
        core = [c for c in sub if c != "N"]
        if len(core) >= 2:
            perms = list(itertools.permutations(core))[1:] if thorough else [tuple(reversed(core))]
            for p in perms:
                out.append("".join(p) + ("N" if "N" in sub else ""))
        if "N" in sub and core:
            out.append("N" + "".join(core))
    out.append("I")
    for base in (["SEFN", "FS", "E", "N", "SF"] if not thorough else [c for c in list(out) if c and c != "I"]):
        k = rng.randint(0, len(base))
        out.append(base[:k] + "I" + base[k:])
    seen, res = set(), []
    for c in out:
        if c not in seen:
            seen.add(c)
            res.append(c)
    return res


def tree_hash(files: dict) -> str:
    h = hashlib.sha256()
    for k in sorted(files):
        h.update(k.encode() + b"\0" + files[k].encode() + b"\0")
    return h.hexdigest()


def norm_doc(q):
    if not isinstance(q, str):
        return q
    return "\n".join(l.rstrip(" \t") for l in textwrap.dedent(q).strip().split("\n"))   # "\n" only: U+2028, \x85 ... are data


def ast_doc(q):
    try:
        return print_ast(parse(q))
    except Exception as exc:  # noqa
        return f"<unparsable {type(exc).__name__}>"


def request_image(req: dict) -> dict:
    r = dict(req)
    r.pop("query", None)
    hs = {k: v for k, v in (r.pop("headers", None) or {}).items() if k.lower() not in ("content-length",)}
    r["headers"] = hs
    return r


def const_name(op_name: str) -> str:
    from ariadne_codegen.utils import str_to_snake_case

    return str_to_snake_case(op_name).upper() + "_GQL"


def ops_module(sc):
    return (sc.config.get("extract-operations") or {}).get("operations_module_name", "operations")


def frag_module(sc):
    return sc.config.get("fragments_module_name", "fragments")


class Case:
    """One scenario: the unplugged package + its plugged variants."""

    def __init__(self, sc, configs):
        self.sc, self.configs = sc, list(sc.notes.get("configs") or configs)
        self.gen = {}  # config -> Generated


def drive(g, ops, sc, plans, want_consts=False):
    """Import a generated tree in a fresh interpreter and run every operation under every plan."""
    out = {"load": None, "hints": None, "calls": {}, "consts": None}
    load = g.start()
    out["load"] = load
    try:
        if not load.get("ok"):
            return out
        out["hints"] = g.driver.ask({"cmd": "hints"})
        if want_consts:
            out["consts"] = g.driver.ask({"cmd": "eval", "code": (
                f"m = mods.get({ops_module(sc)!r})\n"
                "result = None if m is None else {k: getattr(m, k) for k in getattr(m, '__all__', [])}\n")})
        for op in ops:
            name = op.name.value
            meth = scen.method_name(name)
            for pi, plan in enumerate(plans):
                rng = random.Random(f"{sc.seed}|{name}|{pi}")
                _vals, enc = g.encoded_args(op, rng, mode="rand" if pi else "min")
                # the generator may rename a parameter that would shadow a module-level name (gql -> gql_,
                # UNSET -> UNSET_ ...): take the real name from the loaded signature
                snake = g.res.get("config", {}).get("convert_to_snake_case", True)
                params = [p[0] for p in load.get("methods", {}).get(meth, {}).get("params", [])]
                for vd in op.variable_definitions or ():
                    want = scen.param_name(vd.variable.name.value, snake)
                    if want in enc and want not in params:
                        alt = [q for q in params if q.strip("_") == want.strip("_") and q not in enc]
                        if len(alt) == 1:
                            enc[alt[0]] = enc.pop(want)
                out["calls"][(name, pi)] = g.call(method=meth, args=enc, plan=plan, c15=True, events=2)
    finally:
        g.stop()
    return out


def run(ctx):
    run = ctx.run
    run.rule = ("scenario x plugin configuration (string over S=ShorterResults E=ExtractOperations "
                "F=ClientForwardRefs N=NoReimports I=identity plugin, in configuration order) x operation x plan; "
                "non-trivial = (scenario, configuration, operation) whose plugged method was driven and compared "
                "with the unplugged one")
    run.assumptions += [
        "graphql-core executes the SENT document (reference executor); pydantic validates; httpx MockTransport "
        "and a scripted graphql-transport-ws connection stand for the network",
        "black/isort/autoflake/ast.unparse are meaning-preserving (they sit inside both sides of every comparison)",
        "operation documents are compared after removing the common indentation the client literal carries",
    ]
    from . import c15_source

    c15_source.run(ctx)
    thorough = ctx.thorough
    n_seeded = 5 if not thorough else 60
    base_seed = ctx.seed * 100000 + 1500
    scenarios = fixed_scenarios()
    for i in range(n_seeded):
        feats = ("subscriptions", "toplevel") if i % 3 != 2 else ("toplevel",)
        if i % 2 == 1:
            feats += ("local_clash",)
        try:
            sc = scenario.make(base_seed + i, features=feats, n_ops=3, depth=2)
            if i % 5 == 4:  # configuration product: enable_custom_operations
                sc.config = dict(sc.config, enable_custom_operations=True)
                sc.features = tuple(sc.features) + ("custom_operations",)
            scenarios.append(sc)
        except RuntimeError:
            run.dist("scenarios", "no-valid-scenario")
    configs = configurations(thorough, ctx.rng)
    run.extra["configurations"] = configs
    with workers.Scratch(prefix="vh-c15-") as scratch:
        _run(ctx, scenarios, configs, scratch)


def _run(ctx, scenarios, configs, scratch):
    run = ctx.run
    reqs, index = [], []
    for si, sc in enumerate(scenarios):
        files = dict(sc.files)
        files["c15_identity_plugin.py"] = IDENTITY_SRC
        for cfg in [""] + list(sc.notes.get("configs") or configs) + (FORM_CONFIGS if si < N_FORM_SCENARIOS else []):
            d = scratch.new(f"s{si}_")
            over = {"config": {"plugins": [PLUGINS[c] for c in cfg]}, "add_sys_path": True, "files": files,
                    "legacy_section": bool(sc.notes.get("legacy_section"))}
            reqs.append(sc.request(d, **over))
            index.append((si, cfg))
    results = generate_fresh(reqs, jobs=14)
    cases = [Case(sc, configs) for sc in scenarios]
    for (si, cfg), req, res in zip(index, reqs, results):
        cases[si].gen[cfg] = scen.Generated(scenarios[si], req, res)
    plans = PLANS if ctx.thorough else PLANS[:2]
    # phase 2: distinct trees of every scenario, driven in parallel (one fresh interpreter per tree)
    jobs = []
    for case in cases:
        case.files = {cfg: (g.files() if g.ok else None) for cfg, g in case.gen.items()}
        case.hash = {cfg: (tree_hash(f) if f is not None else None) for cfg, f in case.files.items()}
        case.first = {}
        if not case.gen[""].ok:
            continue
        case.ops = case.gen[""].operations()
        for cfg in [""] + case.configs:
            h = case.hash[cfg]
            if h is not None and h not in case.first:
                case.first[h] = cfg
                jobs.append((case, cfg))

    def drive_job(job):
        case, cfg = job
        try:
            return drive(case.gen[cfg], case.ops, case.sc, plans, want_consts="E" in cfg)
        except Exception:  # noqa
            import traceback

            return {"load": {"ok": False, "modules": {"harness": traceback.format_exc()[-800:]}}, "hints": None,
                    "calls": {}, "consts": None, "harness_error": True}

    regen = regenerate_over_existing(cases[:4], scratch)
    driven = scen.parallel(jobs, drive_job, jobs=14)
    for (case, cfg), res in zip(jobs, driven):
        case.driven = getattr(case, "driven", {})
        case.driven[case.hash[cfg]] = res
    outs = [check_case(c, plans) for c in cases]
    compare_trees_across(cases, run)
    for kind, *rest in regen:
        if kind == "violation":
            run.violation(rest[0], rest[1])
        elif kind == "dist":
            run.dist(rest[0], rest[1])
        else:
            run.count(rest[0])
    from . import c15_k1

    k1_jobs = []
    for case, out in zip(cases, outs):
        for ev in out["events"]:
            kind = ev[0]
            if kind == "count":
                run.count(ev[1])
            elif kind == "nontrivial":
                run.nontrivial_case(ev[1])
            elif kind == "dist":
                run.dist(ev[1], ev[2], ev[3] if len(ev) > 3 else 1)
            elif kind == "violation":
                run.violation(ev[1], ev[2], found_input=ev[3])
            elif kind == "finding":
                run.finding(ev[1], ev[2], ev[3])
            elif kind == "sample":
                run.sample(ev[1])
        if out.get("base_ok"):
            k1_jobs.append(case)
    c15_k1.run(ctx, k1_jobs)


REGEN_PAIRS = [("E", "E"), ("", "E"), ("E", ""), ("SEFN", "SEFN"), ("SEFN", "SF"), ("N", "E"), ("F", "S"), ("S", "F")]


def regenerate_over_existing(cases, scratch):
    """Generate configuration B into a directory that already holds the package of configuration A: every file of a
    fresh generation of B must be there with the same bytes (in particular ExtractOperations' operations.py, which
    the generator does not list among its generated files), and nothing of A may leak into a file B writes."""
    import shutil

    reqs, meta, ev = [], [], []
    for case in cases:
        if not case.gen[""].ok:
            continue
        for a, b in REGEN_PAIRS:
            ga, gb = case.gen.get(a), case.gen.get(b)
            if not (ga and gb and ga.ok and gb.ok):
                continue
            d = scratch.new("regen_")
            shutil.rmtree(d)
            shutil.copytree(ga.dir, d)
            req = dict(gb.req, dir=d)
            reqs.append(req)
            meta.append((case, a, b, d))
    results = generate_fresh(reqs)
    for (case, a, b, d), res in zip(meta, results):
        ev.append(("count", 1))
        if not res.get("ok"):
            ev.append(("violation", f"regenerating {b!r} over an existing {a!r} package fails: {res.get('exc')}",
                       replay_of(case, b, previous=a, exc=res.get("exc"))))
            continue
        files = workers.read_package(res["target"])
        fresh = case.files[b]
        bad = sorted(k for k in fresh if files.get(k) != fresh[k])
        extra = sorted(set(files) - set(fresh))
        ev.append(("dist", "regeneration", "identical" if not bad and not extra else ("stale-files-left" if not bad else "differs")))
        if bad:
            ev.append(("violation", f"regenerating {b!r} over an existing {a!r} package: files {bad} are missing or differ "
                                    f"from a fresh generation", replay_of(case, b, previous=a, files=bad, extra=extra)))
    return ev


def generate_fresh(reqs, jobs=14):
    """One NEW interpreter per generation request: plugins keep state in module-level objects of the generator
    (see finding C15-shared-import-mutated), so a pooled worker would let one configuration leak into the next."""
    def one(req):
        w = workers.Worker("gen_worker.py", env=workers.child_env())
        try:
            return w.ask(req)
        finally:
            w.close()

    return scen.parallel(reqs, one, jobs=jobs)


def unreserve(param: str, constants) -> str:
    """ExtractOperations may rename an argument that is named like one of its constants (FIND_GQL -> FIND_GQL_,
    fixes/C15-extract-constant-shadowed.diff); positional behaviour is unchanged, so signatures and hints are
    compared modulo that renaming."""
    base = param.rstrip("_")
    return base if param != base and base in constants else param


def replay_of(case, cfg, **kw):
    sc = case.sc
    r = {"seed": sc.seed, "features": list(sc.features), "plugins": [PLUGINS[c] for c in cfg], "configuration": cfg,
         "schema": sc.sdl, "queries": sc.queries, "config": sc.config, "legacy_section": bool(sc.notes.get("legacy_section"))}
    r.update(kw)
    return r


def check_case(case, plans):
    ev = []
    try:
        return _check_case(case, plans, ev)
    except Exception:  # fail closed, but keep the other scenarios running
        import traceback

        ev.append(("violation", "harness exception in C15 case: " + traceback.format_exc()[-1500:],
                   replay_of(case, "", stage="harness"), False))
        return {"events": ev, "base_ok": False}


def _check_case(case, plans, ev):
    sc = case.sc
    base = case.gen[""]
    feat = "+".join(sc.features) or "main"
    if "corpus" in sc.features and base.ok:
        corpus_expectations(case, ev)
    if not base.ok:
        # refusing/crashing without plugins is C04's business; nothing to compare against
        ev.append(("dist", "scenarios", f"unplugged-generation-failed:{(base.res.get('exc') or ['?'])[0]}"))
        return {"events": ev, "base_ok": False}
    ev.append(("dist", "scenarios", feat))
    ops = case.ops
    base_files = case.files[""]
    base_run = case.driven[case.hash[""]]
    if not base_run["load"].get("ok"):
        ev.append(("dist", "scenarios", "unplugged-package-does-not-import"))
        return {"events": ev, "base_ok": False}
    for op in ops:
        nf = None
        c0 = base_run["calls"].get((op.name.value, 0))
        if c0 and c0.get("fields") and c0["fields"][0] is not None:
            nf = len(c0["fields"][0])
        ev.append(("dist", "operation_kind", op.operation.value))
        ev.append(("dist", "top_level_fields", "1" if nf == 1 else ("many" if nf else "n/a")))
    # class-path / module-path spellings of one configuration must give the same tree (explorer keeps list order)
    for cfg in [c for c in FORM_CONFIGS if c in case.gen]:
        up = cfg.upper()
        ev.append(("count", 1))
        ev.append(("dist", "entry_forms", "mixed" if cfg != cfg.lower() else "module-paths"))
        if not case.gen[cfg].ok:
            ev.append(("violation", f"generation with plugin entries {[PLUGINS[c] for c in cfg]} fails: {case.gen[cfg].res.get('exc')}",
                       replay_of(case, cfg, exc=case.gen[cfg].res.get("exc")), True))
        elif up in case.gen and case.gen[up].ok and case.files[cfg] != case.files[up]:
            changed = sorted(k for k in set(case.files[cfg]) | set(case.files[up]) if case.files[cfg].get(k) != case.files[up].get(k))
            ev.append(("violation", f"plugins given as {[PLUGINS[c] for c in cfg]} (module paths mixed with class paths) do not give the "
                                    f"package of the same list spelled with class paths: files {changed} differ — entries are not "
                                    f"applied in configuration order", replay_of(case, cfg, class_path_spelling=[PLUGINS[c] for c in up],
                                                                                    changed=changed), True))
    for cfg in case.configs:
        g = case.gen[cfg]
        ev.append(("dist", "configuration_size", str(len(cfg))))
        # ---------------------------------------------------------------- generation
        if not g.ok:
            ev.append(("count", 1))
            # (finding C15-forward-refs-custom-operations — KeyError: 'self' — is fixed by /repo 91a5368)
            # (finding C15-forward-refs-empty-type-checking-block — black InvalidInput — is fixed by /repo c4f3669)
            ev.append(("violation", f"generation with plugins {cfg!r} fails ({g.res.get('exc')}) while the unplugged one succeeds",
                       replay_of(case, cfg, exc=g.res.get("exc"), tb=g.res.get("tb")), True))
            continue
        files = case.files[cfg]
        # ---------------------------------------------------------------- files on disk
        changed = {k for k in set(files) | set(base_files) if files.get(k) != base_files.get(k)}
        allowed = set().union(*[ALLOWED[c] for c in cfg]) if cfg else set()
        allowed = {ops_module(sc) + ".py" if k == "operations.py" else k for k in allowed}
        ev.append(("count", 1))
        if not changed <= allowed:
            what = ("identity plugin changes bytes" if set(cfg) <= {"I"} else "files outside the documented change differ")
            import difflib

            k0 = sorted(changed - allowed)[0]
            diff = list(difflib.unified_diff((base_files.get(k0) or "").splitlines(), (files.get(k0) or "").splitlines(),
                                             "unplugged/" + k0, "plugged/" + k0, lineterm=""))[:60]
            ev.append(("violation", f"{what}: configuration {cfg!r}, files {sorted(changed - allowed)}",
                       replay_of(case, cfg, changed=sorted(changed), diff=diff), True))
        if "N" in cfg:
            init = files.get("__init__.py", "")
            if "\n".join(l for l in init.splitlines() if l.strip() and not l.lstrip().startswith("#")).strip():
                ev.append(("violation", f"NoReimports leaves a non-empty __init__.py ({cfg!r})",
                           replay_of(case, cfg, init=init[:500]), True))
        if "E" in cfg and ops_module(sc) + ".py" not in files:
            ev.append(("violation", f"ExtractOperations wrote no operations module ({cfg!r})", replay_of(case, cfg), True))
        # configurations that differ only by the identity plugin must give identical trees
        no_i = cfg.replace("I", "")
        if "I" in cfg and no_i in case.gen and case.gen[no_i].ok:
            if case.files[no_i] != files:
                ev.append(("violation", f"inserting the identity plugin changes the tree: {cfg!r} vs {no_i!r}",
                           replay_of(case, cfg), True))
        # ---------------------------------------------------------------- behaviour (once per distinct tree)
        th = case.hash[cfg]
        first_cfg, res = case.first[th], case.driven[th]
        ev.append(("dist", "distinct_trees", "driven" if first_cfg == cfg else "same-as-earlier-configuration"))
        if "E" in cfg and "E" not in first_cfg:
            res = dict(res, consts=None)
        compare(case, cfg, ops, plans, base_run, res, ev, first=(first_cfg == cfg))
    return {"events": ev, "base_ok": True}


def compare(case, cfg, ops, plans, base_run, res, ev, first):
    load, bload = res["load"], base_run["load"]
    if not load.get("ok"):
        rep = replay_of(case, cfg, modules={k: v for k, v in load.get("modules", {}).items() if v != "ok"})
        # (finding C15-plugins-ignore-legacy-section is fixed by /repo 13e2fa6)
        # (finding C15-no-reimports-custom-operations — `from . import <Enum>` in custom_*.py — is fixed by /repo 2282fe6)
        # (finding F24 — every ClientForwardRefs package failed here — is fixed by /repo 7b86743: a regression is a violation)
        ev.append(("violation", f"package generated with plugins {cfg!r} does not import: {rep['modules']}", rep, True))
        return
    if sorted(load.get("incomplete", [])) != sorted(bload.get("incomplete", [])):
        ev.append(("violation", f"incomplete pydantic models differ with {cfg!r}: {load.get('incomplete')}",
                   replay_of(case, cfg), True))
    # __all__ / re-exports
    consts = sorted(const_name(op.name.value) for op in ops)
    if "N" in cfg:
        if load.get("all") or set(load.get("exported", [])) - set(load.get("modules", {})):
            ev.append(("violation", f"NoReimports: package still exports {load.get('exported')[:5]} ({cfg!r})",
                       replay_of(case, cfg), True))
    else:
        want_all = sorted(set(bload.get("all", [])) | (set(consts) if "E" in cfg else set()))
        if sorted(load.get("all", [])) != want_all:
            ev.append(("violation", f"__all__ differs with {cfg!r}: {sorted(set(load.get('all', [])) ^ set(want_all))}",
                       replay_of(case, cfg), True))
        bex = set(bload.get("exported", [])) - set(bload.get("modules", {}))
        ex = set(load.get("exported", [])) - set(load.get("modules", {}))
        extra_ok = (set(consts) | {ops_module(case.sc)}) if "E" in cfg else set()
        if not (bex <= ex and ex - bex <= extra_ok):
            ev.append(("violation", f"re-exported names differ with {cfg!r}: {sorted(ex ^ bex)[:8]}", replay_of(case, cfg), True))
    # signatures (names, kinds, required-ness) — hints are compared below
    for m, sig in bload.get("methods", {}).items():
        got = load.get("methods", {}).get(m)
        if got is None:
            ev.append(("violation", f"method {m} missing with {cfg!r}", replay_of(case, cfg, method=m), True))
            continue
        gotp = [(unreserve(p[0], consts if "E" in cfg else ()), p[2], p[3]) for p in got["params"]]
        if gotp != [(p[0], p[2], p[3]) for p in sig["params"]] \
                or got["async"] != sig["async"] or got["asyncgen"] != sig["asyncgen"]:
            ev.append(("violation", f"signature of {m} differs with {cfg!r}", replay_of(case, cfg, method=m, got=got, want=sig), True))
    # ExtractOperations constants
    if "E" in cfg:
        cv = (res.get("consts") or {}).get("value")
        if not isinstance(cv, dict):
            ev.append(("violation", f"operations module unreadable with {cfg!r}: {res.get('consts')}", replay_of(case, cfg), True))
        else:
            if len(set(cv)) != len(ops):
                ev.append(("violation", f"ExtractOperations: {len(ops)} operations ({[o.name.value for o in ops]}) but only "
                                        f"{len(set(cv))} distinct constants {sorted(cv)} — two operations share a constant ({cfg!r})",
                           replay_of(case, cfg, constants=sorted(cv)), True))
            if sorted(cv) != consts:
                ev.append(("violation", f"operations constants {sorted(cv)} != expected {consts} ({cfg!r})", replay_of(case, cfg), True))
            for op in ops:
                b = base_run["calls"].get((op.name.value, 0), {}).get("request", {}).get("query")
                c = cv.get(const_name(op.name.value))
                if b is None or c is None:
                    continue
                if norm_doc(b) != norm_doc(c):
                    ev.append(("violation", f"ExtractOperations constant for {op.name.value} differs from the unplugged string ({cfg!r})",
                               replay_of(case, cfg, operation=op.name.value, unplugged=b, constant=c,
                                         same_ast=ast_doc(b) == ast_doc(c)), True))
                ev.append(("count", 1))
    hints, bhints = res.get("hints") or {}, base_run.get("hints") or {}
    if hints.get("tc_errors"):
        ev.append(("violation", f"TYPE_CHECKING imports of {cfg!r} do not resolve: {hints['tc_errors'][:3]}",
                   replay_of(case, cfg, tc_errors=hints["tc_errors"]), True))
    for op in ops:
        name = op.name.value
        meth = scen.method_name(name)
        shortened = None
        # (finding C15-extract-constant-shadowed is fixed by /repo edeb7cc: a regression is a VIOLATION below)
        for pi in range(len(plans)):
            b, p = base_run["calls"].get((name, pi)), res["calls"].get((name, pi))
            if b is None or p is None:
                continue
            ev.append(("count", 1))
            if b.get("exc") and b["exc"][0].startswith("args:"):
                continue
            rep = lambda **kw: replay_of(case, cfg, operation=name, plan=plans[pi], **kw)  # noqa: E731
            # -------- request
            br, pr = b.get("request", {}), p.get("request", {})
            if request_image(br) != request_image(pr):
                ev.append(("violation", f"{name}: request envelope differs with {cfg!r}",
                           rep(unplugged=request_image(br), plugged=request_image(pr)), True))
            if norm_doc(br.get("query")) != norm_doc(pr.get("query")):
                ev.append(("violation", f"{name}: document sent differs with {cfg!r}",
                           rep(unplugged=br.get("query"), plugged=pr.get("query"),
                               same_ast=ast_doc(br.get("query") or "") == ast_doc(pr.get("query") or "")), True))
            # -------- outcome
            if (b.get("exc") or None) != (p.get("exc") or None):
                bx, px = b.get("exc"), p.get("exc")
                if not (bx and px and bx[0] == px[0]):
                    ev.append(("violation", f"{name}: outcome differs with {cfg!r}: unplugged {bx}, plugged {px}",
                               rep(unplugged=bx, plugged=px, data=b.get("data")), True))
                continue
            if b.get("exc"):
                ev.append(("dist", "outcomes", "both-raise-" + b["exc"][0]))
                continue
            bv, pv = b.get("value"), p.get("value")
            fields = b.get("fields") or [None]
            is_sub = op.operation.value == "subscription"
            if pv == bv:
                how = "whole"
            else:
                how = None
                if "S" in cfg and all(f is not None and len(f) == 1 for f in fields):
                    proj = [next(iter(f.values())) for f in fields]
                    if (proj if is_sub else proj[0]) == pv:
                        how = "single-field"
            if how is None:
                ev.append(("violation", f"{name}: returned value differs with {cfg!r} (neither the unplugged result nor its single top-level field)",
                           rep(unplugged=bv, plugged=pv, data=b.get("data")), True))
                continue
            if shortened is None:
                shortened = how == "single-field"
            ev.append(("dist", "outcomes", how if "S" in cfg else "same"))
            if "S" in cfg and how == "whole" and all(f is not None and len(f) == 1 for f in fields) \
                    and (is_sub and fields and bv or not is_sub):
                # the value IS a model with one field and was not unwrapped (distinguishable only when bv != field)
                ev.append(("dist", "shorter_results_not_unwrapped_by_configuration", cfg))
        # -------- hints
        bh, ph = bhints.get("methods", {}).get(meth), hints.get("methods", {}).get(meth)
        if bh and ph:
            if "exc" in ph and "exc" not in bh:
                ev.append(("violation", f"{name}: annotations of the plugged method ({cfg!r}) do not resolve: {ph['exc']}",
                           replay_of(case, cfg, operation=name, exc=ph["exc"]), True))
            elif "exc" not in bh:
                php = {unreserve(k, consts if "E" in cfg else ()): v for k, v in ph["params"].items()}
                if php != bh["params"]:
                    ev.append(("violation", f"{name}: parameter annotations change meaning with {cfg!r}",
                               replay_of(case, cfg, operation=name, unplugged=bh["params"], plugged=ph["params"]), True))
                want = bh["return"]
                if shortened is None and "S" in cfg:
                    continue  # no call of this operation succeeded on either side: nothing to anchor the hint to
                if shortened:
                    cls = class_of_return(bh["return"])
                    fh = (bhints.get("field_hints") or {}).get(cls) or {}
                    if len(fh) == 1:
                        inner = next(iter(fh.values()))
                        want = f"typing.AsyncIterator[{inner}]" if op.operation.value == "subscription" else inner
                if norm_hint(ph["return"]) != norm_hint(want):
                    ev.append(("violation", f"{name}: return annotation with {cfg!r} is {ph['return']}, expected {want}",
                               replay_of(case, cfg, operation=name, unplugged=bh["return"], plugged=ph["return"], expected=want), True))
        ev.append(("nontrivial", f"{case.sc.seed}|{cfg}|{name}"))
    if first and len([e for e in ev if e[0] == "sample"]) < 2:
        op = ops[0].name.value
        p = res["calls"].get((op, 0), {})
        ev.append(("sample", {"seed": case.sc.seed, "configuration": cfg, "operation": op,
                              "request_query": norm_doc(p.get("request", {}).get("query"))[:200] if p.get("request", {}).get("query") else None,
                              "value": json.dumps(p.get("value"))[:300]}))


def class_of_return(h: str) -> str:
    """'<class 'gen_client.get_me.GetMe'>' / 'typing.AsyncIterator[gen_client.tick.Tick]' -> class name"""
    import re

    m = re.search(r"([A-Za-z_0-9.]+)'?>?\]?$", h)
    return (m.group(1) if m else h).split(".")[-1]


def norm_hint(h: str) -> str:
    # a bare class prints as <class 'pkg.mod.C'>, inside a typing construct as pkg.mod.C; NoneType likewise
    import re

    h = re.sub(r"<class '([^']+)'>", r"\1", h)
    h = re.sub(r"<enum '([^']+)'>", r"\1", h)
    # Optional[X] == Union[X, None]; typing prints both forms depending on construction
    return h.replace("NoneType", "None")
