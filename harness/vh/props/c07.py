"""C07 — Custom scalars are parsed and serialised exactly once per occurrence.

A dedicated scenario family: six scalars (type only / +parse / +serialize / both with dotted paths / deprecated
`import` key / unconfigured) x the eight wrapper shapes, as result fields (plain, nested objects, lists of objects,
fragments, interface / union variants), as top-level variables, and as fields of (nested, listed) input models.
The parse / serialize functions are instrumented (module vscal next to the generated package) and log their
arguments.

K1  Model/Scalars.v annotations (result_sann / input_sann / argument annotation + dict value) and scalar_imports
    vs the generated files parsed with `ast`.
K3  call logs of the real client vs (a) an independent oracle walking the response / the arguments by schema
    type (non-null occurrences), (b) the model's hook-log semantics (vlog / dlog / arg_log); returned attribute
    values are parse(raw); the transmitted JSON carries serialize(value) at every occurrence.
"""
from __future__ import annotations

import ast
import json
import random
import re
from collections import Counter

from graphql import (GraphQLList, GraphQLNonNull, GraphQLObjectType, GraphQLScalarType, build_schema, get_named_type,
                     parse)

from .. import model
from ..gen.scenario import Scenario
from ..impl import scen, workers
from ..sexp import Sym, json_sx, sx_json
from . import argenc

ENGINE = "C07"
WRAPPERS = ["{}", "{}!", "[{}]", "[{}!]", "[{}]!", "[{}!]!", "[[{}]]", "[[{}!]!]!"]
SCALARS = {
    "SA": {"type": "datetime.datetime"},
    "SB": {"type": "Any", "parse": "vscal.parse_SB"},
    "SC": {"type": "Any", "serialize": "vscal.ser_SC"},
    "SD": {"type": "vscal.Wrapped", "parse": "vscal.parse_SD", "serialize": "vscal.ser_SD"},
    "SE": {"type": "Wrapped", "parse": "parse_SE", "serialize": "ser_SE", "import": "vscal"},
    "SF": None,
    # parse == type ("constructor as parser"): a plain class ...
    "SG": {"type": "vscal.Sku", "parse": "vscal.Sku", "serialize": "vscal.ser_SG"},
    # ... and a pydantic-native type (not instrumentable: checked through the VALUE, parse(raw) = Decimal(0.1))
    "SH": {"type": "decimal.Decimal", "parse": "decimal.Decimal"},
    # one parse / serialize function shared by two scalars
    "SJ": {"type": "Any", "parse": "vscal.parse_shared", "serialize": "vscal.ser_shared"},
    "SK": {"type": "Any", "parse": "vscal.parse_shared", "serialize": "vscal.ser_shared"},
    # relative (in-package) path, module supplied through files_to_include
    "SL": {"type": ".custom_scalars.Rel", "parse": ".custom_scalars.parse_rel", "serialize": ".custom_scalars.ser_rel"},
}
KIND = {"SA": "type-only", "SB": "+parse", "SC": "+serialize", "SD": "both-dotted", "SE": "import-key", "SF": "unconfigured",
        "SG": "parse==type(class)", "SH": "parse==type(Decimal)", "SJ": "shared-fn", "SK": "shared-fn", "SL": "relative-path"}
UNLOGGED = {"SH"}          # parse is decimal.Decimal itself: no call log, the attribute value is compared instead
CUSTOM_SCALARS_PY = (
    "from vscal import Wrapped, _parse, _ser\n\nRel = Wrapped\nparse_rel = _parse(\"parse_rel\")\nser_rel = _ser(\"ser_rel\")\n")


def fname(s, i):
    return f"{s.lower()}{i}"


def build_sdl():
    leaf = [(fname(s, i), w.format(s)) for s in SCALARS for i, w in enumerate(WRAPPERS)]
    out = [f"scalar {s}" for s in SCALARS]
    out.append("type Obj {\n" + "\n".join(f"  {n}: {t}" for n, t in leaf) + "\n  child: Obj\n  kids: [Obj!]\n}")
    out.append("interface Node { id: ID! nb: SB nd: [SD] }")
    out.append("type NA implements Node { id: ID! nb: SB nd: [SD] extraA: SD }")
    out.append("type NB implements Node { id: ID! nb: SB nd: [SD] extraB: [SB!] }")
    out.append("union U = NA | NB")
    out.append("input In {\n" + "\n".join(f"  {n}: {t}" for n, t in leaf if not t.endswith("!")) +
               "\n  child: In\n  kids: [In!]\n}")
    out.append("input InReq {\n" + "\n".join(f"  {n}: {t}" for n, t in leaf if t.endswith("!")) + "\n}")
    args = ", ".join(f"{n}: {t}" for n, t in leaf)
    out.append(f"type Query {{\n  obj: Obj\n  node: Node\n  nodeReq: Node!\n  nodes: [Node!]\n  u: U\n  echo({args}): Int\n"
               f"  in1(i: In, l: [In!], r: InReq): Int\n}}")
    out.append(f"type Subscription {{\n  echo({args}): Int\n  in1(i: In, l: [In!], r: InReq): Int\n}}")
    return "\n\n".join(out) + "\n", leaf


def build_queries(leaf, subscriptions=False):
    allf = " ".join(n for n, _t in leaf)
    some = " ".join(n for n, _t in leaf[2::5])
    q = [f"query Results {{ obj {{ {allf} child {{ {some} ...ObjFrag child {{ sb0 }} }} kids {{ sd2 ...ObjFrag }} }} }}",
         "fragment ObjFrag on Obj { sb2 sd5 se0 sa1 }",
         "query Abstract { node { id nb nd ... on NA { extraA } ... on NB { extraB } } nodes { ...NodeFrag } "
         "u { ... on NA { nb extraA } ... on NB { extraB } } }",
         "fragment NodeFrag on Node { id nd ... on NA { extraA } }",
         "query Inputs($i: In, $l: [In!], $r: InReq) { in1(i: $i, l: $l, r: $r) }",
         # a NON-NULL abstract field under @include: generated as Optional[Union[...]] = None
         "query Cond($c: Boolean!) { nodeReq @include(if: $c) { id nb nd ... on NA { extraA } ... on NB { extraB } } }",
         # the same three shapes INSIDE the sub-language of C07_parse_once_op (Proofs/ResultsRunP.v op_ok): no named
         # spreads (they become mixin base classes), __typename selected explicitly at abstract positions
         f"query ResultsPlain {{ obj {{ {allf} child {{ {some} child {{ sb0 }} }} kids {{ sd2 }} }} }}",
         "query AbstractPlain { node { __typename id nb nd ... on NA { extraA } ... on NB { extraB } } "
         "nodes { __typename id nd ... on NA { extraA } } "
         "u { __typename ... on NA { nb extraA } ... on NB { extraB } } }",
         "query CondPlain($c: Boolean!) { nodeReq @include(if: $c) { __typename id nb nd ... on NA { extraA } ... on NB { extraB } } }"]
    for s in SCALARS:
        vs = [(n, t) for n, t in leaf if n.startswith(s.lower())]
        q.append(f"query Echo{s}(" + ", ".join(f"${n}: {t}" for n, t in vs) + ") { echo(" +
                 ", ".join(f"{n}: ${n}" for n, _t in vs) +
                 ", " + ", ".join(f"{n}: {dummy(t)}" for n, t in leaf if t.endswith("!") and not n.startswith(s.lower())) + ") }")
    if subscriptions:      # async clients only: the same arguments through the graphql-transport-ws subscribe payload
        q.append("subscription SubInputs($i: In, $l: [In!], $r: InReq) { in1(i: $i, l: $l, r: $r) }")
        vs = [(n, t) for n, t in leaf if n.startswith("sd")]
        q.append("subscription SubEchoSD(" + ", ".join(f"${n}: {t}" for n, t in vs) + ") { echo(" +
                 ", ".join(f"{n}: ${n}" for n, _t in vs) +
                 ", " + ", ".join(f"{n}: {dummy(t)}" for n, t in leaf if t.endswith("!") and not n.startswith("sd")) + ") }")
    return "\n\n".join(q) + "\n"


def dummy(t):
    return "[]" if t.startswith("[") else '"2020-01-01T00:00:00"'


# ------------------------------------------------------------------ values
RAW = ["2021-03-04T05:06:07", "1999-12-31T23:59:59"]


class Gen:
    def __init__(self, gs, rng, snake):
        self.gs, self.rng, self.snake = gs, rng, snake

    def raw(self, scalar):
        r = self.rng
        if scalar == "SA":
            return r.choice(RAW)
        if scalar == "SH":
            return r.choice([0.1, 2.5, "1.10", 7])
        return r.choice(["x", "2021-03-04T05:06:07", 17, {"k": [1, "two"]}])

    # ---- responses
    def response(self, t, mode, depth=0, nonnull=False):
        r = self.rng
        if isinstance(t, GraphQLNonNull):
            return self.response(t.of_type, mode, depth, True)
        if not nonnull and (mode == "null" or (mode == "rand" and r.random() < 0.25)):
            return None
        if isinstance(t, GraphQLList):
            n = 2 if mode == "full" else r.choice([0, 1, 2, 3])
            return [self.response(t.of_type, "rand" if mode == "null" else mode, depth + 1) for _ in range(n)]
        if isinstance(t, GraphQLScalarType):
            if t.name == "ID":
                return "id-1"
            return self.raw(t.name)
        raise TypeError(t)

    # ---- python argument values: (model sexp, driver encoding, intended JSON, [(ser name, raw)...] oracle)
    def arg(self, t, mode, nonnull=False):
        r = self.rng
        if isinstance(t, GraphQLNonNull):
            return self.arg(t.of_type, mode, True)
        if not nonnull and (mode == "null" or (mode == "rand" and r.random() < 0.3)):
            return Sym("none"), None, None, []
        if isinstance(t, GraphQLList):
            n = 2 if mode == "full" else r.choice([0, 1, 2])
            items = [self.arg(t.of_type, "rand" if mode == "null" else mode) for _ in range(n)]
            return ([Sym("l")] + [i[0] for i in items], [i[1] for i in items], [i[2] for i in items],
                    [o for i in items for o in i[3]])
        if isinstance(t, GraphQLScalarType) and t.name in ("String", "ID", "Int", "Boolean", "Float"):
            v = {"String": "s", "ID": "id-1", "Int": 3, "Boolean": True, "Float": 1.5}[t.name]
            return argenc.json_sx(v), v, v, []
        if isinstance(t, GraphQLScalarType):
            raw = self.raw(t.name)
            cfg = SCALARS[t.name]
            ser = cfg["serialize"].rsplit(".", 1)[-1] if cfg and cfg.get("serialize") else None
            if t.name == "SA":
                enc = {"$py": f"__import__('datetime').datetime.fromisoformat({raw!r})"}
            elif t.name == "SH":
                raw = str(raw)
                enc = {"$py": f"__import__('decimal').Decimal({raw!r})"}
            elif t.name == "SG":
                enc = {"$py": f"__import__('vscal').Sku.make({raw!r})"}
            elif cfg and cfg["type"].rsplit(".", 1)[-1] in ("Wrapped", "Rel"):
                enc = {"$py": f"__import__('vscal').Wrapped('user', {raw!r})"}
            else:
                enc = {"$dict": raw} if isinstance(raw, dict) else raw
            return [Sym("c"), json_sx(raw)], enc, ([ser, raw] if ser else raw), ([(ser, raw)] if ser else [])
        # input object
        kw_sx, kw, intent, occ = [], {}, {}, []
        for fname_, f in t.fields.items():
            required = isinstance(f.type, GraphQLNonNull)
            named = get_named_type(f.type)
            if not required and (mode == "min" or (mode != "full" and r.random() < 0.6)):
                continue
            if not isinstance(named, GraphQLScalarType):
                if mode == "min" or self.depth_left <= 0:
                    continue
                self.depth_left -= 1
            sx, enc, it, oc = self.arg(f.type, mode)
            py = process(fname_, self.snake)
            kw_sx.append([py, sx])
            kw[r.choice([fname_, py])] = enc
            intent[fname_] = it
            occ += oc
        return [Sym("m"), t.name] + kw_sx, {"$model": t.name, "kw": kw}, intent, occ

    depth_left = 3


def process(name, snake):
    from ariadne_codegen.utils import process_name

    return process_name(name, convert_to_snake_case=snake, trim_leading_underscore=True,
                        handle_pydantic_resrved_field_names=True)


def canon_logged(v):
    """argument as logged by vscal -> comparable JSON (Wrapped -> its raw)."""
    if isinstance(v, dict) and "$wrapped" in v:
        return v["$wrapped"][1]
    if isinstance(v, dict):
        return {k: canon_logged(x) for k, x in v.items()}
    if isinstance(v, list):
        return [canon_logged(x) for x in v]
    return v


def multiset(entries):
    return Counter(json.dumps(e, sort_keys=True) for e in entries)


def parse_name(scalar):
    cfg = SCALARS.get(scalar)
    return cfg["parse"].rsplit(".", 1)[-1] if cfg and cfg.get("parse") else None


def logged_parse_name(scalar):
    return None if scalar in UNLOGGED else parse_name(scalar)


def oracle_parse(gs, t, data, out):
    """non-null occurrences of scalars with parse configured, walking the response by schema type."""
    if data is None:
        return
    if isinstance(t, GraphQLNonNull):
        return oracle_parse(gs, t.of_type, data, out)
    if isinstance(t, GraphQLList):
        for x in data:
            oracle_parse(gs, t.of_type, x, out)
        return
    if isinstance(t, GraphQLScalarType):
        p = logged_parse_name(t.name)
        if p:
            out.append([p, data])
        return
    rt = gs.type_map[data["__typename"]] if "__typename" in data else t
    for k, v in data.items():
        if k != "__typename":
            oracle_parse(gs, rt.fields[k].type, v, out)


def model_pylog(e):
    if e == "none":
        return None
    return [[f, pyval_json(v)] for f, v in e[1]]


def pyval_json(e):
    if e == "none":
        return None
    if e == "unset":
        return {"$unset": True}
    tag = e[0]
    if tag == "c":
        return sx_json(e[1])
    if tag == "l":
        return [pyval_json(x) for x in e[1:]]
    if tag in ("i",):
        return int(e[1])
    if tag == "s":
        return e[1]
    return {"$other": e}


# ------------------------------------------------------------------ the run
def run(ctx):
    run = ctx.run
    run.rule = ("dedicated schema: 6 scalar configurations x 8 wrapper shapes as result fields (plain, nested, listed, in "
                "fragments, in interface/union variants), as top-level variables and as input-model fields (nested, "
                "listed); generated for snake case on/off x sync/async; responses / arguments in modes full, null, "
                "rand; non-trivial = distinct (configuration, operation, payload)")
    run.assumptions += ["pydantic 2.13 BeforeValidator / PlainSerializer / Optional / List semantics",
                        "graphql-core 3.2.12 coercion for the transmitted-JSON comparison",
                        "vscal (instrumented parse/serialize) is user code supplied next to the package"]
    sdl, leaf = build_sdl()
    queries = build_queries(leaf)
    gs = build_schema(sdl)
    cfg_sc = {k: v for k, v in SCALARS.items() if v}
    scs = []
    # the four bundled clients: sync / async x plain / OpenTelemetry (the latter driven without and WITH a tracer)
    for snake, async_, otel in [(True, True, False), (True, False, False), (False, True, False), (False, False, False),
                                (True, True, True), (False, False, True)]:
        if True:
            scs.append(Scenario(seed=len(scs), sdl=sdl, queries=build_queries(leaf, subscriptions=async_),
                                config={"convert_to_snake_case": snake, "async_client": async_, "scalars": cfg_sc,
                                        "opentelemetry_client": otel,
                                        "files_to_include": ["custom_scalars.py"]},
                                files={"vscal.py": argenc.VSCAL + VSCAL_EXTRA, "custom_scalars.py": CUSTOM_SCALARS_PY}))
    ssx = argenc.schema_sx(gs, cfg_sc)
    n_rounds = 6 if not ctx.thorough else 40
    with workers.Scratch() as sc:
        gens = scen.generate(scs, sc)
        for g in gens:
            if not g.ok:
                run.violation(f"the C07 scenario does not generate: {g.res.get('exc')}", {"schema": sdl, "queries": queries,
                              "config": g.sc.config, "tb": g.res.get("tb")})
                return
        k1_annotations(ctx, gens[0], gens[2], gs, ssx, leaf)
        results = scen.parallel(gens, lambda g: drive(ctx, g, gs, ssx, leaf, n_rounds), jobs=6)
    for g, rows in zip(gens, results):
        evaluate(ctx, g, gs, ssx, rows)
        if rows and rows[0][0] != "load":
            whole_response_logs(ctx, g, gs, rows)
    deep_inputs(ctx)
    custom_operations(ctx)


# ------------------------------------------------------------------ inputs nested >= 3 deep, include_all_inputs on / off
DEEP_SDL = """scalar SA
scalar SD
input L1 { tag: String next: L2 }
input L2 { next: L3 more: [L3!] }
input L3 { when: SA ws: [SD] next: L3 }
input Unused { x: SD y: Unused }
type Query { deep(x: L1, y: [L1!]): Int }
"""
DEEP_Q = "query Deep($x: L1, $y: [L1!]) { deep(x: $x, y: $y) }\n"


def deep_inputs(ctx):
    """A scalar with a dotted path (datetime.datetime) and one with hooks used ONLY three input levels below the
    operation's variable type; pruning of unused inputs on and off."""
    run = ctx.run
    gs = build_schema(DEEP_SDL)
    cfg_sc = {"SA": SCALARS["SA"], "SD": SCALARS["SD"]}
    scs = [Scenario(seed=100 + i, sdl=DEEP_SDL, queries=DEEP_Q,
                    config={"convert_to_snake_case": True, "async_client": False, "scalars": cfg_sc,
                            "include_all_inputs": inc},
                    files={"vscal.py": argenc.VSCAL + VSCAL_EXTRA}) for i, inc in enumerate((False, True))]
    ssx = argenc.schema_sx(gs, cfg_sc)
    with workers.Scratch() as sc:
        gens = scen.generate(scs, sc)
        for g in gens:
            inc = g.sc.config["include_all_inputs"]
            run.dist("deep_inputs", f"include_all_inputs={inc}")
            rep = {"schema": DEEP_SDL, "queries": DEEP_Q, "config": g.sc.config}
            if not g.ok:
                run.violation(f"deep inputs: generation fails: {g.res.get('exc')}", rep)
                continue
            ld = g.start()
            try:
                if not ld.get("ok"):
                    run.violation(f"deep inputs (include_all_inputs={inc}): the generated package does not import: "
                                  f"{json.dumps(ld.get('modules'))[:400]}", rep)
                    continue
                rng = random.Random(7 + ctx.seed)
                gen = Gen(gs, rng, True)
                rows = []
                for k in range(4 if not ctx.thorough else 20):
                    gen.depth_left = 6
                    x_sx, x_enc, x_int, x_occ = gen.arg(gs.type_map["L1"], "full" if k == 0 else "rand", True)
                    r = g.driver.ask({"cmd": "call_args", "method": "deep", "args": {"x": x_enc}, "intended": {"x": x_int}})
                    rows.append(("inputs", "deep", ([x_sx], x_occ), r))
            finally:
                g.stop()
            evaluate(ctx, g, gs, ssx, rows)


# ------------------------------------------------------------------ custom operation builder arguments
def custom_operations(ctx):
    """enable_custom_operations: arguments of Query.<field>(...) of every wrapper shape for scalars with serialize."""
    run = ctx.run
    leaf = [(f"{s.lower()}{i}", w.format(s)) for s in ("SC", "SD") for i, w in enumerate(WRAPPERS)]
    sdl = ("scalar SC\nscalar SD\ntype Query {\n  echo(" + ", ".join(f"{n}: {t}" for n, t in leaf) + "): Int\n  plain: Int\n}\n")
    gs = build_schema(sdl)
    cfg_sc = {"SC": SCALARS["SC"], "SD": SCALARS["SD"]}
    sc0 = Scenario(seed=200, sdl=sdl, queries="query Plain { plain }\n",
                   config={"convert_to_snake_case": True, "async_client": False, "scalars": cfg_sc,
                           "enable_custom_operations": True},
                   files={"vscal.py": argenc.VSCAL + VSCAL_EXTRA})
    with workers.Scratch() as sc:
        g = scen.generate([sc0], sc)[0]
        rep0 = {"schema": sdl, "config": sc0.config}
        if not g.ok:
            run.violation(f"custom operations: generation fails: {g.res.get('exc')}", rep0)
            return
        ld = g.start()
        try:
            if not ld.get("ok"):
                run.violation(f"custom operations: package does not import: {json.dumps(ld.get('modules'))[:400]}", rep0)
                return
            rng = random.Random(9 + ctx.seed)
            gen = Gen(gs, rng, True)
            ssx = argenc.schema_sx(gs, cfg_sc)
            # K1: the generated expressions of custom_queries.py vs Model/Args.v gen_cu
            tree = ast.parse(g.files()["custom_queries.py"])
            exprs = {}
            for node in ast.walk(tree):
                if isinstance(node, ast.Dict) and len(node.keys) == 2 and all(isinstance(k, ast.Constant) for k in node.keys) \
                        and [k.value for k in node.keys] == ["type", "value"]:
                    exprs[ast.unparse(node.values[0])] = ast.unparse(node.values[1])
            anns = model.batch(ENGINE, [[Sym("ann"), ssx, argenc.type_sx(gs.query_type.fields["echo"].args[n].type)] for n, _t in leaf])
            for (n, t), r in zip(leaf, anns):
                run.count()
                got = exprs.get(repr(t))
                exp = re.sub(r"\bx\b", process(n, True), r[2][2])
                if got != exp:
                    argenc.k1v(run, f"K1 custom operation value of {n}: {t}: generated {got!r} vs model {exp!r}", rep0)
            for k in range(6 if not ctx.thorough else 30):
                mode = ["full", "null", "rand"][k % 3] if k < 3 else "rand"
                args, occ, values, mcmds = {}, [], [], []
                for n, t in leaf:
                    gt = gs.query_type.fields["echo"].args[n].type
                    if not isinstance(gt, GraphQLNonNull) and (mode == "null" or rng.random() < 0.3):
                        continue          # None = "argument not given" in the builder API
                    sx, enc, it, oc = gen.arg(gt, "rand" if mode == "null" else mode, True)
                    args[process(n, True)] = enc
                    occ += oc
                    values.append(it)
                    mcmds.append([Sym("dlog"), ssx, argenc.type_sx(gt), sx])
                r = g.driver.ask({"cmd": "call_args", "method": "query", "args": args, "custom": {"field": "echo"}})
                run.count()
                run.dist("calls", "custom-operation")
                run.nontrivial_case(hash(("custom", json.dumps(values, sort_keys=True))))
                rep = dict(rep0, arguments=args, observed=r)
                log = [[e[1], canon_logged(e[2])] for e in (r.get("log_build") or []) + (r.get("log_call") or []) if e[0] == "ser"]
                exp = [[f, raw] for f, raw in occ]
                sent = (r.get("request") or {}).get("variables")
                problems = []
                if multiset(log) != multiset(exp):
                    extra = multiset(log) - multiset(exp)
                    missing = multiset(exp) - multiset(log)
                    problems.append(f"serialize calls differ from the non-None occurrences: extra {list(extra)[:2]} missing {list(missing)[:2]}")
                if sent is None:
                    problems.append(f"nothing sent: {r.get('exc')}")
                elif multiset(list(sent.values())) != multiset(values):
                    problems.append(f"transmitted values {list(sent.values())[:3]} differ from serialize(value) per occurrence {values[:3]}")
                m_log = [e for r4 in model.batch(ENGINE, mcmds) for e in (model_pylog(r4[3]) or [])]
                if multiset(log) != multiset(m_log):
                    argenc.k1v(run, f"K1 custom operation: serialize calls {log[:4]} vs model custom_arg_log {m_log[:4]}", rep)
                if problems:      # F15 is fixed (/repo 3032a3a): main stream
                    run.violation("custom operation: " + "; ".join(problems[:2]), rep)
        finally:
            g.stop()


VSCAL_EXTRA = '''

class Sku(Wrapped):
    """type == parse: the class itself is the parse function."""

    def __init__(self, raw, _log=True):
        if _log:
            LOG.append(["parse", "Sku", _enc(raw)])
        Wrapped.__init__(self, "Sku", raw)

    @classmethod
    def make(cls, raw):
        return cls(raw, _log=False)


def __getattr__(name):
    if name.startswith("ser_"):
        f = _ser(name)
    elif name.startswith("parse_"):
        f = _parse(name)
    else:
        raise AttributeError(name)
    globals()[name] = f
    return f
'''


def k1_annotations(ctx, g_snake, g_plain, gs, ssx, leaf):
    """annotations, dict values and imports of the generated files vs Model/Scalars.v"""
    run = ctx.run
    cmds = [[Sym("ann"), ssx, argenc.type_sx(gs.type_map["Obj"].fields[n].type)] for n, _t in leaf]
    res = model.batch(ENGINE, cmds)
    imp = {s: model.call(ENGINE, [Sym("imports"), [c["type"], argenc.opt(c.get("serialize")), argenc.opt(c.get("parse")),
                                                  argenc.opt(c.get("import"))]]) for s, c in SCALARS.items() if c}
    for g in (g_snake, g_plain):
        snake = g.sc.config["convert_to_snake_case"]
        files = g.files()
        trees = {k: ast.parse(v) for k, v in files.items() if k.endswith(".py")}

        def class_fields(mod, cls):
            for node in trees[mod].body:
                if isinstance(node, ast.ClassDef) and node.name == cls:
                    return {st.target.id: ast.unparse(st.annotation) for st in node.body if isinstance(st, ast.AnnAssign)}
            return None

        robj = class_fields("results.py", "ResultsObj") or {}
        iin = class_fields("input_types.py", "In") or {}
        ireq = class_fields("input_types.py", "InReq") or {}
        methods = argenc.client_methods(files["client.py"])
        for (n, t), r in zip(leaf, res):
            run.count()
            m_res, m_in, m_arg = r
            py = process(n, snake)
            run.dist("k1_annotations", KIND[n[:2].upper()])
            got_r = robj.get(py)
            got_i = (ireq if t.endswith("!") else iin).get(py)
            meth = methods.get(scen.method_name("Echo" + n[:2].upper()), {})
            p = {x[0]: x for x in meth.get("params", [])}.get(scen.param_name(n, snake))
            dv = dict(meth.get("dict") or []).get(n)
            exp_ann = m_arg[0] if p and p[2] else f"Union[{m_arg[0]}, UnsetType]"
            exp_dv = re.sub(r"\bx\b", scen.param_name(n, snake), m_arg[1])   # the model renders the parameter as x
            for what, got, exp in (("result annotation", got_r, m_res), ("input annotation", got_i, m_in),
                                   ("argument annotation", p and p[1], exp_ann), ("dict value", dv, exp_dv)):
                if got != exp:
                    argenc.k1v(run, f"K1 {what} of {n}: {t} (snake={snake}): generated {got!r} vs model {exp!r}",
                                  {"field": n, "type": t, "generated": got, "model": exp}, found_input=False)
        # imports: every module, every name coming from a scalar configuration
        for mod, used in (("results.py", SCALARS), ("input_types.py", SCALARS), ("client.py", SCALARS)):
            got = set()
            for node in trees[mod].body:
                if isinstance(node, ast.ImportFrom):
                    for a in node.names:
                        got.add(("." * node.level + (node.module or ""), a.name))
            names_used = {n.id for n in ast.walk(trees[mod]) if isinstance(n, ast.Name)}
            for s, rows in imp.items():
                for m, names in rows:
                    for nm in names:
                        run.count()
                        obj = nm.rsplit(".", 1)[-1]
                        if obj in names_used and (m, obj) not in got and (m, nm) not in got:
                            argenc.k1v(run, f"K1 imports: {mod} uses {obj} of scalar {s} but does not import it from {m}",
                                          {"module": mod, "imports": sorted(got)})
            for (m, nm) in got:
                if m in ("vscal", "datetime") and not any((m == mm and nm.rsplit('.', 1)[-1] in [x.rsplit('.', 1)[-1] for x in names])
                                                          for rows in imp.values() for mm, names in rows):
                    argenc.k1v(run, f"K1 imports: {mod} imports {nm} from {m}, which no scalar configuration yields",
                                  {"module": mod}, found_input=False)


def drive(ctx, g, gs, ssx, leaf, n_rounds):
    rng = random.Random(1000 + g.sc.seed + ctx.seed)
    snake = g.sc.config["convert_to_snake_case"]
    gen = Gen(gs, rng, snake)
    rows = []
    ld = g.start()
    if not ld.get("ok"):
        g.stop()
        return [("load", ld)]
    otel = bool(g.sc.config.get("opentelemetry_client"))
    tracer_box = [False]

    class _Drv:
        def ask(self, d):
            return g.driver.ask(dict(d, tracer=tracer_box[0]))

    drv = _Drv()
    plan_rounds = [(rnd, False) for rnd in range(n_rounds)]
    if otel:
        plan_rounds = [(rnd, tr) for tr in (False, True) for rnd in range(max(3, n_rounds // 2))]
    try:
        q = gs.query_type
        for rnd, tracer_on in plan_rounds:
            tracer_box[0] = tracer_on
            ctx.run.dist("clients", ("async" if g.sc.config["async_client"] else "sync") +
                         ("+otel" + ("+tracer" if tracer_on else "") if otel else ""))
            mode = ["full", "null", "rand"][rnd % 3] if rnd < 3 else "rand"
            # ---- results
            def obj(depth):
                d = {n: gen.response(f.type, mode) for n, f in gs.type_map["Obj"].fields.items() if n not in ("child", "kids")}
                return d
            leafnames = [n for n, _ in leaf]
            some = leafnames[2::5]
            frag = ["sb2", "sd5", "se0", "sa1"]
            top = obj(0)
            if mode != "null":
                full = obj(1)
                top["child"] = {k: full[k] for k in dict.fromkeys(some + frag)}
                top["child"]["child"] = None if mode == "rand" and rng.random() < 0.5 else {"sb0": gen.response(gs.type_map["Obj"].fields["sb0"].type, mode)}
                top["kids"] = [{k: obj(1)[k] for k in dict.fromkeys(["sd2"] + frag)} for _ in range(rng.choice([0, 1, 2]))]
            else:
                top["child"], top["kids"] = None, None
            data = {"obj": top if not (mode == "null" and rnd % 2) else None}
            r = drv.ask({"cmd": "call_args", "method": "results", "args": {}, "response_body": {"data": data},
                              "dump_result": True})
            rows.append(("results", mode, data, r))
            if data["obj"] is not None and data["obj"]["child"] is not None:
                ptop = dict(top, child={k: v for k, v in top["child"].items() if k in some or k == "child"},
                            kids=[{"sd2": kd["sd2"]} for kd in top["kids"]])
            else:
                ptop = top
            pdata = {"obj": ptop if data["obj"] is not None else None}
            r = drv.ask({"cmd": "call_args", "method": "results_plain", "args": {}, "response_body": {"data": pdata},
                         "dump_result": True})
            rows.append(("results_plain", mode, pdata, r))

            def node(kind):
                d = {"__typename": kind, "id": "id-1", "nb": gen.response(gs.type_map["SB"], mode),
                     "nd": gen.response(GraphQLList(gs.type_map["SD"]), mode)}
                if kind == "NA":
                    d["extraA"] = gen.response(gs.type_map["SD"], mode)
                else:
                    d["extraB"] = gen.response(GraphQLList(GraphQLNonNull(gs.type_map["SB"])), mode)
                return d
            n1 = node(rng.choice(["NA", "NB"]))
            nodes = []
            for _ in range(rng.choice([0, 1, 3])):
                k = rng.choice(["NA", "NB"])
                d = node(k)
                d.pop("nb")
                d.pop("extraB", None)
                nodes.append(d)
            u = node(rng.choice(["NA", "NB"]))
            u.pop("id"), u.pop("nd")
            if u["__typename"] == "NB":
                u.pop("nb")
            data = {"node": None if mode == "null" else n1, "nodes": nodes, "u": u}
            r = drv.ask({"cmd": "call_args", "method": "abstract", "args": {}, "response_body": {"data": data},
                              "dump_result": True})
            rows.append(("abstract", mode, data, r))
            r = drv.ask({"cmd": "call_args", "method": "abstract_plain", "args": {}, "response_body": {"data": data},
                         "dump_result": True})
            rows.append(("abstract_plain", mode, data, r))
            data = {"nodeReq": node(rng.choice(["NA", "NB"]))}
            r = drv.ask({"cmd": "call_args", "method": "cond", "args": {"c": True}, "response_body": {"data": data},
                              "dump_result": True})
            rows.append(("cond", mode, data, r))
            r = drv.ask({"cmd": "call_args", "method": "cond_plain", "args": {"c": True}, "response_body": {"data": data},
                         "dump_result": True})
            rows.append(("cond_plain", mode, data, r))
            # ---- top-level arguments
            for s in SCALARS:
                vs = [(n, gs.type_map["Obj"].fields[n].type) for n, _t in leaf if n.startswith(s.lower())]
                for amode in ([mode] if rnd < 3 else ["rand"]) + (["omit"] if rnd == 0 else []):
                    args, intended, per_var = {}, {}, []
                    for n, t in vs:
                        optional = not isinstance(t, GraphQLNonNull)
                        if optional and (amode == "omit" or (amode == "rand" and rng.random() < 0.3)):
                            per_var.append((n, t, Sym("unset"), None))
                            continue
                        sx, enc, it, occ = gen.arg(t, "rand" if amode == "omit" else amode)
                        args[scen.param_name(n, snake)] = enc
                        intended[n] = it
                        per_var.append((n, t, sx, occ))
                    r = drv.ask({"cmd": "call_args", "method": scen.method_name("Echo" + s), "args": args,
                                      "intended": intended})
                    rows.append(("echo", (s, amode), per_var, r))
                    if s == "SD" and g.sc.config["async_client"]:
                        r = drv.ask({"cmd": "call_args", "method": scen.method_name("SubEchoSD"), "args": args,
                                          "intended": intended})
                        rows.append(("echo", (s, amode + ":ws"), per_var, r))
            # ---- input models
            gen.depth_left = 3
            i_sx, i_enc, i_int, i_occ = gen.arg(gs.type_map["In"], "full" if mode == "full" else "rand", True)
            gen.depth_left = 2
            l_items = [gen.arg(gs.type_map["In"], "rand", True) for _ in range(rng.choice([0, 1, 2]))]
            r_sx, r_enc, r_int, r_occ = gen.arg(gs.type_map["InReq"], mode if mode != "null" else "rand", True)
            args = {"i": i_enc, "l": [x[1] for x in l_items], "r": r_enc}
            intended = {"i": i_int, "l": [x[2] for x in l_items], "r": r_int}
            r = drv.ask({"cmd": "call_args", "method": "inputs", "args": args, "intended": intended})
            rows.append(("inputs", mode, ([i_sx] + [x[0] for x in l_items] + [r_sx], i_occ + [o for x in l_items for o in x[3]] + r_occ), r))
            if g.sc.config["async_client"]:
                r = drv.ask({"cmd": "call_args", "method": scen.method_name("SubInputs"), "args": args, "intended": intended})
                rows.append(("inputs", mode + ":ws", ([i_sx] + [x[0] for x in l_items] + [r_sx], i_occ + [o for x in l_items for o in x[3]] + r_occ), r))
    finally:
        g.stop()
    return rows


def scalar_fields_of_model(gs, sx):
    """(field type, value sexp) for every scalar-typed field of a (nested) model value sexp."""
    out = []
    cls = gs.type_map[sx[1]]
    bypy = {}
    for n, f in cls.fields.items():
        bypy[process(n, True)] = f
        bypy[process(n, False)] = f
    for py, v in sx[2:]:
        f = bypy[py]
        named = get_named_type(f.type)
        if isinstance(named, GraphQLScalarType):
            out.append((f.type, v))
        else:
            out += models_in(gs, v)
    return out


def models_in(gs, v):
    if isinstance(v, list) and v and isinstance(v[0], Sym) and v[0].name == "m":
        return scalar_fields_of_model(gs, v)
    if isinstance(v, list) and v and isinstance(v[0], Sym) and v[0].name == "l":
        return [x for item in v[1:] for x in models_in(gs, item)]
    return []


RESPONSE_KINDS = ("results", "abstract", "cond", "results_plain", "abstract_plain", "cond_plain")


def whole_response_logs(ctx, g, gs, rows):
    """K2/K3 for Py/ParseLog.v: the model's parse log of validating each driven response against the classes
    Model/Results.v generates for the operation (C01's K1 ties those classes to the generated modules) vs the REAL log
    of the instrumented parse functions.  The hypotheses of C07_parse_once_op (op_ok with distinct Python names, a
    conformant duplicate-free response) are evaluated per case; where they fail the uniqueness guard of
    C07_parse_once_response is evaluated instead."""
    from graphql import FragmentDefinitionNode, OperationDefinitionNode
    from ..canon import encode

    run = ctx.run
    doc = parse(g.sc.queries)
    frs = [d for d in doc.definitions if isinstance(d, FragmentDefinitionNode)]
    ops = {d.name.value: d for d in doc.definitions if isinstance(d, OperationDefinitionNode)}
    cfg = g.res.get("config", {})
    C = [cfg.get("convert_to_snake_case", True), encode.scalars_cfg(cfg)]
    es, ef = encode.schema(gs), [encode.frag(f) for f in frs]
    opname = {"results": "Results", "abstract": "Abstract", "cond": "Cond",
              "results_plain": "ResultsPlain", "abstract_plain": "AbstractPlain", "cond_plain": "CondPlain"}
    todo = [(kind, data, r) for kind, _mode, data, r in rows if kind in opname and not r.get("exc")]
    if not todo:
        return
    cmds = [[Sym("parselog"), 400, C, es, ef, encode.operation(ops[opname[kind]]), [json_sx(data)]] for kind, data, r in todo]
    for (kind, data, r), res in zip(todo, model.batch(ENGINE, cmds, jobs=4)):
        run.count()
        if res[0] != "ok":
            run.dist("whole_response_log", f"model-refuses:{kind}:{str(res[1])[:40]}")
            continue
        plog_m, pocc_m, uniq_m, acc_m, thm_m = res[1][0]
        rep = {"config": g.sc.config, "operation": kind, "response": data}
        real = [canon_logged(e[2]) for e in (r.get("log_call") or []) if e[0] == "parse"]
        unlogged = {SCALARS[s]["type"].rsplit(".", 1)[-1] for s in UNLOGGED}
        mod = [sx_json(e[1]) for e in plog_m if e[0] not in unlogged]
        occ = [sx_json(e[1]) for e in pocc_m if e[0] not in unlogged]
        run.dist("whole_response_log", f"{kind}:uniq={uniq_m}:accepts={acc_m}")
        # thm_m: every hypothesis of C07_parse_once_op holds of this (operation, response) - the theorem, not the
        # evaluated guard, then gives acceptance and the permutation; outside (mixins, spreads beyond the sub-language,
        # colliding Python names) the evaluated guard below is what covers the case
        run.dist("whole_response_in_theorem", f"{kind}:{thm_m}")
        if thm_m == "t" and (uniq_m != "t" or acc_m != "t"):
            run.broken("extraction", f"whole response ({kind}): the extracted model contradicts C07_parse_once_op (uniq={uniq_m} accepts={acc_m})")
        if acc_m != "t":
            argenc.k1v(run, f"K2 whole response ({kind}): the model's classes do not accept a response the real classes accepted", rep)
            continue
        if uniq_m != "t":
            argenc.k1v(run, f"K2 whole response ({kind}): the uniqueness guard of C07_parse_once_response fails on a driven payload", rep)
        if multiset(mod) != multiset(real):
            argenc.k1v(run, f"K2 whole response ({kind}): model parse log {mod[:5]} vs real {real[:5]}", dict(rep, model=mod, real=real))
        if multiset(mod) != multiset(occ):
            argenc.k1v(run, f"K2 whole response ({kind}): plog is no permutation of pocc", rep)


def evaluate(ctx, g, gs, ssx, rows):
    run = ctx.run
    cfgname = f"snake={g.sc.config['convert_to_snake_case']} async={g.sc.config['async_client']}"
    if rows and rows[0][0] == "load":
        run.violation(f"the generated package does not import: {json.dumps(rows[0][1].get('modules'))[:500]}",
                      {"config": g.sc.config}, found_input=True)
        return
    cmds, slots = [], []
    for kind, mode, payload, r in rows:
        if kind == "echo":
            for n, t, sx, _occ in payload:
                cmds.append([Sym("dlog"), ssx, argenc.type_sx(t), sx])
                slots.append((kind, n))
        elif kind == "inputs":
            for sx in payload[0]:
                for t, v in scalar_fields_of_model(gs, sx):
                    cmds.append([Sym("dlog"), ssx, argenc.type_sx(t), v])
                    slots.append((kind, None))
    mres = iter(model.batch(ENGINE, cmds))
    for kind, mode, payload, r in rows:
        run.count()
        run.dist("calls", kind + (":ws-subscribe" if (isinstance(mode, str) and mode.endswith(":ws")) or (isinstance(mode, tuple) and mode[1].endswith(":ws")) else ""))
        rep = {"config": g.sc.config, "operation": kind, "mode": mode, "observed": r}
        log = [[e[1], canon_logged(e[2])] for e in (r.get("log_call") or [])]
        ser_log = [e for e, raw in zip(log, r.get("log_call") or []) if raw[0] == "ser"]
        par_log = [e for e, raw in zip(log, r.get("log_call") or []) if raw[0] == "parse"]
        if kind in RESPONSE_KINDS:
            data = payload
            run.nontrivial_case(hash((cfgname, kind, json.dumps(data, sort_keys=True))))
            rep["response"] = data
            if r.get("exc"):
                run.violation(f"{kind}: conformant response rejected: {r['exc']}", rep)
                continue
            exp = []
            for k, v in data.items():
                oracle_parse(gs, gs.query_type.fields[k].type, v, exp)
            run.dist("parse_occurrences", kind, len(exp))
            if multiset(par_log) != multiset(exp):
                extra = multiset(par_log) - multiset(exp)
                missing = multiset(exp) - multiset(par_log)
                what = f"{kind}: parse calls differ from the non-null occurrences: extra {dict(extra)} missing {dict(missing)}"
                run.violation(what, rep)      # (F30, the conditional abstract position, is fixed: /repo cbdf925)
            elif par_log != exp:
                run.dist("parse_order", "same multiset, different order")
            if ser_log:
                run.violation(f"{kind}: serialize called while validating a response: {ser_log[:3]}", rep)
            check_result_values(run, gs, data, r.get("result_repr"), rep)
            # model: per-field vlog vs oracle
            continue
        if kind == "echo":
            s, amode = mode
            run.nontrivial_case(hash((cfgname, kind, s, json.dumps([str(p[2]) for p in payload]))))
            rep["arguments"] = {n: str(sx) for n, _t, sx, _o in payload}
            exp, m_arg, bad_vars = [], [], set()
            for n, t, sx, occ in payload:
                m_d, m_occ, m_a, _m_cu = next(mres)
                f10 = "t"
                m_arg += model_pylog(m_a) or []
                if occ is not None:
                    exp += [[f, raw] for f, raw in occ]
                ma, mo = model_pylog(m_a), model_pylog(m_occ)
                if occ is not None and mo is not None and multiset(mo) != multiset([[f, raw] for f, raw in occ]):
                    argenc.k1v(run, f"K1 occ_ser of the model differs from the harness oracle for ${n}", dict(rep, var=n, model=mo), found_input=False)
                if (ma or []) != (mo or [] if occ is not None else []):
                    bad_vars.add(n)
                    if f10 == "t":
                        argenc.k1v(run, f"model: arg_log differs from occurrences for ${n} although g_f10 holds", rep, found_input=False)
            run.dist("serialize_occurrences", f"top-level:{KIND[s]}", len(exp))
            # K1: the model's arg_log is what the implementation did
            if multiset(ser_log) != multiset(m_arg):
                argenc.k1v(run, f"K1 Echo{s}: serialize calls {ser_log[:6]} vs model arg_log {m_arg[:6]}", rep, found_input=False)
            # K3: the property
            problems = []
            if multiset(ser_log) != multiset(exp):
                extra = multiset(ser_log) - multiset(exp)
                missing = multiset(exp) - multiset(ser_log)
                problems.append(f"serialize calls differ from the non-None occurrences: extra {list(extra)[:3]} missing {list(missing)[:3]}")
            sent, intended = r.get("sent") or {}, r.get("intended") or {}
            if r.get("request", {}).get("query") is None:
                problems.append(f"nothing sent: {r.get('exc')}")
            elif "coerced" in sent and "coerced" in intended:
                for n in set(sent["coerced"]) | set(intended["coerced"]):
                    if not argenc.same_value(sent["coerced"].get(n, "<absent>"), intended["coerced"].get(n, "<absent>")):
                        problems.append(f"${n} transmitted as {sent['coerced'].get(n, '<absent>')!r}, meant {intended['coerced'].get(n, '<absent>')!r}")
            else:
                problems.append(f"sent variables rejected: {sent.get('errors') or intended.get('errors')}")
            if problems:      # F10 is fixed (/repo d163d56): the class is back in the main stream
                run.violation(f"Echo{s}: " + "; ".join(problems[:2]), rep)
            continue
        if kind == "inputs":
            sxs, occ = payload
            run.nontrivial_case(hash((cfgname, kind, str(sxs))))
            exp = [[f, raw] for f, raw in occ]
            m_log, f21 = [], False
            for sx in sxs:
                for t, v in scalar_fields_of_model(gs, sx):
                    m_d, m_occ, _a, _m_cu = next(mres)
                    md = model_pylog(m_d)
                    m_log += md or []
                    if md != model_pylog(m_occ):
                        argenc.k1v(run, "model: dlog differs from occ_ser", rep, found_input=False)
            run.dist("serialize_occurrences", "input-model-fields", len(exp))
            if r.get("exc") and r["exc"][0].startswith("args:"):
                (run.finding if f21 else run.violation)(*((["F21-nonnull-list-nullable-items"] if f21 else []) +
                                                          [f"inputs: schema-valid input model cannot be built: {r['exc'][1][:200]}", rep]))
                continue
            construct = [[e[1], canon_logged(e[2])] for e in (r.get("log_construct") or [])]
            if construct:
                run.violation(f"inputs: hooks called while constructing the models: {construct[:3]}", rep)
            problems = []
            # (F31 - subscription variables converted twice under a tracer - is fixed: /repo ea8d0e4; no routing)
            if multiset(ser_log) != multiset(exp):
                extra = multiset(ser_log) - multiset(exp)
                missing = multiset(exp) - multiset(ser_log)
                problems.append(f"serialize calls differ from the non-None occurrences: extra {list(extra)[:3]} missing {list(missing)[:3]}")
            if multiset(ser_log) != multiset(m_log):
                argenc.k1v(run, f"K1 inputs: serialize calls {ser_log[:5]} vs model dlog {m_log[:5]}", rep, found_input=False)
            sent, intended = r.get("sent") or {}, r.get("intended") or {}
            if "coerced" in sent and "coerced" in intended:
                if not argenc.same_value(sent["coerced"], intended["coerced"]):
                    problems.append(f"transmitted {sent['coerced']!r}, meant {intended['coerced']!r}")
            else:
                problems.append(f"not sent / rejected: {r.get('exc')} {sent.get('errors')}")
            if problems:
                if f21:
                    run.finding("F21-nonnull-list-nullable-items", "inputs: " + "; ".join(problems[:2]), rep)
                else:
                    run.violation("inputs: " + "; ".join(problems[:2]), rep)
    if len(run.samples) < 3:
        for kind, mode, payload, r in rows:
            if kind == "results" and mode == "full":
                run.sample({"config": cfgname, "operation": kind, "parse_log": (r.get("log_call") or [])[:6]})
                break


def check_result_values(run, gs, data, repr_, rep):
    """every non-null occurrence of a scalar with parse reaches user code as parse(raw) (= Wrapped(parse name, raw))."""
    bad = []

    def walk(t, d, o, path):
        if d is None:
            if o is not None:
                bad.append((path, "null became", o))
            return
        if isinstance(t, GraphQLNonNull):
            return walk(t.of_type, d, o, path)
        if isinstance(t, GraphQLList):
            if not isinstance(o, list) or len(o) != len(d):
                bad.append((path, "list", o))
                return
            for i, (x, y) in enumerate(zip(d, o)):
                walk(t.of_type, x, y, path + [i])
            return
        if isinstance(t, GraphQLScalarType):
            p = parse_name(t.name)
            if t.name == "SH":
                import decimal

                if not (isinstance(o, dict) and o.get("$repr") == repr(decimal.Decimal(d))):
                    bad.append((path, f"expected parse(raw) = {decimal.Decimal(d)!r}", o))
            elif p:
                if not (isinstance(o, dict) and o.get("$repr") == f"Wrapped({p!r}, {d!r})"):
                    bad.append((path, f"expected parse result Wrapped({p!r}, {d!r})", o))
            elif t.name == "SA":
                if not (isinstance(o, dict) and "datetime" in o.get("$repr", "")):
                    bad.append((path, "expected datetime", o))
            else:
                cmp_o = o.get("$dict") if isinstance(o, dict) and "$dict" in o else o
                if json.dumps(cmp_o, sort_keys=True, default=str) != json.dumps(d, sort_keys=True):
                    bad.append((path, f"expected unchanged {d!r}", o))
            return
        rt = gs.type_map[d["__typename"]] if "__typename" in d else t
        fields = (o or {}).get("fields", {}) if isinstance(o, dict) else {}
        for k, v in d.items():
            if k == "__typename":
                continue
            cands = [process(k, True), process(k, False), k]
            got = next((fields[c] for c in cands if c in fields), "<missing>")
            walk(rt.fields[k].type, v, got, path + [k])

    if repr_ is None:
        return
    for k, v in data.items():
        got = next((repr_["fields"][c] for c in (process(k, True), process(k, False), k) if c in repr_["fields"]), "<missing>")
        walk(gs.query_type.fields[k].type, v, got, [k])
    if bad:
        run.violation(f"result attribute values are not parse(raw): {bad[:3]}", dict(rep, bad=bad[:10]))
