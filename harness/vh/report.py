"""Evidence, violations, known findings — the protocol of DESIGN §5."""
from __future__ import annotations

import json
import os
import sys
import time

VERIF = os.environ.get("VERIF_ROOT", "/verif")


def load_known_findings(prop: str) -> list[dict]:
    """known_findings/<prop>.json — committed, read-only at run time."""
    p = os.path.join(VERIF, "known_findings", f"{prop}.json")
    if not os.path.exists(p):
        return []
    return json.load(open(p))["findings"]


class Run:
    def __init__(self, prop: str, tier: str, seed: int):
        self.prop, self.tier, self.seed = prop, tier, seed
        self.t0 = time.time()
        self.evaluations = 0
        self.nontrivial: set = set()
        self.rule = ""
        self.samples: list = []
        self.violations: list[dict] = []
        self.known_hit: dict[str, dict] = {}
        self.extra: dict = {}
        self.assumptions: list[str] = []
        self.coq: dict = {}
        self.exhaustive = False
        self.findings = [f for f in load_known_findings(prop) if f["property"] == prop]
        self.open_classes = {f["class"]: f for f in self.findings if f.get("status") == "open"}

    # ---- counting ----
    def count(self, n: int = 1):
        self.evaluations += n

    def nontrivial_case(self, key):
        self.nontrivial.add(key)

    def sample(self, s, limit: int = 12):
        if len(self.samples) < limit:
            self.samples.append(s)

    def dist(self, key: str, sub: str, n: int = 1):
        d = self.extra.setdefault("distribution", {}).setdefault(key, {})
        d[sub] = d.get(sub, 0) + n

    # ---- outcomes ----
    def violation(self, what: str, replay: dict, found_input: bool = True):
        """A property failure outside every listed finding class (or a broken obligation)."""
        self.violations.append({"what": what, "replay": replay, "found_input": found_input})

    def finding(self, cls: str, what: str, replay: dict):
        """A failure inside finding class `cls`: KNOWN-FINDING if listed open, VIOLATION otherwise."""
        if cls in self.open_classes:
            self.known_hit.setdefault(cls, {"what": what, "replay": replay, "count": 0})["count"] += 1
        else:
            self.violation(f"[{cls}] {what}", replay)

    def broken(self, stage: str, detail: str):
        """Machinery/obligation/correspondence failure with no concrete failing input."""
        self.violation(f"{stage}: {detail}", {"stage": stage, "detail": detail[-3000:]}, found_input=False)

    # ---- end ----
    def finish(self) -> int:
        # VERIF_OUT_DIR redirects evidence/ and replays/ (used when checks run against a seeded scratch tree,
        # so that the committed evidence of the unchanged tree is not overwritten)
        out_root = os.environ.get("VERIF_OUT_DIR") or VERIF
        os.makedirs(os.path.join(out_root, "replays"), exist_ok=True)
        os.makedirs(os.path.join(out_root, "evidence"), exist_ok=True)
        for cls, h in self.known_hit.items():
            f = self.open_classes[cls]
            print(f"KNOWN-FINDING: property={self.prop} {f['what']} [class {cls}; {h['count']} case(s) this run]")
        # listed-open findings that did not reproduce are reported (not an error)
        for cls in self.open_classes:
            if cls not in self.known_hit:
                self.extra.setdefault("findings_not_reproduced", []).append(cls)
        lines = []
        for i, v in enumerate(self.violations):
            path = os.path.join(out_root, "replays", f"{self.prop}-{self.seed}-{i}.json")
            with open(path, "w") as fh:
                json.dump({"property": self.prop, "what": v["what"], **v["replay"]}, fh, indent=1, default=str)
            tail = "" if v["found_input"] else " no-failing-input-found"
            lines.append(f"VIOLATION property={self.prop} replay={path}{tail}")
            if i >= 20:
                break
        coq = self.coq
        cov = {
            "obligations": max(coq.get("obligations", 0), 1),
            "discharged": coq.get("discharged", 0),
            "checker_cmd": coq.get("checker_cmd", "n/a"),
            "trusted_base": [
                "Coq 8.16.1 kernel (coqc; vm_compute used, native_compute not)",
                "axioms reported by Print Assumptions: " + (", ".join(coq.get("axioms", [])) or "none (Closed under the global context)"),
                "extraction: ExtrOcamlBasic directives only; coq/driver/driver.ml (S-expression I/O)",
                "Python correspondence harness /verif/harness/vh (generators, canonicalisers, diff)",
            ] + self.assumptions,
            "theorems": coq.get("theorems", []),
            "print_assumptions": coq.get("assumptions", {}),
            "evaluations": max(self.evaluations, 1),
            "distinct_nontrivial": len(self.nontrivial),
            "rule": self.rule,
            "samples": self.samples or ["(no samples)"],
            "exhaustive": self.exhaustive,
            "known_findings_reproduced": {k: v["count"] for k, v in self.known_hit.items()},
        }
        if "coqchk" in coq:
            cov["coqchk"] = coq["coqchk"]
        cov.update(self.extra)
        ev = {
            "property_id": self.prop, "tier": self.tier, "seed": self.seed, "level": "proof",
            "coverage": cov, "assumptions": self.assumptions,
            "wall_s": round(time.time() - self.t0, 2), "violations": len(self.violations),
        }
        with open(os.path.join(out_root, "evidence", f"{self.prop}.json"), "w") as fh:
            json.dump(ev, fh, indent=1, default=str)
        for l in lines:
            print(l)
        sys.stdout.flush()
        return 1 if self.violations else 0
