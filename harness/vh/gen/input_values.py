"""Canonical-form values for GraphQL input types, and labelled single-point mutations of them (C06)."""
from __future__ import annotations

import copy
import random

from graphql import (GraphQLEnumType, GraphQLInputObjectType, GraphQLList, GraphQLNonNull, GraphQLScalarType,
                     Undefined)

NONCANONICAL = {"id_int", "list_scalar"}   # accepted by graphql-core, outside the canonical form of the spec


class VGen:
    def __init__(self, gs, rng: random.Random):
        self.gs, self.rng = gs, rng

    def leaf(self, t):
        r = self.rng
        if isinstance(t, GraphQLEnumType):
            return r.choice(list(t.values))
        return {
            "Int": r.choice([0, 7, -3, 2147483647]), "Float": r.choice([0.5, 2.25, 4]),
            "String": r.choice(["s", "hello world", "", "zażółć"]), "Boolean": r.random() < 0.5,
            "ID": r.choice(["id-1", "77"]), "DateTime": "2021-03-04T05:06:07",
        }.get(t.name, r.choice([{"blob": 1}, 5, "txt"]))

    def value(self, t, mode="rand", depth=0, nonnull=False):
        """mode: min (required fields only, empty lists), full (everything, no nulls), rand,
        nulls (null wherever the type allows it one level down: null items, null fields)"""
        r = self.rng
        if isinstance(t, GraphQLNonNull):
            return self.value(t.of_type, mode, depth, True)
        if not nonnull:
            if mode == "nulls" and depth > 0:
                return None
            if mode == "rand" and r.random() < 0.2:
                return None
        if isinstance(t, GraphQLList):
            n = {"min": 0, "full": 2, "nulls": 2}.get(mode, r.choice([0, 1, 2]))
            if depth >= 3:
                n = 0
            return [self.value(t.of_type, mode, depth + 1) for _ in range(n)]
        if isinstance(t, (GraphQLEnumType, GraphQLScalarType)):
            return self.leaf(t)
        if isinstance(t, GraphQLInputObjectType):
            out = {}
            for fn, f in t.fields.items():
                required = isinstance(f.type, GraphQLNonNull) and f.default_value is Undefined
                if not required:
                    if mode == "min" or depth >= 2:
                        continue
                    if mode == "rand" and r.random() < 0.45:
                        continue
                out[fn] = self.value(f.type, mode, depth + 1)
            return out
        raise TypeError(t)

    # ------------------------------------------------------------ mutations
    def mutations(self, t: GraphQLInputObjectType, v: dict):
        """[(label, mutated value)] single-point mutations of the top-level object v of type t"""
        r = self.rng
        out = []
        for fn, f in t.fields.items():
            ft = f.type
            nn = isinstance(ft, GraphQLNonNull)
            required = nn and f.default_value is Undefined
            inner = ft.of_type if nn else ft
            if fn in v:
                if required:
                    w = copy.deepcopy(v)
                    del w[fn]
                    out.append(("drop_required", w))
                if nn:
                    w = copy.deepcopy(v)
                    w[fn] = None
                    out.append(("null_nonnull", w))
            bad = None
            if isinstance(inner, GraphQLEnumType):
                bad = [("bad_enum", "NOT_A_VALUE__"), ("enum_int", 1)]
            elif isinstance(inner, GraphQLScalarType):
                bad = {
                    "Int": [("int_str", "12"), ("int_bool", True), ("int_big", 2 ** 40), ("int_word", "abc"),
                            ("int_list", [1])],
                    "Float": [("float_int", 3), ("float_str", "abc"), ("float_numstr", "12")],
                    "String": [("str_int", 5), ("str_bool", False)],
                    "ID": [("id_int", 5), ("id_bool", True)],
                    "Boolean": [("bool_int", 1), ("bool_str", "true"), ("bool_word", "maybe"), ("bool_two", 2)],
                }.get(inner.name)
            elif isinstance(inner, GraphQLList):
                item = inner.of_type
                if isinstance(item, GraphQLNonNull):
                    w = copy.deepcopy(v)
                    w[fn] = [None]
                    out.append(("null_item_nonnull", w))
                named = item.of_type if isinstance(item, GraphQLNonNull) else item
                if isinstance(named, (GraphQLScalarType, GraphQLEnumType)) and \
                        getattr(named, "name", "") in ("Int", "String", "Boolean", "Float", "ID"):
                    bad = [("list_scalar", self.leaf(named)), ("list_obj", {"a": 1})]
            elif isinstance(inner, GraphQLInputObjectType):
                bad = [("obj_list", []), ("obj_str", "x")]
            for label, b in (bad or []):
                w = copy.deepcopy(v)
                w[fn] = b
                out.append((label, w))
        w = copy.deepcopy(v)
        w["zzUnknownKey"] = 1
        out.append(("unknown_key", w))
        r.shuffle(out)
        return out


def f21_null(t, v, nullable=True) -> bool:
    """does v contain a null list item at a position where the generator's threaded flag is 'non-null'
    although the item type is nullable (finding F21)?  Mirrors Model/Inputs.v g21 along the value."""
    if isinstance(t, GraphQLNonNull):
        return f21_null(t.of_type, v, False)
    if v is None:
        return False
    if isinstance(t, GraphQLList):
        if not isinstance(v, list):
            return False
        item_t = t.of_type
        for x in v:
            if x is None and not nullable and not isinstance(item_t, GraphQLNonNull):
                return True
            if f21_null(item_t, x, nullable):
                return True
        return False
    if isinstance(t, GraphQLInputObjectType) and isinstance(v, dict):
        return any(f21_null(t.fields[k].type, x, True) for k, x in v.items() if k in t.fields)
    return False


def reachable_inputs(t, v, acc=None):
    """names of the input object types instantiated by value v of type t"""
    acc = set() if acc is None else acc
    if isinstance(t, (GraphQLNonNull, GraphQLList)):
        if isinstance(t, GraphQLList) and isinstance(v, list):
            for x in v:
                reachable_inputs(t.of_type, x, acc)
        elif isinstance(t, GraphQLNonNull):
            reachable_inputs(t.of_type, v, acc)
        return acc
    if isinstance(t, GraphQLInputObjectType) and isinstance(v, dict):
        acc.add(t.name)
        for k, x in v.items():
            if k in t.fields:
                reachable_inputs(t.fields[k].type, x, acc)
    return acc
