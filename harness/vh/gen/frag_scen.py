"""Seeded scenarios for C08: fragment graphs over a small zoo schema.

Shapes: chain, diamond, shared (one fragment used by several operations, as base in one and unpacked in
another), iface (fragments on an interface and on its implementations), union, inline (fragments containing
inline fragments), unused, mixed (random DAG).  @mixin(from:, import:) is placed on composite fields, leaf
fields and fragment definitions.  Every document is validated with ariadne-codegen's rule set (all
specified rules except NoUnusedFragments) against the schema extended with the @mixin directive.
"""
from __future__ import annotations

import random

from graphql import NoUnusedFragmentsRule, build_schema, parse, print_ast, specified_rules, validate

from .scenario import Scenario

RULES = [r for r in specified_rules if r is not NoUnusedFragmentsRule]
MIXIN_DIRECTIVE = "\ndirective @mixin(from: String, import: String) repeatable on FIELD | FRAGMENT_DEFINITION\n"

SDL = """
enum Kind { WILD TAME }

interface Named {
  name: String
}

interface Animal implements Named {
  id: ID!
  name: String
  kind: Kind
  owner: Person
}

type Dog implements Animal & Named {
  id: ID!
  name: String
  kind: Kind
  owner: Person
  bark: Int
  friends: [Animal!]
  mate: Dog
}

type Cat implements Animal & Named {
  id: ID!
  name: String
  kind: Kind
  owner: Person
  lives: Int
}

type Address {
  city: String
  zip: String
}

type Person {
  id: ID!
  name: String
  age: Int
  pets: [Pet!]
  best: Animal
  address: Address
  boss: Person
}

union Pet = Dog | Cat

type Query {
  animal: Animal
  animals: [Animal!]!
  dog: Dog
  cat: Cat
  pet: Pet
  person: Person
  people: [Person]
}
"""

LEAVES = {"Named": ["name"], "Animal": ["id", "name", "kind"], "Dog": ["id", "name", "kind", "bark"], "Cat": ["id", "name", "kind", "lives"],
          "Person": ["id", "name", "age"], "Address": ["city", "zip"]}
COMPOSITE = {"Named": [], "Animal": [("owner", "Person")], "Dog": [("owner", "Person"), ("friends", "Animal"), ("mate", "Dog")],
             "Cat": [("owner", "Person")],
             "Person": [("pets", "Pet"), ("best", "Animal"), ("address", "Address"), ("boss", "Person")],
             "Address": [], "Pet": []}
ROOTS = [("animal", "Animal"), ("animals", "Animal"), ("dog", "Dog"), ("cat", "Cat"), ("pet", "Pet"),
         ("person", "Person"), ("people", "Person")]
IMPLS = {"Animal": ["Dog", "Cat"], "Pet": ["Dog", "Cat"]}
SHAPES = ["chain", "diamond", "shared", "iface", "union", "inline", "unused", "mixed", "conditional", "nested_mention", "iface_cond"]
# fragment names are written in every case style: the generator keys its dictionaries by the WRITTEN name and
# PascalCases it for the class, so the two must never be confused
NAME_STYLES = ["Pascal", "lowerCamel", "snake_case", "UPPER", "digits_underscores", "case_twin"]

MIXINS_PY = "".join(f"class Mixin{c}:\n    def mixin_{c.lower()}(self):\n        return '{c}'\n\n\n" for c in "ABC")


class FragGen:
    def __init__(self, seed: int):
        self.r = random.Random(seed)
        self.seed = seed
        self.frags: dict[str, tuple[str, str, str]] = {}  # name -> (type, directive text, body)
        self.n_mixin_dirs = 0
        self.n_conds = 0
        self.in_fragment = False
        k = seed // 1000
        self.style = (NAME_STYLES + ["mixed_styles"])[(k // len(SHAPES) + k) % (len(NAME_STYLES) + 1)]
        self.styles_used = set()
        self.uses_var = False

    def cond(self, in_fragment=False) -> str:
        """@skip/@include: a literal inside fragment definitions (they declare no variables), the operation's
        Boolean variable $c elsewhere (so responses with the container skipped are produced, too)."""
        self.n_conds += 1
        if in_fragment or self.r.random() < 0.3:
            return " " + self.r.choice(["@include(if: true)", "@skip(if: false)", "@include(if: false)", "@skip(if: true)"])
        self.uses_var = True
        return " " + self.r.choice(["@include(if: $c)", "@skip(if: $c)"])

    def mixin(self, p=0.15) -> str:
        if self.r.random() < p:
            self.n_mixin_dirs += 1
            return f' @mixin(from: "mixins_impl", import: "Mixin{self.r.choice("ABC")}")'
        return ""

    def leaves(self, t, lo=1, hi=3):
        if t == "Pet":
            return []
        fs = self.r.sample(LEAVES[t], self.r.randint(lo, min(hi, len(LEAVES[t]))))
        return [f + (self.mixin(0.04)) for f in fs]

    def frag_name(self, t):
        # random leading letter: alphabetical order (the order the generator visits fragments in) must be
        # unrelated to the dependency order; the style decides how written name and class name differ
        n = len(self.frags)
        lead = self.r.choice("abmxz")
        style = self.style if self.style != "mixed_styles" else self.r.choice(NAME_STYLES[:5])
        if style == "Pascal":
            name = f"{lead.upper()}{t}F{n}"
        elif style == "lowerCamel":
            name = f"{lead}{t}Details{n}"
        elif style == "snake_case":
            name = f"{lead}_{t.lower()}_frag_{n}"
        elif style == "UPPER":
            name = f"{lead.upper()}_{t.upper()}_F{n}"
        elif style == "digits_underscores":
            name = f"{lead}{n}_{t}__x{n}"
        else:  # case_twin: names that differ from an earlier one only in the case of interior letters
            name = f"{lead}{t.lower()}frag{n}" if n % 2 == 0 else f"{lead}{t.lower()}Frag{n}"
        self.styles_used.add(style)
        return name

    def new_fragment(self, t, body_parts, directive="") -> str:
        name = self.frag_name(t)
        self.frags[name] = (t, directive, "{ " + " ".join(body_parts) + " }")
        return name

    def compatible_spreads(self, t, pool):
        """fragments of `pool` that may be spread in a selection set on type t (always valid GraphQL)."""
        out = []
        for n in pool:
            ft = self.frags[n][0]
            if ft == t or ft in IMPLS.get(t, []) or t in IMPLS.get(ft, []):
                out.append(n)
        return out

    def selection(self, t, depth, pool, p_spread=0.6) -> list[str]:
        r = self.r
        parts = self.leaves(t, 1, 2) if t != "Pet" else []
        if t == "Pet" and r.random() < 0.5:
            parts.append("__typename")
        cands = self.compatible_spreads(t, pool)
        if cands and r.random() < p_spread:
            for n in r.sample(cands, r.randint(1, min(2, len(cands)))):
                parts.append("..." + n + (self.cond(self.in_fragment) if r.random() < 0.15 else ""))
        if t in IMPLS and r.random() < 0.5:
            o = r.choice(IMPLS[t])
            parts.append(f"... on {o}{self.cond(self.in_fragment) if r.random() < 0.15 else ''} {{ " + " ".join(self.leaves(o, 1, 2)) + " }")
        if depth > 0:
            for fname, ft in COMPOSITE[t]:
                if r.random() < 0.4:
                    sub = self.selection(ft, depth - 1, pool, p_spread)
                    if sub:
                        parts.append(f"{fname}{self.mixin(0.2)} {{ " + " ".join(sub) + " }")
        if not parts:
            parts = ["__typename"]
        return parts

    def build(self):
        r = self.r
        shape = SHAPES[(self.seed // 1000) % len(SHAPES)]   # balanced over consecutive scenario seeds
        ops = []
        T = r.choice(["Animal", "Dog", "Person", "Cat"])
        root_of = {t: [f for f, ft in ROOTS if ft == t] for t in ["Animal", "Dog", "Cat", "Pet", "Person"]}

        def op(name, root_field, parts):
            v = "($c: Boolean!)" if any("$c" in x for x in parts) else ""
            ops.append(f"query {name}{v} {{ {root_field} {{ " + " ".join(parts) + " } }")

        if shape == "chain":
            k = r.randint(3, 5)
            prev = None
            for i in range(k):
                body = self.leaves(T, 1, 2) + (["..." + prev] if prev else [])
                prev = self.new_fragment(T, body, self.mixin(0.25))
            op("Chain", r.choice(root_of[T]), ["..." + prev] + self.leaves(T, 0, 1))
            if k >= 3:
                # top and bottom of the chain side by side: the bottom is inherited TRANSITIVELY
                first = list(self.frags)[0]
                op("ChainEnds", r.choice(root_of[T]), ["..." + prev, "..." + first])
        elif shape == "diamond":
            d = self.new_fragment(T, self.leaves(T, 1, 2), self.mixin(0.25))
            b = self.new_fragment(T, self.leaves(T, 1, 1) + ["..." + d])
            c = self.new_fragment(T, self.leaves(T, 1, 1) + ["..." + d], self.mixin(0.25))
            a = self.new_fragment(T, ["..." + b, "..." + c] + (["..." + d] if r.random() < 0.5 else []))
            op("Diamond", r.choice(root_of[T]), ["..." + a])
            if r.random() < 0.5:
                op("DiamondSide", r.choice(root_of[T]), ["..." + c, "..." + d])
        elif shape == "shared":
            base = self.new_fragment("Animal", self.leaves("Animal", 1, 2), self.mixin(0.25))
            af = self.new_fragment("Animal", self.leaves("Animal", 1, 1) + (["..." + base] if r.random() < 0.7 else []))
            op("AsBase", "animal", ["..." + af])
            op("Unpacked", r.choice(["dog", "cat"]), ["..." + af] + self.leaves("Dog", 0, 0))
            if r.random() < 0.5:
                op("InList", "animals", ["..." + af, "... on Dog { bark }"])
            if r.random() < 0.5:
                op("Nested", "person", ["id", "best { ..." + af + " }"])
        elif shape == "iface":
            fa = self.new_fragment("Animal", self.leaves("Animal", 1, 2), self.mixin(0.2))
            fd = self.new_fragment("Dog", self.leaves("Dog", 1, 2) + (["..." + fa] if r.random() < 0.5 else []))
            fc = self.new_fragment("Cat", self.leaves("Cat", 1, 2), self.mixin(0.2))
            op("Variants", r.choice(["animal", "animals"]), r.sample(["..." + fa, "..." + fd, "..." + fc], r.randint(1, 3)))
            op("Exact", "dog", ["..." + fd])
            if r.random() < 0.5:
                op("OnlySub", "animal", ["id", "..." + fc])
        elif shape == "union":
            fd = self.new_fragment("Dog", self.leaves("Dog", 1, 2), self.mixin(0.2))
            fu = self.new_fragment("Pet", ["... on Dog { ..." + fd + " }", "... on Cat { lives }"])
            op("UnionDirect", "pet", ["__typename", "..." + fd, "... on Cat { name }"])
            op("UnionFrag", "pet", ["..." + fu])
            if r.random() < 0.6:
                op("PetsOf", "person", ["pets { __typename ..." + fd + " }"])
        elif shape == "inline":
            fi = self.new_fragment("Animal", self.leaves("Animal", 1, 1) + ["... on Dog { bark }"])
            fs = self.new_fragment("Dog", ["... on Dog { " + " ".join(self.leaves("Dog", 1, 2)) + " }"])
            plain = self.new_fragment("Dog", self.leaves("Dog", 1, 2), self.mixin(0.2))
            op("InlineIface", "animal", ["..." + fi])
            op("InlineSame", "dog", ["..." + fs, "..." + plain])
            if r.random() < 0.5:
                op("InlineAtDog", "dog", ["..." + fi])
        elif shape == "unused":
            used = self.new_fragment(T, self.leaves(T, 1, 2))
            u1 = self.new_fragment(T, self.leaves(T, 1, 2) + (["..." + used] if r.random() < 0.6 else []), self.mixin(0.3))
            self.new_fragment("Pet", ["... on Dog { bark }"])
            if r.random() < 0.5:
                self.new_fragment("Animal", ["id", "... on Cat { lives }"])
            op("UsesOne", r.choice(root_of[T]), ["..." + used])
            if r.random() < 0.3:
                ops.pop()
                op("UsesNone", r.choice(root_of[T]), self.leaves(T, 1, 2))
            _ = u1
        elif shape == "iface_cond":
            # a named fragment on interface I spread INSIDE `... on I` at a position whose type implements I but is
            # not I: the inline fragment's selection set is evaluated for I, so the fragment is a base class there
            # (also one level deeper, and along object -> interface -> interface chains)
            fa = self.new_fragment("Animal", self.leaves("Animal", 1, 2), self.mixin(0.2))
            fn = self.new_fragment("Named", ["name"])
            fd = self.new_fragment("Dog", self.leaves("Dog", 1, 2))
            op("AtObject", r.choice(["dog", "cat"]), self.leaves("Dog", 0, 0) + ["name", f"... on Animal {{ ...{fa} }}"])
            op("Deeper", r.choice(["animal", "animals"]),
               ["..." + fa, f"... on Dog {{ ... on Animal {{ ...{fa} }} ...{fd} }}"] if r.random() < 0.5
               else ["id", f"... on Dog {{ ... on Named {{ ...{fn} }} }}"])
            op("Chain", "dog", [f"... on Animal {{ ... on Named {{ ...{fn} }} id }}"])
            if r.random() < 0.6:
                op("IfaceAtIface", "animal", ["id", f"... on Named {{ ...{fn} }}"])
            if r.random() < 0.5:
                op("InUnion", "pet", ["__typename", f"... on Dog {{ ... on Animal {{ ...{fa} }} }}", "... on Cat { lives }"])
            if r.random() < 0.5:
                op("CondIfaceCond", "dog", [f"... on Animal{self.cond()} {{ ...{fa} }}", "bark"])
        elif shape == "nested_mention":
            # sibling fragments on a recursive type that mention each other only BELOW a nested field (or only
            # conditionally): neither inherits the other, both must stay bases of a class spreading both
            TT = r.choice(["Dog", "Person"])
            rec = "mate" if TT == "Dog" else "boss"
            b = self.new_fragment(TT, self.leaves(TT, 1, 2), self.mixin(0.2))
            a = self.new_fragment(TT, self.leaves(TT, 1, 1) + [f"{rec} {{ ...{b} }}"])
            c = self.new_fragment(TT, self.leaves(TT, 1, 1) + ["..." + b + self.cond(True)])
            d = self.new_fragment(TT, [f"{rec} {{ {rec} {{ ...{a} }} id }}"])
            op("Siblings", r.choice(root_of[TT]), ["..." + a, "..." + b])
            op("CondSibling", r.choice(root_of[TT]), ["..." + c, "..." + b])
            op("DeepSiblings", r.choice(root_of[TT]), ["..." + d, "..." + a, "..." + b] if r.random() < 0.6 else ["..." + d, "..." + b])
            if r.random() < 0.5:
                op("NestedOnly", r.choice(root_of[TT]), ["id", f"{rec} {{ ...{a} ...{b} }}"])
        elif shape == "conditional":
            # spreads under @skip/@include: on the spread itself, on an enclosing inline fragment, inside a
            # fragment that is itself spread conditionally (nested), next to unconditional spreads of the same
            # `base` needs imports of its own (@mixin on it or on a field, the enum Kind); operations spread it only
            # conditionally (-> unpacked, excluded by package.py), `holder` uses it as a base (-> re-added)
            base = self.new_fragment("Dog", ["kind" + self.mixin(0.3)] + self.leaves("Dog", 1, 1), self.mixin(0.7))
            holder = self.new_fragment("Dog", ["bark", "..." + base])
            op("Holder", "dog", ["..." + holder] + (["..." + base + self.cond()] if r.random() < 0.7 else []))
            mid = self.new_fragment("Dog", self.leaves("Dog", 1, 1) + ["..." + base + (self.cond(True) if r.random() < 0.5 else "")])
            fa = self.new_fragment("Animal", self.leaves("Animal", 1, 2))
            op("CondSpread", "dog", ["id", "..." + base + self.cond()])
            op("CondInline", "dog", [f"... on Dog{self.cond()} {{ ...{mid} }}"] + (["..." + base] if r.random() < 0.5 else []))
            op("CondNested", "dog", ["..." + mid + self.cond(), "..." + mid] if r.random() < 0.5 else ["..." + mid + self.cond()])
            op("CondIface", r.choice(["animal", "animals"]),
               ["..." + fa + self.cond(), f"... on Dog{self.cond()} {{ ...{base} bark }}"] + (["..." + fa] if r.random() < 0.4 else []))
            if r.random() < 0.5:
                op("CondUnion", "pet", ["__typename", f"... on Dog{self.cond()} {{ ...{base} }}", "..." + mid + self.cond()])
        else:
            k = r.randint(2, 5)
            types = [r.choice(["Animal", "Dog", "Cat", "Person", "Pet", "Address"]) for _ in range(k)]
            names = []
            for t in types:  # later fragments may spread earlier ones only: acyclic by construction
                self.in_fragment = True
                body = self.selection(t, 1, names, 0.7)
                self.in_fragment = False
                names.append(self.new_fragment(t, body, self.mixin(0.2) if t != "Pet" else ""))
            for i in range(r.randint(1, 3)):
                rf, rt = r.choice(ROOTS)
                op(f"Mixed{i}", rf, self.selection(rt, 2, names, 0.85))
        # an extra operation over a random position for variety
        if r.random() < 0.5 and self.frags:
            rf, rt = r.choice(ROOTS)
            op("Extra", rf, self.selection(rt, 2, list(self.frags), 0.8))
        frs = [f"fragment {n} on {t}{d} {b}" for n, (t, d, b) in self.frags.items()]
        defs = ops + frs
        r.shuffle(defs)
        return shape, defs


def validate_defs(defs) -> list:
    gs = build_schema(SDL + MIXIN_DIRECTIVE)
    return validate(gs, parse("\n\n".join(defs)), RULES)


def make(seed: int, tries: int = 40) -> Scenario:
    last = None
    for k in range(tries):
        g = FragGen(seed * 1000 + k)
        try:
            shape, defs = g.build()
            errs = validate_defs(defs)
        except Exception as exc:
            last = exc
            continue
        if errs:
            last = errs[0]
            continue
        r = g.r
        cfg = {"convert_to_snake_case": r.random() < 0.7, "async_client": r.random() < 0.5}
        return Scenario(seed=seed, sdl=SDL, queries="\n\n".join(defs) + "\n", config=cfg, features=("frags",),
                        files={"mixins_impl.py": MIXINS_PY},
                        notes={"shape": shape, "n_frags": len(g.frags), "n_defs": len(defs), "defs": defs,
                               "mixin_directives": g.n_mixin_dirs, "conditions": g.n_conds, "subseed": k,
                               "name_style": g.style})
    raise RuntimeError(f"no valid fragment scenario for seed {seed}: {last}")


def reorder(sc: Scenario, order: list[int]) -> Scenario:
    defs = [sc.notes["defs"][i] for i in order]
    return Scenario(seed=sc.seed, sdl=sc.sdl, queries="\n\n".join(defs) + "\n", config=dict(sc.config),
                    features=sc.features, files=sc.files, notes=dict(sc.notes, order=order))
