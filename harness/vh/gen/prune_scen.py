"""Seeded scenarios for C09: schemas whose input/enum dependency graphs have a chosen SHAPE, with operations
that reach enums through exactly one route each (variables only / input fields only / input defaults /
nested result fields / mixin fragments / unpacked fragments / unused fragments / nowhere).

`make(seed)` returns a vh.gen.scenario.Scenario (valid: schema and operations are validated with graphql-core).
notes["shape"], notes["routes"] describe what was generated (goes to the evidence distribution).
"""
from __future__ import annotations

import random

from graphql import NoUnusedFragmentsRule, assert_valid_schema, build_schema, parse, specified_rules, validate

# ariadne-codegen validates operations with every specified rule except NoUnusedFragmentsRule
RULES = [r for r in specified_rules if r is not NoUnusedFragmentsRule]

from .scenario import Scenario

SHAPES = ["chain", "cycle", "selfloop", "tree", "diamond", "two_components", "random", "none"]
ENUM_VALUES = ["RED", "GREEN", "BLUE", "ACTIVE", "lowercase", "MixedCase", "A1", "X_Y", "OFF"]
# custom scalars configured by dotted paths (several import-carrying shapes); every value ArgGen produces for a
# custom scalar is the string "2021-03-04T05:06:07", which all three types accept
SCALAR_CFGS = {
    "DateTime": {"type": "datetime.datetime", "serialize": "scalars_impl.ser_dt"},
    "Stamp": {"type": "pathlib.PurePosixPath", "serialize": "scalars_impl.ser_stamp", "parse": "scalars_impl.parse_stamp"},
    "Money": {"type": "scalars_impl.Money"},
}
SCALARS_PY = ("Money = str\n\n\ndef ser_dt(v):\n    return v.isoformat()\n\n\n"
              "def ser_stamp(v):\n    return str(v)\n\n\ndef parse_stamp(v):\n    return v\n")

DEP_WRAPS = ["{}", "[{}]", "[{}!]", "[[{}]]"]  # never required: keeps argument values finite on cycles


def graph_for(shape: str, n: int, r: random.Random) -> dict[int, list[int]]:
    g = {i: [] for i in range(n)}
    if n == 0 or shape == "none":
        return g
    if shape == "chain":
        for i in range(n - 1):
            g[i].append(i + 1)
    elif shape == "cycle":
        for i in range(n):
            g[i].append((i + 1) % n)
    elif shape == "selfloop":
        for i in range(n):
            if r.random() < 0.6:
                g[i].append(i)
        for i in range(n - 1):
            if r.random() < 0.5:
                g[i].append(i + 1)
    elif shape == "tree":
        for i in range(1, n):
            g[(i - 1) // 2].append(i)
    elif shape == "diamond":
        if n >= 4:
            g[0] += [1, 2]
            g[1].append(3)
            g[2].append(3)
            for i in range(4, n):
                g[3].append(i)
        else:
            for i in range(n - 1):
                g[i].append(i + 1)
    elif shape == "two_components":
        h = max(1, n // 2)
        for i in range(h - 1):
            g[i].append(i + 1)
        for i in range(h, n - 1):
            g[i].append(i + 1)
        if n - h >= 2:
            g[n - 1].append(h)  # second component is a cycle
    else:
        for i in range(n):
            for j in r.sample(range(n), r.randint(0, min(3, n))):
                g[i].append(j)
            if r.random() < 0.3 and g[i]:
                g[i].append(g[i][0])  # duplicate edge (two fields of one type)
    return g


class PruneGen:
    def __init__(self, seed: int):
        self.r = random.Random(seed)
        self.scalar_fields = 0

    def build(self):
        r = self.r
        shape = r.choice(SHAPES)
        n_in = 0 if shape == "none" and r.random() < 0.5 else r.randint(1, 7)
        g = graph_for(shape, n_in, r)
        ins = [f"In{chr(65 + i)}" for i in range(n_in)]
        # enum routes: each enum gets one designated route
        routes = ["variable", "input_field", "input_default", "nested_result", "mixin_fragment",
                  "unpacked_fragment", "unused_fragment", "nowhere", "root_arg_literal", "result_and_input",
                  # enums that occur ONLY as argument types of a field of an interface / of a type reachable only
                  # through a union: no operation needs them, the operation-builder modules (custom ops) do
                  "iface_field_arg", "union_member_field_arg",
                  # enums whose only use is the type of a variable of a SUBSCRIPTION operation
                  "subscription_variable"]
        r.shuffle(routes)
        n_enum = r.randint(3, len(routes))
        enums = {}
        route_of = {}
        for i in range(n_enum):
            name = f"En{chr(65 + i)}"
            enums[name] = r.sample(ENUM_VALUES, r.randint(2, 4))
            route_of[name] = routes[i]
        by_route = {}
        for e, ro in route_of.items():
            by_route.setdefault(ro, []).append(e)
        lines = []
        for e, vals in enums.items():
            lines.append(f"enum {e} {{ " + " ".join(vals) + " }")
        # inputs
        in_enum_holders = {}
        for i, name in enumerate(ins):
            fs = [f"  n{i}: Int", f"  label: String"]
            # import-carrying fields at EVERY depth of the dependency graph: custom scalars, Upload
            for sc_name in ("DateTime", "Stamp", "Money"):
                if r.random() < 0.3:
                    fs.append(f"  f{sc_name.lower()}: " + r.choice(["{}", "[{}!]", "{}"]).format(sc_name))
                    self.scalar_fields += 1
            if r.random() < 0.12:
                fs.append("  upload: Upload")
                self.scalar_fields += 1
            for k, j in enumerate(g[i]):
                w = r.choice(DEP_WRAPS)
                fs.append(f"  dep{k}: " + w.format(ins[j]))
            in_enum_holders[name] = fs
            lines.append(None)  # placeholder, filled below
        in_pos = {name: idx for idx, name in zip([k for k, l in enumerate(lines) if l is None], ins)}
        for e in by_route.get("input_field", []) + by_route.get("result_and_input", []):
            if ins:
                holder = r.choice(ins)
                in_enum_holders[holder].append(f"  {e.lower()}: " + r.choice(["{}", "{}!", "[{}!]"]).format(e))
        for e in by_route.get("input_default", []):
            if ins:
                holder = r.choice(ins)
                in_enum_holders[holder].append(f"  {e.lower()}: {e} = {enums[e][0]}")
        for name in ins:
            lines[in_pos[name]] = f"input {name} {{\n" + "\n".join(in_enum_holders[name]) + "\n}"
        # result types
        nested_enums = by_route.get("nested_result", []) + by_route.get("result_and_input", [])
        leaf_fields = ["  id: ID!", "  name: String"]
        for e in nested_enums:
            leaf_fields.append(f"  {e.lower()}: " + r.choice(["{}", "{}!", "[{}!]"]).format(e))
        lines.append("type Leaf {\n" + "\n".join(leaf_fields) + "\n}")
        mid_fields = ["  id: ID!", "  leaf: Leaf", "  leaves: [Leaf!]"]
        for e in by_route.get("mixin_fragment", []):
            mid_fields.append(f"  m{e.lower()}: {e}")
        for e in by_route.get("unpacked_fragment", []):
            mid_fields.append(f"  u{e.lower()}: {e}")
        for e in by_route.get("unused_fragment", []):
            mid_fields.append(f"  x{e.lower()}: {e}")
        # Relay-style: arguments on an interface field (repeated by every implementer); Folder is reachable only
        # through Query.node: Node, Lonely only through the union
        iargs = [f"{e.lower()}: {e}" for e in by_route.get("iface_field_arg", [])]
        if ins and r.random() < 0.7:
            iargs.append("filter: " + r.choice(ins))
        children = "  children" + (("(" + ", ".join(iargs) + ")") if iargs else "") + ": [Container!]"
        uargs = [f"{e.lower()}: {e}" for e in by_route.get("union_member_field_arg", [])]
        if ins and r.random() < 0.7:
            uargs.append("where: " + r.choice(["{}", "[{}!]"]).format(r.choice(ins)))
        things = "  things" + (("(" + ", ".join(uargs) + ")") if uargs else "") + ": Int"
        lines.append("interface Node {\n  id: ID!\n}")
        lines.append("type Mid implements Node {\n" + "\n".join(mid_fields) + "\n}")
        lines.append("type Other implements Node {\n  id: ID!\n  count: Int\n}")
        # the only implementer of Container is reachable through the interface alone (Query.container)
        lines.append("interface Container {\n  id: ID!\n" + children + "\n}")
        lines.append("type Folder implements Container {\n  id: ID!\n  size: Int\n" + children + "\n}")
        lines.append("type Lonely {\n  id: ID!\n" + things + "\n}")
        lines.append("union Any2 = Mid | Other | Lonely")
        # root fields: one per input (arg), one per variable-route enum, some plain
        q = ["  mid: Mid", "  node: Node", "  any2: Any2", "  plain: Int", "  container: Container"]
        self.root_in = {}
        # not every input is an argument of a Query field: the others are reachable only as the argument of a
        # Subscription field or of an executable directive (the operation-builder modules cover neither)
        self.sub_in, self.dir_in = {}, {}
        sub_fields, directive_defs = [], []
        for i, name in enumerate(ins):
            how = r.choice(["query", "query", "query", "subscription", "directive"])
            if how == "query":
                fname = f"by{name}"
                q.append(f"  {fname}(arg: " + r.choice(["{}", "{}!", "[{}!]"]).format(name) + "): Mid")
                self.root_in[name] = fname
            elif how == "subscription":
                t = r.choice(["{}", "{}!"]).format(name)
                sub_fields.append(f"  on{name}(arg: {t}): Int")
                self.sub_in[name] = (f"on{name}", t)
            else:
                directive_defs.append(f"directive @tag{name}(by: {name}) on FIELD")
                self.dir_in[name] = f"tag{name}"
        self.sub_enum = {}
        for e in by_route.get("subscription_variable", []):
            t = r.choice(["{}", "{}!", "[{}!]"]).format(e)
            sub_fields.append(f"  watch{e}(e: {t}): Int")
            self.sub_enum[e] = (f"watch{e}", t)
        self.root_var_enum = {}
        for e in by_route.get("variable", []):
            fname = f"with{e}"
            q.append(f"  {fname}(e: " + r.choice(["{}", "{}!", "[{}!]!"]).format(e) + "): Int")
            self.root_var_enum[e] = fname
        self.root_lit_enum = {}
        for e in by_route.get("root_arg_literal", []):
            fname = f"lit{e}"
            q.append(f"  {fname}(e: {e}): Int")
            self.root_lit_enum[e] = fname
        lines.append("scalar DateTime\n\nscalar Stamp\n\nscalar Money\n\nscalar Upload")
        lines.append("type Query {\n" + "\n".join(q) + "\n}")
        if sub_fields:
            lines.append("type Subscription {\n" + "\n".join(sub_fields) + "\n}")
        lines.extend(directive_defs)
        if ins and r.random() < 0.5:
            self.mut_in = r.choice(ins)
            lines.append(f"type Mutation {{\n  change(input: {self.mut_in}!, dry: Boolean = false): Mid\n}}")
        else:
            self.mut_in = None
        sdl = "\n\n".join(lines) + "\n"
        # operations
        self.ins, self.g, self.enums, self.by_route = ins, g, enums, by_route
        ops, frags = [], []
        used_inputs = []
        rooted = [n_ for n_ in ins if n_ in self.root_in]
        if rooted:
            k = r.choice([0, 1, 1, 2, 3])
            used_inputs = r.sample(rooted, min(k, len(rooted)))
        mix = by_route.get("mixin_fragment", [])
        unp = by_route.get("unpacked_fragment", [])
        unu = by_route.get("unused_fragment", [])
        if mix:
            frags.append("fragment MixFrag on Mid { id " + " ".join(f"m{e.lower()}" for e in mix) + " }")
        if unp:
            # contains an inline fragment -> always unpacked
            frags.append("fragment UnpFrag on Mid { ... on Mid { " + " ".join(f"u{e.lower()}" for e in unp) + " } }")
        if unu:
            frags.append("fragment UnusedFrag on Mid { id " + " ".join(f"x{e.lower()}" for e in unu) + " }")
        if r.random() < 0.3:
            frags.append("fragment UnusedUnion on Any2 { ... on Other { count } }")
        leaf_sel = "{ id " + " ".join(e.lower() for e in nested_enums) + " }"
        mid_sel_parts = ["id", f"leaf {leaf_sel}"] if nested_enums and r.random() < 0.8 else ["id"]
        if nested_enums and r.random() < 0.5:
            mid_sel_parts.append(f"leaves {leaf_sel}")
        spread_styles = []
        if mix:
            spread_styles.append("...MixFrag")
        if unp:
            spread_styles.append("...UnpFrag")
        n = 0
        for name in used_inputs:
            n += 1
            t = None
            # variable type must match the argument type: re-read it from the sdl line
            for l in q:
                if l.strip().startswith(self.root_in[name] + "("):
                    t = l.split("arg: ")[1].split(")")[0]
            sel = list(mid_sel_parts) + (r.sample(spread_styles, r.randint(0, len(spread_styles))) if spread_styles else [])
            ops.append(f"query ByIn{n}($a: {t}) {{ {self.root_in[name]}(arg: $a) {{ " + " ".join(sel) + " } }")
        for e, fname in self.root_var_enum.items():
            n += 1
            t = [l for l in q if l.strip().startswith(fname + "(")][0].split("e: ")[1].split(")")[0]
            ops.append(f"query WithEnum{n}($e: {t}) {{ {fname}(e: $e) }}")
        for e, fname in self.root_lit_enum.items():
            n += 1
            ops.append(f"query Lit{n} {{ {fname}(e: {enums[e][0]}) }}")
        # result-side operations
        if r.random() < 0.85 or not ops:
            sel = list(mid_sel_parts) + spread_styles
            ops.append("query GetMid { mid { " + " ".join(sel) + " } }")
        if r.random() < 0.5:
            inner = ["id"]
            if mix and r.random() < 0.7:
                inner.append("... on Mid { ...MixFrag }" if r.random() < 0.5 else "...MixFrag")
            else:
                inner.append("... on Mid { leaf { id } }")
            ops.append("query GetNode { node { " + " ".join(inner) + " } }")
        if r.random() < 0.4:
            parts = ["... on Other { count }"]
            if unp and r.random() < 0.6:
                parts.append("...UnpFrag")
            elif mix and r.random() < 0.6:
                parts.append("...MixFrag")
            else:
                parts.append("... on Mid { id }")
            ops.append("query GetAny { any2 { __typename " + " ".join(parts) + " } }")
        if self.mut_in and r.random() < 0.7:
            ops.append(f"mutation Change($input: {self.mut_in}!) {{ change(input: $input) {{ id }} }}")
        for name, (fname, t) in self.sub_in.items():
            if r.random() < 0.7:
                n += 1
                ops.append(f"subscription OnIn{n}($s: {t}) {{ {fname}(arg: $s) }}")
        for e, (fname, t) in self.sub_enum.items():
            n += 1
            ops.append(f"subscription Watch{n}($e: {t}) {{ {fname}(e: $e) }}")
        for name, dname in self.dir_in.items():
            if r.random() < 0.7:
                n += 1
                ops.append(f"query Tagged{n}($t: {name}) {{ plain @{dname}(by: $t) }}")
        if r.random() < 0.15:
            ops = [o for o in ops if "$" not in o] or ["query Plain { plain }"]
        # the order of the operations in the queries file is arbitrary (which one is LAST matters to the
        # accumulation of used enums)
        r.shuffle(ops)
        # every spread fragment must be defined; unused ones stay
        r.shuffle(frags)
        queries = "\n\n".join(ops + frags) + "\n"
        notes = {"shape": shape, "n_inputs": n_in, "routes": {e: ro for e, ro in route_of.items()},
                 "n_ops": len(ops), "ops_with_variables": sum("$" in o for o in ops)}
        return sdl, queries, notes


def make(seed: int, tries: int = 30) -> Scenario:
    last = None
    for k in range(tries):
        g = PruneGen(seed * 1000 + k)
        try:
            sdl, queries, notes = g.build()
            gs = build_schema(sdl)
            assert_valid_schema(gs)
            errs = validate(gs, parse(queries), RULES)
        except Exception as exc:  # invalid draw (e.g. non-null input cycle): next sub-seed
            last = exc
            continue
        if errs:
            last = errs[0]
            continue
        r = g.r
        cfg = {"convert_to_snake_case": r.random() < 0.7, "async_client": r.random() < 0.5}
        if "subscription " in queries:
            cfg["async_client"] = True      # a synchronous client refuses subscriptions (documented refusal)
        notes["subscriptions"] = queries.count("subscription ")
        notes["directive_argument_variables"] = queries.count("query Tagged")
        # mostly all three configured; sometimes a subset (an unconfigured custom scalar is typed Any: no import)
        names = list(SCALAR_CFGS) if r.random() < 0.75 else r.sample(list(SCALAR_CFGS), r.randint(0, 2))
        cfg["scalars"] = {n: dict(SCALAR_CFGS[n]) for n in names}
        notes["subseed"] = k
        notes["scalar_fields"] = g.scalar_fields
        notes["scalars_configured"] = len(names)
        return Scenario(seed=seed, sdl=sdl, queries=queries, config=cfg, features=("prune",), notes=notes,
                        files={"scalars_impl.py": SCALARS_PY})
    raise RuntimeError(f"no valid prune scenario for seed {seed}: {last}")


def deep_scalar_regression() -> Scenario:
    """OrderInput -> ShippingInput -> WindowInput{Stamp}: a dotted-path custom scalar two levels below the only
    input an operation uses; plus an enum-typed default and Upload at depth (import-carrying constructs)."""
    sdl = ("scalar Stamp\nscalar Upload\nenum Speed { SLOW FAST }\n"
           "input OrderInput { id: ID ship: ShippingInput }\n"
           "input ShippingInput { window: WindowInput speed: Speed = FAST }\n"
           "input WindowInput { at: Stamp attachment: Upload note: String }\n"
           "input Unrelated { x: Int }\n"
           "type Query { order(o: OrderInput): Int other(u: Unrelated): Int }\n")
    queries = "query PlaceOrder($o: OrderInput) { order(o: $o) }\n"
    cfg = {"scalars": {"Stamp": dict(SCALAR_CFGS["Stamp"])}}
    return Scenario(seed=-7, sdl=sdl, queries=queries, config=cfg, features=("prune",), files={"scalars_impl.py": SCALARS_PY},
                    notes={"shape": "deep-scalar-regression", "routes": {}, "ops_with_variables": 1, "n_inputs": 4,
                           "scalar_fields": 2, "scalars_configured": 1})


def last_operation_enum_regression() -> Scenario:
    """an enum used ONLY as the type of a variable of the last (here: the only) operation"""
    sdl = ("enum Mood { HAPPY SAD }\nenum Other { A B }\ntype Query { plain: Int feel(m: Mood, o: Other): Int }\n")
    return Scenario(seed=-6, sdl=sdl, queries="query First($o: Other) { feel(o: $o) }\n\nquery Last($m: Mood!) { feel(m: $m) }\n",
                    config={}, features=("prune",), files={"scalars_impl.py": SCALARS_PY},
                    notes={"shape": "last-operation-enum-regression", "routes": {}, "ops_with_variables": 2, "n_inputs": 0,
                           "scalar_fields": 0, "scalars_configured": 0})


def subscription_input_regression() -> Scenario:
    """an input (with its dependency and enum) used only by a subscription variable and one only by a directive
    argument; a Query field takes another input (the operation builder covers only that one)"""
    sdl = ("enum Level { LOW HIGH }\ninput Inner { level: Level }\ninput SubFilter { inner: Inner name: String }\n"
           "input TagIn { x: Int }\ninput QIn { y: Int }\ndirective @tag(by: TagIn) on FIELD\n"
           "type Query { plain: Int q(a: QIn): Int }\ntype Subscription { ticks(f: SubFilter): Int }\n")
    queries = ("subscription Ticks($f: SubFilter) { ticks(f: $f) }\n\nquery Tagged($t: TagIn) { plain @tag(by: $t) }\n")
    return Scenario(seed=-5, sdl=sdl, queries=queries, config={"async_client": True}, features=("prune",),
                    files={"scalars_impl.py": SCALARS_PY},
                    notes={"shape": "subscription-input-regression", "routes": {}, "ops_with_variables": 2, "n_inputs": 4,
                           "scalar_fields": 0, "scalars_configured": 0})


def coq_doc_example() -> Scenario:
    """the document of Properties/C09.v C09_doc_example (arguments added so that the variables are used)"""
    sdl = ("enum Kind { A B }\nenum Deep { X }\nenum Never { N }\ninput InA { x: Int }\ntype Leaf { deep: Deep }\n"
           "type Mid { kind: Kind! leaf: [Leaf] }\ntype Query { mid(a: InA!, k: [Kind]): Mid }\n")
    queries = ("query Q($a: InA!, $k: [Kind]) { mid(a: $a, k: $k) { ... on Mid @include(if: true) { ...F } } }\n\n"
               "fragment F on Mid { leaf { deep } }\n\nfragment Unused on Mid { kind }\n")
    return Scenario(seed=-4, sdl=sdl, queries=queries, config={}, features=("prune",), files={"scalars_impl.py": SCALARS_PY},
                    notes={"shape": "coq-example:doc", "routes": {}, "ops_with_variables": 1, "n_inputs": 1,
                           "scalar_fields": 0, "scalars_configured": 0})
