"""Seeded generator of schemas that exercise INPUT object types (C06): all wrapper combinations, enums
(incl. keyword-named values), nested and recursive inputs, custom scalars, camelCase / keyword /
pydantic-reserved field names, default literals of every shape.

streams (features):
  ()                 main: defaults of shapes the generator is expected to handle (scalars, enums, null,
                     lists, nested lists, objects of scalars/lists); names that map injectively
  kw_enum_default    an enum default whose value is a Python keyword                         (F9c)
  obj_enum_default   an object default containing an enum value                              (F9a)
  list_obj_default   a list default containing an object                                     (F9b)
  coerced_default    a default literal that relies on literal coercion (scalar for a list, Int for ID)  (F9d)
  colliding_names    two fields of one input mapped to one Python name                       (F18)
  enum_positions     enum values that are Python keywords / soft keywords / Enum-special names as defaults at every
                     position: top level, list item, nested list, object field, list inside object, item of a list
                     of objects, nested object (main class: a failure is a violation)
  falsy_defaults     0, 0.0, false, "", [] as defaults of nullable and non-null fields, alone and inside object /
                     list-of-object defaults (main class)

Every scenario is a scenario.Scenario (sdl, queries, config) usable with impl/scen.generate.
"""
from __future__ import annotations

import random

from graphql import build_schema, parse, specified_rules, validate

from . import scenario

WRAPPERS = ["{}", "{}!", "[{}]", "[{}!]", "[{}]!", "[{}!]!", "[[{}]]", "[[{}!]!]!", "[[{}]!]", "[[{}!]]!"]
FIELD_NAMES = ["id", "name", "count", "createdAt", "isActive", "URLValue", "shortName", "tags", "ratio",
               "kind", "x", "y2", "data2", "HTTPCode", "owner_id", "a", "b", "veryLongFieldNameHere"]
SPECIAL_NAMES = ["class", "from", "None", "copy", "json", "schema", "_leading", "model_dump", "self",
                 "validate", "async", "type", "match", "def", "dict", "__dunder", "modelFields", "import",
                 "global", "construct", "_"]
COLLIDING = [("fooBar", "foo_bar"), ("class", "class_"), ("_a", "a"), ("copy", "copy_"), ("x1", "x_1")]
ENUM_VALUES = ["RED", "GREEN", "BLUE", "ACTIVE", "lowercase", "MixedCase", "A1", "NONE_", "X_Y"]
KW_ENUM_VALUES = ["None", "True", "False", "class", "from", "import", "pass", "lambda", "global"]
SOFT_KW_ENUM_VALUES = ["type", "match", "case", "_"]
RESERVED_ENUM_VALUES = ["name", "value", "_x", "values", "real", "title", "format", "count", "index"]  # str/Enum attributes
SPECIAL_ENUM_VALUES = KW_ENUM_VALUES + SOFT_KW_ENUM_VALUES + RESERVED_ENUM_VALUES
SCALARS = ["Int", "Float", "String", "Boolean", "ID"]


class G:
    def __init__(self, seed, features=()):
        self.rng = random.Random(seed)
        self.features = tuple(features)
        self.seed = seed

    def leaf_literal(self, base, allow_kw=True):
        r = self.rng
        if base == "Int":
            return str(r.choice([0, 0, 1, -5, 42, 2147483647]))
        if base == "Float":
            return r.choice(["1.5", "0.25", "-3.0", "1e3", "2", "0.0", "0"])
        if base == "String":
            return r.choice(['"abc"', '"x y"', '""', '"q\\"uote"', '"za\\u017C"', '"""block\n  text"""'])
        if base == "ID":
            return r.choice(['"id-1"', '"77"'])
        if base == "Boolean":
            return r.choice(["true", "false"])
        if base in self.enums:
            vals = [v for v in self.enums[base] if allow_kw or v not in KW_ENUM_VALUES]
            return r.choice(vals)
        if base in self.customs:
            return r.choice(['"2020-01-01T00:00:00"', "12"]) if base != "DateTime" else '"2020-01-01T00:00:00"'
        raise KeyError(base)

    def object_literal(self, tname, depth=0, allow_enum=True):
        """an object literal for input type tname with scalar / list fields (and enum fields if allowed);
        required fields without default are always given"""
        r = self.rng
        parts = []
        for fn, (t, d) in self.inputs[tname].items():
            base = t.replace("[", "").replace("]", "").replace("!", "")
            required = t.endswith("!") and d is None
            if not required and r.random() < 0.5:
                continue
            if base in self.inputs:
                order = list(self.inputs)
                # nested object literals only towards strictly later types: a literal that mentions an earlier
                # type (or its own) makes the default chain cyclic (graphql-core cannot resolve the fields)
                if depth > 1 or order.index(base) <= order.index(tname):
                    if required:
                        return None
                    continue
                sub = self.object_literal(base, depth + 1, allow_enum)
                if sub is None:
                    if required:
                        return None
                    continue
                lit = sub
            elif base in self.enums and not allow_enum:
                if required:
                    return None
                continue
            else:
                lit = self.leaf_literal(base)
            for _ in range(t.count("[")):
                lit = "[" + lit + "]"
            parts.append(f"{fn}: {lit}")
        return "{" + ", ".join(parts) + "}"

    def default_for(self, t, base, owner=None):
        """a default literal of a 'good' shape for type t (string) or None"""
        r = self.rng
        if base in self.inputs and owner is not None and "[" not in t:
            order = list(self.inputs)
            if order.index(base) <= order.index(owner):
                return None   # object defaults only towards later types (no cyclic default chains)
        nullable = not t.endswith("!")
        if nullable and r.random() < 0.12:
            return "null"
        if base in self.inputs:
            if "[" in t:
                return r.choice([None, "[]"]) if nullable or True else None
            return self.object_literal(base)
        depth = t.count("[")
        def build(d, inner_t):
            if d == 0:
                return self.leaf_literal(base)
            n = r.choice([0, 1, 2, 2])
            items = []
            # items may be null when the item type is nullable
            item_nullable = not inner_t[1:-1].endswith("!") if inner_t.startswith("[") else False
            stripped = inner_t.rstrip("!")
            item_t = stripped[1:-1]
            for _ in range(n):
                if not item_t.endswith("!") and r.random() < 0.2:
                    items.append("null")
                else:
                    items.append(build(d - 1, item_t))
            return "[" + ", ".join(items) + "]"
        return build(depth, t)

    def make_sdl(self):
        r = self.rng
        F = self.features
        self.enums = {}
        for i in range(r.randint(1, 2)):
            vals = r.sample(ENUM_VALUES, r.randint(2, 4))
            if "kw_enum_default" in F or r.random() < 0.35:
                vals += r.sample(KW_ENUM_VALUES, 2)
            if r.random() < 0.5:
                vals += [v for v in r.sample(SOFT_KW_ENUM_VALUES + RESERVED_ENUM_VALUES, 2) if v not in vals]
            self.enums[f"Enum{chr(65 + i)}"] = vals
        self.customs = []
        if r.random() < 0.7:
            self.customs.append("DateTime")
        if r.random() < 0.4:
            self.customs.append("JSONBlob")
        leafs = SCALARS + list(self.enums) + self.customs
        n_in = r.randint(2, 4)
        names = [f"In{chr(65 + i)}" for i in range(n_in)]
        self.inputs = {n: {} for n in names}
        # fields first (types), defaults afterwards (object literals need all field lists)
        for n in names:
            used = set()
            fields = {}
            pool = FIELD_NAMES + SPECIAL_NAMES
            for _ in range(r.randint(3, 7)):
                fn = r.choice(pool)
                if fn in used:
                    continue
                used.add(fn)
                base = r.choice(leafs)
                w = r.choice(WRAPPERS[:2]) if r.random() < 0.4 else r.choice(WRAPPERS)
                fields[fn] = [w.format(base), None, base]
            # nested / recursive inputs
            for _ in range(r.randint(0, 2)):
                other = r.choice(names)
                fn = r.choice(["parent", "child", "related", "nextItem", "filter", "and", "or", "not"])
                if fn in used:
                    continue
                used.add(fn)
                if other == n or names.index(other) <= names.index(n):
                    w = r.choice(["{}", "[{}!]", "[{}]", "[{}!]!"])   # recursion must be breakable
                else:
                    w = r.choice(["{}", "{}!", "[{}!]", "[{}]!", "[[{}]]"])
                fields[fn] = [w.format(other), None, other]
            if "colliding_names" in F:
                a, b = r.choice(COLLIDING)
                if a not in fields and b not in fields:
                    fields[a] = [r.choice(["Int", "String!", "Int!"]), None, "x"]
                    fields[b] = [r.choice(["Int", "String", "Boolean"]), None, "x"]
                    for k in (a, b):
                        fields[k][2] = fields[k][0].rstrip("!")
            self.inputs[n] = {k: (v[0], None) for k, v in fields.items()}
            self._bases = getattr(self, "_bases", {})
            self._bases[n] = {k: v[2] for k, v in fields.items()}
        # defaults
        for n in reversed(names):
            for fn, (t, _d) in list(self.inputs[n].items()):
                base = self._bases[n][fn]
                if r.random() < 0.45:
                    d = self.default_for(t, base, n)
                    if d is not None:
                        self.inputs[n][fn] = (t, d)
        # object defaults (scalars / lists / nested objects, no enum inside): at least one candidate per scenario
        for n in names:
            for other in names:
                if names.index(other) <= names.index(n) or r.random() < 0.4:
                    continue   # later types only: default chains must not be cyclic
                lit = self.object_literal(other)
                if lit is not None and "objDefault" + other not in self.inputs[n]:
                    self.inputs[n]["objDefault" + other] = (r.choice([other, other + "!"]), lit)
                    self._bases[n]["objDefault" + other] = other
                    break
        self.bad = []  # (input, field, class)
        target = names[0]
        if "enum_positions" in F:
            sp = [r.choice(KW_ENUM_VALUES), r.choice(SOFT_KW_ENUM_VALUES), r.choice(RESERVED_ENUM_VALUES)]
            sp += [v for v in r.sample(SPECIAL_ENUM_VALUES, 4) if v not in sp]
            self.enums["Special"] = sp + ["PLAIN"]
            v = lambda i: sp[i % len(sp)]   # noqa: E731
            self.inputs["SpLeaf"] = {"k": ("Special", None), "ks": ("[Special]", None), "sub": ("SpLeaf", None),
                                     "kd": ("Special!", v(5))}
            t = self.inputs[target]
            t["spTop"] = ("Special", v(0))
            t["spTopNN"] = ("Special!", v(1))
            t["spList"] = ("[Special]", f"[{v(2)}, null, {v(0)}]")
            t["spNested"] = ("[[Special!]]", f"[[{v(1)}, {v(3)}], []]")
            t["spObj"] = ("SpLeaf", f"{{k: {v(0)}, ks: [{v(1)}, {v(2)}]}}")
            t["spObjNN"] = ("SpLeaf!", f"{{k: {v(4)}}}")
            t["spListObj"] = ("[SpLeaf!]", f"[{{k: {v(3)}}}, {{ks: [{v(0)}, null]}}]")
            t["spNestedObj"] = ("SpLeaf", f"{{sub: {{k: {v(1)}, sub: {{ks: [{v(2)}]}}}}}}")
        if "falsy_defaults" in F:
            self.inputs["FLeaf"] = {"n": ("Int", None), "s": ("String", None), "b": ("Boolean", None),
                                    "l": ("[Int]", None), "x": ("Float", None), "nd": ("Int!", "0"),
                                    "sd": ("String!", '""'), "bd": ("Boolean", "false")}
            t = self.inputs[target]
            for i, (ty, lit) in enumerate([("Int", "0"), ("Float", "0.0"), ("Boolean", "false"), ("String", '""'),
                                           ("ID", '""'), ("[Int]", "[]"), ("[[String!]]", "[]"), ("[Int]", "[0]"),
                                           ("[Boolean!]", "[false]"), ("[String]", '[""]')]):
                t[f"z{i}"] = (ty, lit)
                t[f"zn{i}"] = (ty + "!", lit)
            t["zObj"] = ("FLeaf", '{n: 0, s: "", b: false, l: [], x: 0.0}')
            t["zObjNN"] = ("FLeaf!", "{n: 0}")
            t["zListObj"] = ("[FLeaf!]!", '[{b: false}, {s: "", l: [0]}]')
        if "kw_enum_default" in F:
            en = next(iter(self.enums))
            kw = [v for v in self.enums[en] if v in KW_ENUM_VALUES][0]
            self.inputs[target]["kwDefault"] = (en, kw)
            self.bad.append((target, "kwDefault", "F9c"))
        if "obj_enum_default" in F:
            en = next(iter(self.enums))
            ev = [v for v in self.enums[en] if v not in KW_ENUM_VALUES][0]
            self.inputs["Leaf"] = {"k": (en, None), "n": ("Int", "3"), "deep": ("Leaf", None)}
            lit = r.choice(["{k: %s}" % ev, "{n: 1, k: %s}" % ev, "{deep: {k: %s}}" % ev])
            self.inputs[target]["objEnum"] = (r.choice(["Leaf", "Leaf!"]), lit)
            self.bad.append((target, "objEnum", "F9a"))
        if "list_obj_default" in F:
            self.inputs["Leaf2"] = {"n": ("Int", "3"), "s": ("String", None)}
            lit = r.choice(['[{n: 1}]', '[{s: "x"}, {n: 2}]', '[[{n: 1}]]'])
            t = "[[Leaf2]]" if lit.startswith("[[") else r.choice(["[Leaf2!]", "[Leaf2]!"])
            self.inputs[target]["listObj"] = (t, lit)
            self.bad.append((target, "listObj", "F9b"))
        if "coerced_default" in F:
            k = r.choice(["one", "id", "inobj"])
            if k == "one":
                self.inputs[target]["oneItem"] = (r.choice(["[Int]", "[String!]"]).replace("String", "Int"), "7")
                self.bad.append((target, "oneItem", "F9d"))
            elif k == "id":
                self.inputs[target]["intId"] = ("ID", "5")
                self.bad.append((target, "intId", "F9d"))
            else:
                self.inputs["Leaf3"] = {"s": ("[String]", None), "i": ("ID", None)}
                self.inputs[target]["inObj"] = ("Leaf3", r.choice(['{s: "q"}', "{i: 5}"]))
                self.bad.append((target, "inObj", "F9d"))
        out = [f"scalar {c}" for c in self.customs]
        for n, vals in self.enums.items():
            out.append(f"enum {n} {{ " + " ".join(vals) + " }")
        for n, fs in self.inputs.items():
            out.append(f"input {n} {{\n" + "\n".join(
                f"  {k}: {t}" + (f" = {d}" if d is not None else "") for k, (t, d) in fs.items()) + "\n}")
        q = []
        ops = []
        for i, n in enumerate(self.inputs):
            q.append(f"  take{n}(arg: {n}): Int")
            q.append(f"  need{n}(arg: {n}!, extra: [{n}!]): Int")
            ops.append(f"query Take{n}($arg: {n}) {{ take{n}(arg: $arg) }}")
            ops.append(f"query Need{n}($arg: {n}!, $extra: [{n}!]) {{ need{n}(arg: $arg, extra: $extra) }}")
        out.append("type Query {\n" + "\n".join(q) + "\n}")
        return "\n\n".join(out) + "\n", "\n".join(ops) + "\n"


def from_types(name: str, types_sdl: str, seed: int, snake: bool = True, notes=None) -> scenario.Scenario:
    """a scenario around hand-written input/enum/scalar definitions (corpus entries): Query and operations are added"""
    from graphql import InputObjectTypeDefinitionNode

    names = [d.name.value for d in parse(types_sdl).definitions if isinstance(d, InputObjectTypeDefinitionNode)]
    q, ops = [], []
    for n in names:
        q.append(f"  take{n}(arg: {n}): Int")
        q.append(f"  need{n}(arg: {n}!, extra: [{n}!]): Int")
        ops.append(f"query Take{n}($arg: {n}) {{ take{n}(arg: $arg) }}")
        ops.append(f"query Need{n}($arg: {n}!, $extra: [{n}!]) {{ need{n}(arg: $arg, extra: $extra) }}")
    sdl = types_sdl + "\n\ntype Query {\n" + "\n".join(q) + "\n}\n"
    return scenario.Scenario(seed=seed, sdl=sdl, queries="\n".join(ops) + "\n",
                             config={"convert_to_snake_case": snake, "async_client": False},
                             features=("corpus",), files={}, notes=dict(notes or {}, corpus=name))


def default_cycle(sdl: str):
    """Static check, no schema build: does resolving the fields of some input type need (through default literals
    that contain object values) the fields of the same type again?  Returns the offending type name or None.
    graphql-core resolves input fields lazily and coerces defaults while doing so; a cyclic chain ends in a
    RecursionError that is swallowed or raised depending on the stack depth, so it must be excluded up front."""
    from graphql import (InputObjectTypeDefinitionNode, ListTypeNode, ListValueNode, NamedTypeNode, NonNullTypeNode,
                         ObjectValueNode)

    doc = parse(sdl)
    inputs = {d.name.value: d for d in doc.definitions if isinstance(d, InputObjectTypeDefinitionNode)}

    def needs(tnode, vnode, acc):
        if isinstance(tnode, NonNullTypeNode):
            return needs(tnode.type, vnode, acc)
        if isinstance(tnode, ListTypeNode):
            if isinstance(vnode, ListValueNode):
                for x in vnode.values:
                    needs(tnode.type, x, acc)
            else:
                needs(tnode.type, vnode, acc)
            return
        if isinstance(tnode, NamedTypeNode) and tnode.name.value in inputs and isinstance(vnode, ObjectValueNode):
            acc.add(tnode.name.value)
            ftypes = {f.name.value: f.type for f in inputs[tnode.name.value].fields}
            for of in vnode.fields:
                if of.name.value in ftypes:
                    needs(ftypes[of.name.value], of.value, acc)

    edges = {}
    for n, d in inputs.items():
        acc = set()
        for f in d.fields:
            if f.default_value is not None:
                needs(f.type, f.default_value, acc)
        edges[n] = acc
    state = {}

    def dfs(n):
        if state.get(n) == 1:
            return n
        if state.get(n) == 2:
            return None
        state[n] = 1
        for m in edges[n]:
            r = dfs(m)
            if r:
                return r
        state[n] = 2
        return None

    for n in edges:
        r = dfs(n)
        if r:
            return r
    return None


def valid_sdl(sdl: str) -> bool:
    """build + assert_valid_schema + every input default coerces; never raises"""
    from graphql import GraphQLInputObjectType, Undefined, assert_valid_schema, value_from_ast

    try:
        if default_cycle(sdl):
            return False
        gs = build_schema(sdl)
        assert_valid_schema(gs)
        for t in gs.type_map.values():
            if isinstance(t, GraphQLInputObjectType):
                for f in t.fields.values():
                    if f.ast_node.default_value is not None and (
                            f.default_value is Undefined
                            or value_from_ast(f.ast_node.default_value, f.type) is Undefined):
                        return False
        return True
    except BaseException as exc:  # noqa  (RecursionError included)
        if isinstance(exc, (KeyboardInterrupt, SystemExit)):
            raise
        return False


def make(seed: int, features=(), tries: int = 30) -> scenario.Scenario:
    for k in range(tries):
        g = G(seed * 1000 + k, features)
        try:
            sdl, ops = g.make_sdl()
            if not valid_sdl(sdl):
                continue
            if validate(build_schema(sdl), parse(ops), specified_rules):
                continue
        except Exception:
            continue
        r = g.rng
        cfg = {"convert_to_snake_case": r.random() < 0.75, "async_client": r.random() < 0.3}
        files = {}
        if "DateTime" in g.customs and r.random() < 0.5:
            files, sc = scenario.scalar_module()
            cfg["scalars"] = sc
        return scenario.Scenario(seed=seed, sdl=sdl, queries=ops, config=cfg, features=tuple(features),
                                 files=files, notes={"subseed": k, "bad": g.bad})
    raise RuntimeError(f"no valid input scenario for seed {seed}")
