"""Schema-valid argument values for operation variables (encoded for client_driver.decode)."""
from __future__ import annotations

import random

from graphql import (
    GraphQLEnumType,
    GraphQLInputObjectType,
    GraphQLList,
    GraphQLNonNull,
    GraphQLScalarType,
    Undefined,
    type_from_ast,
)

OMIT = object()


class ArgGen:
    def __init__(self, schema, rng: random.Random, scalars_cfg: dict | None = None):
        self.schema = schema
        self.rng = rng
        self.scalars_cfg = scalars_cfg or {}

    def json_value(self, t, depth=0, mode="rand", nonnull=False):
        """A value in canonical JSON form accepted by the schema's input coercion for type t."""
        r = self.rng
        if isinstance(t, GraphQLNonNull):
            return self.json_value(t.of_type, depth, mode, True)
        if not nonnull and (mode == "null" or (mode == "rand" and r.random() < 0.15)):
            return None
        if isinstance(t, GraphQLList):
            n = 0 if mode == "min" else r.choice([0, 1, 2])
            return [self.item(t.of_type, depth + 1, mode) for _ in range(n)]
        if isinstance(t, GraphQLEnumType):
            return r.choice(list(t.values))
        if isinstance(t, GraphQLScalarType):
            return {
                "Int": r.randint(-9, 99), "Float": r.choice([0.5, 2.25, 10.75]),
                "String": r.choice(["s", "hello world", ""]), "Boolean": r.random() < 0.5,
                "ID": r.choice(["id-1", "77"]),
            }.get(t.name, "2021-03-04T05:06:07")
        if isinstance(t, GraphQLInputObjectType):
            out = {}
            for fname, f in t.fields.items():
                required = isinstance(f.type, GraphQLNonNull) and f.default_value is Undefined
                if depth > 2 and not required:
                    continue
                if not required and (mode == "min" or r.random() < 0.4):
                    continue
                out[fname] = self.json_value(f.type, depth + 1, mode)
            return out
        raise TypeError(t)

    def item(self, t, depth, mode):
        return self.json_value(t, depth, mode)

    def encode(self, t, v):
        """JSON-form value -> driver encoding producing the Python argument a user would pass."""
        if v is None:
            return None
        if isinstance(t, GraphQLNonNull):
            return self.encode(t.of_type, v)
        if isinstance(t, GraphQLList):
            return [self.encode(t.of_type, x) for x in v]
        if isinstance(t, GraphQLEnumType):
            return {"$enum": [t.name, v]}
        if isinstance(t, GraphQLInputObjectType):
            return {"$validate": t.name, "value": v}
        if isinstance(t, GraphQLScalarType) and t.name in self.scalars_cfg and t.name == "DateTime":
            return {"$py": f"__import__('datetime').datetime.fromisoformat({v!r})"}
        return v

    def for_operation(self, op_node, mode="rand"):
        """{graphql var name: (json value | OMIT, encoded)}"""
        out = {}
        for vd in op_node.variable_definitions or ():
            t = type_from_ast(self.schema, vd.type)
            required = isinstance(t, GraphQLNonNull) and vd.default_value is None
            if not required and (mode == "min" or self.rng.random() < 0.3):
                out[vd.variable.name.value] = (OMIT, None)
                continue
            jv = self.json_value(t, 0, mode)
            out[vd.variable.name.value] = (jv, self.encode(t, jv))
        return out
