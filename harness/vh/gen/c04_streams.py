"""C04 input streams: transformations of a base scenario (vh.gen.scenario) into the special input classes
of the property (subscriptions, anonymous operations, colliding operation names, malformed / valid @mixin,
file-name collisions, string literals with quotes, variables named self/kwargs) and the sampler of the
documented configuration options.  Every produced document is validated with graphql-core (the rule set the
generator itself uses: specified_rules minus NoUnusedFragments, schema extended with @mixin)."""
from __future__ import annotations

import copy
import random

from graphql import (DirectiveNode, FieldNode, FragmentDefinitionNode, FragmentSpreadNode, InlineFragmentNode,
                     NameNode, NoUnusedFragmentsRule, OperationDefinitionNode, OperationType, SelectionSetNode,
                     TypeInfo, TypeInfoVisitor, VariableNode, Visitor, build_schema, is_abstract_type, parse,
                     print_ast, specified_rules, validate, visit)

from .scenario import Scenario

MIXIN_SDL = "\ndirective @mixin(import: String, from: String) repeatable on FIELD | FRAGMENT_DEFINITION\n"
RULES = [r for r in specified_rules if r is not NoUnusedFragmentsRule]


def schema_of(sdl: str):
    return build_schema(sdl + MIXIN_SDL)


def valid(sdl: str, queries: str) -> bool:
    try:
        return not validate(schema_of(sdl), parse(queries), RULES)
    except Exception:
        return False


def _defs(queries: str):
    doc = parse(queries, no_location=True)
    ops = [d for d in doc.definitions if isinstance(d, OperationDefinitionNode)]
    frs = [d for d in doc.definitions if isinstance(d, FragmentDefinitionNode)]
    return ops, frs


def _print(defs) -> str:
    return "\n\n".join(print_ast(d) for d in defs) + "\n"


def _derive(sc: Scenario, feature: str, sdl=None, queries=None, config=None, files=None, notes=None) -> Scenario | None:
    sdl = sc.sdl if sdl is None else sdl
    queries = sc.queries if queries is None else queries
    if not valid(sdl, queries):
        return None
    cfg = dict(sc.config)
    cfg.update(config or {})
    fl = dict(sc.files)
    fl.update(files or {})
    nt = dict(sc.notes)
    nt.update(notes or {})
    nt["pinned"] = sorted(set(sc.notes.get("pinned", ())) | set(config or {}))
    return Scenario(seed=sc.seed, sdl=sdl, queries=queries, config=cfg, features=tuple(sc.features) + (feature,),
                    files=fl, notes=nt)


def _used_vars(node, frags) -> set:
    out, seen = set(), set()

    class V(Visitor):
        def enter_variable(self, n, *_):
            out.add(n.name.value)

        def enter_fragment_spread(self, n, *_):
            if n.name.value not in seen and n.name.value in frags:
                seen.add(n.name.value)
                visit(frags[n.name.value], self)

    visit(node.selection_set, V())
    return out


# --------------------------------------------------------------------------------------------- subscriptions
def subscriptions(sc: Scenario, rng: random.Random) -> Scenario | None:
    """`type Subscription` = a copy of Query's fields; one query operation with a composite or leaf root field
    (not __typename) becomes a single-root-field subscription."""
    if "type Subscription" in sc.sdl:
        return None
    start = sc.sdl.index("type Query {")
    end = sc.sdl.index("}", start)
    sdl = sc.sdl + "\n" + sc.sdl[start:end + 1].replace("type Query {", "type Subscription {", 1) + "\n"
    ops, frs = _defs(sc.queries)
    frags = {f.name.value: f for f in frs}
    cands = [o for o in ops if o.operation == OperationType.QUERY
             and any(isinstance(s, FieldNode) and s.name.value != "__typename" for s in o.selection_set.selections)]
    if not cands:
        return None
    o = rng.choice(cands)
    first = [s for s in o.selection_set.selections if isinstance(s, FieldNode) and s.name.value != "__typename"][0]
    new = copy.deepcopy(o)
    new.operation = OperationType.SUBSCRIPTION
    new.name = NameNode(value="On" + o.name.value[:1].upper() + o.name.value[1:])
    new.selection_set = SelectionSetNode(selections=(copy.deepcopy(first),))
    used = _used_vars(new, frags)
    new.variable_definitions = tuple(v for v in new.variable_definitions if v.variable.name.value in used)
    pos = rng.randint(0, len(ops))
    ops2 = ops[:pos] + [new] + ops[pos:]
    return _derive(sc, "subscriptions", sdl=sdl, queries=_print(ops2 + frs), notes={"sub_position": pos})


# ------------------------------------------------------------------------------------------------- anonymous
def anonymous(sc: Scenario, rng: random.Random) -> Scenario | None:
    """A lone anonymous operation (graphql-core allows an anonymous operation only alone) + the fragments."""
    ops, frs = _defs(sc.queries)
    o = copy.deepcopy(rng.choice(ops))
    o.name = None
    return _derive(sc, "anonymous", queries=_print([o] + frs))


# ------------------------------------------------------------------------------------- colliding operation names
def _case_variants(name: str):
    vs = [name[:1].swapcase() + name[1:]]
    # GetThing0 -> Get_Thing0 / get_thing_0 : same snake form
    from ariadne_codegen.utils import str_to_snake_case

    sn = str_to_snake_case(name)
    vs += [sn, sn.upper(), name + "_", "_" + name]
    return [v for v in vs if v != name]


def colliding_ops(sc: Scenario, rng: random.Random) -> Scenario | None:
    """Two distinct operation names that process_name maps to one module/method name."""
    from ariadne_codegen.utils import process_name

    ops, frs = _defs(sc.queries)
    if len(ops) < 2:
        return None
    i, j = rng.sample(range(len(ops)), 2)
    target = process_name(ops[i].name.value, convert_to_snake_case=True)
    vs = [v for v in _case_variants(ops[i].name.value)
          if process_name(v, convert_to_snake_case=True) == target and all(v != o.name.value for o in ops)]
    if not vs:
        return None
    ops[j] = copy.deepcopy(ops[j])
    ops[j].name = NameNode(value=rng.choice(vs))
    return _derive(sc, "colliding_ops", queries=_print(ops + frs),
                   notes={"colliding": [ops[i].name.value, ops[j].name.value]})


# ------------------------------------------------------------------------------------------------------ mixins
BAD_MIXINS = ['@mixin(from: ".mixins_mod")', '@mixin(import: "MixA")', "@mixin",
              '@mixin(from: null, import: "MixA")', '@mixin(from: ".mixins_mod", import: null)']
GOOD_MIXIN = '@mixin(from: ".mixins_mod", import: "MixA")'
MIXIN_FILES = {"extra/mixins_mod.py": "class MixA:\n    def mix_a(self):\n        return 1\n\n\nclass MixB:\n    pass\n"}


def _composite_field_positions(defs):
    """(definition index, path of child indexes) of fields with a selection set."""
    out = []

    def walk(selset, di, path):
        for k, s in enumerate(selset.selections):
            if isinstance(s, FieldNode) and s.selection_set:
                out.append((di, path + (k,)))
                walk(s.selection_set, di, path + (k,))
            elif isinstance(s, InlineFragmentNode):
                walk(s.selection_set, di, path + (k,))

    for di, d in enumerate(defs):
        walk(d.selection_set, di, ())
    return out


def _node_at(d, path):
    n = d
    for k in path:
        n = n.selection_set.selections[k]
    return n


def _directive(text: str) -> DirectiveNode:
    return parse("query Q { f " + text + " }", no_location=True).definitions[0].selection_set.selections[0].directives[0]


def _with_mixin(sc: Scenario, rng: random.Random, text: str, feature: str, where=None) -> Scenario | None:
    ops, frs = _defs(sc.queries)
    defs = [copy.deepcopy(d) for d in ops + frs]
    choices = [("field", p) for p in _composite_field_positions(defs)]
    choices += [("fragdef", i) for i, d in enumerate(defs) if isinstance(d, FragmentDefinitionNode)]
    if where:
        choices = [c for c in choices if c[0] == where] or choices
    if not choices:
        return None
    kind, pos = rng.choice(choices)
    node = defs[pos] if kind == "fragdef" else _node_at(defs[pos[0]], pos[1])
    node.directives = tuple(node.directives or ()) + (_directive(text),)
    d_index = pos if kind == "fragdef" else pos[0]
    in_fragment = isinstance(defs[d_index], FragmentDefinitionNode)
    return _derive(sc, feature, queries=_print(defs), files=MIXIN_FILES,
                   config={"files_to_include": ["extra/mixins_mod.py"]},
                   notes={"mixin": text, "mixin_where": kind, "mixin_in_fragment": in_fragment,
                          "mixin_def_index": d_index})


def bad_mixin(sc, rng, where=None):
    return _with_mixin(sc, rng, rng.choice(BAD_MIXINS), "bad_mixin", where)


def good_mixin(sc, rng, where=None):
    s = _with_mixin(sc, rng, GOOD_MIXIN, "good_mixin", where)
    if s and rng.random() < 0.5:
        s2 = _with_mixin(s, rng, '@mixin(from: ".mixins_mod", import: "MixB")', "good_mixin")
        if s2:
            s2.features = s.features
            return s2
    return s


# ----------------------------------------------------------------------------------- probe field (F5 / F7 streams)
def _with_probe_field(sc: Scenario) -> str:
    return sc.sdl.replace("type Query {", "type Query {\n  quoteProbe(x: String, y: [String!]): String", 1)


def quote_literal(sc: Scenario, rng: random.Random) -> Scenario | None:
    lit = rng.choice(["it's", "'", "a 'quoted' word", "don't \\\"mix\\\""])
    q = sc.queries + f'\nquery QuoteOp {{ quoteProbe(x: "{lit}") }}\n'
    return _derive(sc, "quote_literal", sdl=_with_probe_field(sc), queries=q, notes={"literal": lit})


def escaped_literal(sc: Scenario, rng: random.Random) -> Scenario | None:
    """string literals that are NOT in the F5 class: double quotes, backslashes, unicode escapes, block strings"""
    lit = rng.choice(['"a\\nb"', '"tab\\there"', '"back\\\\slash"', '"q\\"uote"', '"\\u00e9"', '"""block\n  string"""',
                      '"#hash = eq"', '""'])
    q = sc.queries + f"\nquery EscOp {{ quoteProbe(x: {lit}) }}\n"
    return _derive(sc, "escaped_literal", sdl=_with_probe_field(sc), queries=q, notes={"literal": lit})


def self_variable(sc: Scenario, rng: random.Random) -> Scenario | None:
    v = rng.choice(["self", "kwargs", "Self", "KWARGS"])
    q = sc.queries + f"\nquery ProbeVar(${v}: String) {{ quoteProbe(x: ${v}) }}\n"
    return _derive(sc, "self_variable", sdl=_with_probe_field(sc), queries=q, notes={"variable": v})


def local_name_variables(sc: Scenario, rng: random.Random) -> Scenario | None:
    """variables named like the locals of a generated method (query, variables, response, data, ...)"""
    vs = rng.sample(["query", "variables", "response", "data", "url", "headers", "operation_name", "cls", "http_client",
                     "_", "x_1"], 3)
    decl = ", ".join(f"${v}: String" for v in vs[:1]) + ", " + f"${vs[1]}: [String!]"
    q = sc.queries + f"\nquery LocalsVar({decl}) {{ quoteProbe(x: ${vs[0]}, y: ${vs[1]}) }}\n"
    return _derive(sc, "local_name_variables", sdl=_with_probe_field(sc), queries=q, notes={"variables": vs[:2]})


# ------------------------------------------------------------------------------------------- file-name collisions
def rename_op(sc: Scenario, index: int, new_name: str, feature: str, **kw) -> Scenario | None:
    ops, frs = _defs(sc.queries)
    if any(o.name and o.name.value == new_name for o in ops):
        return None
    index %= len(ops)
    ops[index] = copy.deepcopy(ops[index])
    ops[index].name = NameNode(value=new_name)
    return _derive(sc, feature, queries=_print(ops + frs), **kw)


CHECKED_COLLISIONS = ["client", "Client", "enums", "inputTypes", "input_types", "fragments", "BaseModel", "base_model",
                      "exceptions", "Exceptions", "asyncBaseClient"]
UNCHECKED_COLLISIONS = ["customFields", "CustomQueries", "custom_mutations", "customTypingFields"]


def dup_files(sc: Scenario, rng: random.Random) -> Scenario | None:
    """documented refusal: an operation module / included file / configured module name collides with another"""
    k = rng.randint(0, 3)
    if k == 0:
        name = rng.choice(CHECKED_COLLISIONS)
        cfg = {"async_client": True, "opentelemetry_client": False} if name == "asyncBaseClient" else {}
        return rename_op(sc, rng.randint(0, 9), name, "dup_files", config=cfg, notes={"dup": "op:" + name})
    if k == 1:
        ops, _ = _defs(sc.queries)
        from ariadne_codegen.utils import process_name

        m = process_name(rng.choice(ops).name.value, convert_to_snake_case=True)
        return _derive(sc, "dup_files", files={f"extra/{m}.py": "X = 1\n"},
                       config={"files_to_include": [f"extra/{m}.py"]}, notes={"dup": "include:" + m})
    if k == 2:
        a = rng.choice(["shared_mod", "enums", "client"])
        pair = rng.choice([("client_file_name", "enums_module_name"), ("enums_module_name", "input_types_module_name"),
                           ("input_types_module_name", "fragments_module_name")])
        return _derive(sc, "dup_files", config={pair[0]: a, pair[1]: a}, notes={"dup": f"config:{pair}={a}"})
    return _derive(sc, "dup_files", files={"extra/base_model.py": "X = 1\n"},
                   config={"files_to_include": ["extra/base_model.py"]}, notes={"dup": "include:base_model"})


def unchecked_files(sc: Scenario, rng: random.Random) -> Scenario | None:
    """names generate() writes but _validate_unique_file_names does not look at (finding F28)"""
    if rng.random() < 0.25:
        return _derive(sc, "unchecked_files", files={"extra/__init__.py": "X = 1\n"},
                       config={"files_to_include": ["extra/__init__.py"]}, notes={"unchecked": "include:__init__"})
    name = rng.choice(UNCHECKED_COLLISIONS)
    return rename_op(sc, rng.randint(0, 9), name, "unchecked_files", config={"enable_custom_operations": True},
                     notes={"unchecked": "op:" + name})


# ------------------------------------------------------------------------------------------------ predicates
def has_untyped_inline(doc) -> bool:
    found = []

    class V(Visitor):
        def enter_inline_fragment(self, n, *_):
            if n.type_condition is None:
                found.append(1)

    visit(doc, V())
    return bool(found)


def foreign_conditions(schema, doc) -> list:
    """type conditions (inline fragments and spreads) naming an ABSTRACT type other than the enclosing type —
    the class of DESIGN §7 F4/F23 (variants are created only for possible object types)"""
    out = []
    ti = TypeInfo(schema)
    frags = {d.name.value: d for d in doc.definitions if isinstance(d, FragmentDefinitionNode)}

    class V(Visitor):
        def enter_inline_fragment(self, n, *_):
            parent = ti.get_parent_type()
            if n.type_condition is not None and parent is not None:
                t = schema.get_type(n.type_condition.name.value)
                if t is not None and is_abstract_type(t) and t.name != parent.name:
                    out.append((parent.name, t.name))

        def enter_fragment_spread(self, n, *_):
            parent = ti.get_parent_type()
            f = frags.get(n.name.value)
            if f is not None and parent is not None:
                t = schema.get_type(f.type_condition.name.value)
                if t is not None and is_abstract_type(t) and t.name != parent.name:
                    out.append((parent.name, t.name))

    visit(doc, TypeInfoVisitor(ti, V()))
    return out


# -------------------------------------------------------------------------------------------- configurations
OPTION_VALUES = {
    "client_name": ["Client", "GraphQLClient", "Api_2"],
    "client_file_name": ["client", "my_client"],
    "enums_module_name": ["enums", "my_enums"],
    "input_types_module_name": ["input_types", "inputs"],
    "fragments_module_name": ["fragments", "frags"],
    "convert_to_snake_case": [True, False],
    "async_client": [True, False],
    "opentelemetry_client": [False, True],
    "include_all_inputs": [True, False],
    "include_all_enums": [True, False],
    "enable_custom_operations": [False, True],
    "files_to_include": ["none", "one", "two+typed"],
    "scalars": ["none", "type", "full"],
    "include_comments": ["none", "stable"],
}
EXTRA_FILES = {"extra/helpers.py": "HELPER = 1\n", "extra/more_helpers.py": "from .helpers import HELPER\n",
               "extra/py.typed": ""}


def sample_options(rng: random.Random, default_bias: float = 0.55) -> dict:
    """one point of the option product; each option takes its default with probability default_bias"""
    return {k: (v[0] if rng.random() < default_bias else rng.choice(v)) for k, v in OPTION_VALUES.items()}


def apply_options(sc: Scenario, opts: dict) -> Scenario:
    """Scenario with the configuration point `opts` applied (explicit settings of the stream win)."""
    cfg = {}
    files = dict(sc.files)
    for k, v in opts.items():
        if k == "files_to_include":
            inc = {"none": [], "one": ["extra/helpers.py"],
                   "two+typed": ["extra/helpers.py", "extra/more_helpers.py", "extra/py.typed"]}[v]
            for f in inc:
                files[f] = EXTRA_FILES[f]
            if inc:
                cfg[k] = inc
        elif k == "scalars":
            if "scalar DateTime" not in sc.sdl or v == "none":
                cfg.pop("scalars", None)
                continue
            if v == "type":
                cfg["scalars"] = {"DateTime": {"type": "datetime.datetime"}}
            else:
                files["scalars_impl.py"] = ("from datetime import datetime\n"
                                            "def parse_dt(v):\n    return datetime.fromisoformat(v)\n"
                                            "def ser_dt(v):\n    return v.isoformat()\n")
                cfg["scalars"] = {"DateTime": {"type": "datetime.datetime", "parse": "scalars_impl.parse_dt",
                                               "serialize": "scalars_impl.ser_dt"}}
        else:
            cfg[k] = v
    merged = dict(cfg)
    for k in sc.notes.get("pinned", ()):           # the stream's explicit settings win over the sampled point
        if k == "files_to_include":
            mine = list(sc.config[k])
            merged[k] = mine + [f for f in cfg.get(k, []) if f not in mine]
        else:
            merged[k] = sc.config[k]
    out = Scenario(seed=sc.seed, sdl=sc.sdl, queries=sc.queries, config=merged, features=sc.features, files=files,
                   notes=dict(sc.notes))
    out.notes["options"] = dict(opts)
    return out
