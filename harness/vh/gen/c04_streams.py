"""C04 input streams: transformations of a base scenario (vh.gen.scenario) into the special input classes
of the property (subscriptions, anonymous operations, colliding operation names, malformed / valid @mixin,
file-name collisions, string literals with quotes, variables named self/kwargs) and the sampler of the
documented configuration options.  Every produced document is validated with graphql-core (the rule set the
generator itself uses: specified_rules minus NoUnusedFragments, schema extended with @mixin)."""
from __future__ import annotations

import copy
import random

from graphql import (DirectiveNode, FieldNode, FragmentDefinitionNode, FragmentSpreadNode, InlineFragmentNode,
                     NameNode, NoUnusedFragmentsRule, OperationDefinitionNode, OperationType, SelectionSetNode,
                     TypeInfo, TypeInfoVisitor, VariableNode, Visitor, build_schema, is_abstract_type, parse,
                     print_ast, specified_rules, validate, visit)

from .scenario import Scenario

MIXIN_SDL = "\ndirective @mixin(import: String, from: String) repeatable on FIELD | FRAGMENT_DEFINITION\n"
RULES = [r for r in specified_rules if r is not NoUnusedFragmentsRule]


def schema_of(sdl: str):
    return build_schema(sdl + MIXIN_SDL)


def valid(sdl: str, queries: str) -> bool:
    try:
        return not validate(schema_of(sdl), parse(queries), RULES)
    except Exception:
        return False


def _defs(queries: str):
    doc = parse(queries, no_location=True)
    ops = [d for d in doc.definitions if isinstance(d, OperationDefinitionNode)]
    frs = [d for d in doc.definitions if isinstance(d, FragmentDefinitionNode)]
    return ops, frs


def _print(defs) -> str:
    return "\n\n".join(print_ast(d) for d in defs) + "\n"


def _derive(sc: Scenario, feature: str, sdl=None, queries=None, config=None, files=None, notes=None) -> Scenario | None:
    sdl = sc.sdl if sdl is None else sdl
    queries = sc.queries if queries is None else queries
    if not valid(sdl, queries):
        return None
    cfg = dict(sc.config)
    cfg.update(config or {})
    fl = dict(sc.files)
    fl.update(files or {})
    nt = dict(sc.notes)
    nt.update(notes or {})
    nt["pinned"] = sorted(set(sc.notes.get("pinned", ())) | set(config or {}))
    return Scenario(seed=sc.seed, sdl=sdl, queries=queries, config=cfg, features=tuple(sc.features) + (feature,),
                    files=fl, notes=nt)


def _used_vars(node, frags) -> set:
    out, seen = set(), set()

    class V(Visitor):
        def enter_variable(self, n, *_):
            out.add(n.name.value)

        def enter_fragment_spread(self, n, *_):
            if n.name.value not in seen and n.name.value in frags:
                seen.add(n.name.value)
                visit(frags[n.name.value], self)

    visit(node.selection_set, V())
    return out


# --------------------------------------------------------------------------------------------- subscriptions
def subscriptions(sc: Scenario, rng: random.Random) -> Scenario | None:
    """`type Subscription` = a copy of Query's fields; one query operation with a composite or leaf root field
    (not __typename) becomes a single-root-field subscription."""
    if "type Subscription" in sc.sdl:
        return None
    start = sc.sdl.index("type Query {")
    end = sc.sdl.index("}", start)
    sdl = sc.sdl + "\n" + sc.sdl[start:end + 1].replace("type Query {", "type Subscription {", 1) + "\n"
    ops, frs = _defs(sc.queries)
    frags = {f.name.value: f for f in frs}
    cands = [o for o in ops if o.operation == OperationType.QUERY
             and any(isinstance(s, FieldNode) and s.name.value != "__typename" for s in o.selection_set.selections)]
    if not cands:
        return None
    o = rng.choice(cands)
    first = [s for s in o.selection_set.selections if isinstance(s, FieldNode) and s.name.value != "__typename"][0]
    new = copy.deepcopy(o)
    new.operation = OperationType.SUBSCRIPTION
    new.name = NameNode(value="On" + o.name.value[:1].upper() + o.name.value[1:])
    new.selection_set = SelectionSetNode(selections=(copy.deepcopy(first),))
    used = _used_vars(new, frags)
    new.variable_definitions = tuple(v for v in new.variable_definitions if v.variable.name.value in used)
    pos = rng.randint(0, len(ops))
    ops2 = ops[:pos] + [new] + ops[pos:]
    return _derive(sc, "subscriptions", sdl=sdl, queries=_print(ops2 + frs), notes={"sub_position": pos})


# ------------------------------------------------------------------------------------------------- anonymous
def anonymous(sc: Scenario, rng: random.Random) -> Scenario | None:
    """A lone anonymous operation (graphql-core allows an anonymous operation only alone) + the fragments."""
    ops, frs = _defs(sc.queries)
    o = copy.deepcopy(rng.choice(ops))
    o.name = None
    return _derive(sc, "anonymous", queries=_print([o] + frs))


# ------------------------------------------------------------------------------------- colliding operation names
def _case_variants(name: str):
    vs = [name[:1].swapcase() + name[1:]]
    # GetThing0 -> Get_Thing0 / get_thing_0 : same snake form
    from ariadne_codegen.utils import str_to_snake_case

    sn = str_to_snake_case(name)
    vs += [sn, sn.upper(), name + "_", "_" + name]
    return [v for v in vs if v != name]


def colliding_ops(sc: Scenario, rng: random.Random) -> Scenario | None:
    """Two distinct operation names that process_name maps to one module/method name."""
    from ariadne_codegen.utils import process_name

    ops, frs = _defs(sc.queries)
    if len(ops) < 2:
        return None
    i, j = rng.sample(range(len(ops)), 2)
    target = process_name(ops[i].name.value, convert_to_snake_case=True)
    vs = [v for v in _case_variants(ops[i].name.value)
          if process_name(v, convert_to_snake_case=True) == target and all(v != o.name.value for o in ops)]
    if not vs:
        return None
    ops[j] = copy.deepcopy(ops[j])
    ops[j].name = NameNode(value=rng.choice(vs))
    return _derive(sc, "colliding_ops", queries=_print(ops + frs),
                   notes={"colliding": [ops[i].name.value, ops[j].name.value]})


# ------------------------------------------------------------------------------------------------------ mixins
BAD_MIXINS = ['@mixin(from: ".mixins_mod")', '@mixin(import: "MixA")', "@mixin",
              '@mixin(from: null, import: "MixA")', '@mixin(from: ".mixins_mod", import: null)']
GOOD_MIXIN = '@mixin(from: ".mixins_mod", import: "MixA")'
MIXIN_FILES = {"extra/mixins_mod.py": "class MixA:\n    def mix_a(self):\n        return 1\n\n\nclass MixB:\n    pass\n"}


def _composite_field_positions(defs):
    """(definition index, path of child indexes) of fields with a selection set."""
    out = []

    def walk(selset, di, path):
        for k, s in enumerate(selset.selections):
            if isinstance(s, FieldNode) and s.selection_set:
                out.append((di, path + (k,)))
                walk(s.selection_set, di, path + (k,))
            elif isinstance(s, InlineFragmentNode):
                walk(s.selection_set, di, path + (k,))

    for di, d in enumerate(defs):
        walk(d.selection_set, di, ())
    return out


def _node_at(d, path):
    n = d
    for k in path:
        n = n.selection_set.selections[k]
    return n


def _directive(text: str) -> DirectiveNode:
    return parse("query Q { f " + text + " }", no_location=True).definitions[0].selection_set.selections[0].directives[0]


def _with_mixin(sc: Scenario, rng: random.Random, text: str, feature: str, where=None) -> Scenario | None:
    ops, frs = _defs(sc.queries)
    defs = [copy.deepcopy(d) for d in ops + frs]
    choices = [("field", p) for p in _composite_field_positions(defs)]
    choices += [("fragdef", i) for i, d in enumerate(defs) if isinstance(d, FragmentDefinitionNode)]
    if where:
        choices = [c for c in choices if c[0] == where] or choices
    if not choices:
        return None
    kind, pos = rng.choice(choices)
    node = defs[pos] if kind == "fragdef" else _node_at(defs[pos[0]], pos[1])
    node.directives = tuple(node.directives or ()) + (_directive(text),)
    d_index = pos if kind == "fragdef" else pos[0]
    in_fragment = isinstance(defs[d_index], FragmentDefinitionNode)
    return _derive(sc, feature, queries=_print(defs), files=MIXIN_FILES,
                   config={"files_to_include": ["extra/mixins_mod.py"]},
                   notes={"mixin": text, "mixin_where": kind, "mixin_in_fragment": in_fragment,
                          "mixin_def_index": d_index})


def bad_mixin(sc, rng, where=None):
    return _with_mixin(sc, rng, rng.choice(BAD_MIXINS), "bad_mixin", where)


def good_mixin(sc, rng, where=None):
    s = _with_mixin(sc, rng, GOOD_MIXIN, "good_mixin", where)
    if s and rng.random() < 0.5:
        s2 = _with_mixin(s, rng, '@mixin(from: ".mixins_mod", import: "MixB")', "good_mixin")
        if s2:
            s2.features = s.features
            return s2
    return s


# ----------------------------------------------------------------------------------- probe field (F5 / F7 streams)
def _with_probe_field(sc: Scenario) -> str:
    return sc.sdl.replace("type Query {", "type Query {\n  quoteProbe(x: String, y: [String!]): String", 1)


def quote_literal(sc: Scenario, rng: random.Random) -> Scenario | None:
    lit = rng.choice(["it's", "'", "a 'quoted' word", "don't \\\"mix\\\""])
    q = sc.queries + f'\nquery QuoteOp {{ quoteProbe(x: "{lit}") }}\n'
    return _derive(sc, "quote_literal", sdl=_with_probe_field(sc), queries=q, notes={"literal": lit})


def escaped_literal(sc: Scenario, rng: random.Random) -> Scenario | None:
    """string literals that are NOT in the F5 class: double quotes, backslashes, unicode escapes, block strings"""
    lit = rng.choice(['"a\\nb"', '"tab\\there"', '"back\\\\slash"', '"q\\"uote"', '"\\u00e9"', '"""block\n  string"""',
                      '"#hash = eq"', '""'])
    q = sc.queries + f"\nquery EscOp {{ quoteProbe(x: {lit}) }}\n"
    return _derive(sc, "escaped_literal", sdl=_with_probe_field(sc), queries=q, notes={"literal": lit})


def self_variable(sc: Scenario, rng: random.Random) -> Scenario | None:
    v = rng.choice(["self", "kwargs", "Self", "KWARGS"])
    q = sc.queries + f"\nquery ProbeVar(${v}: String) {{ quoteProbe(x: ${v}) }}\n"
    return _derive(sc, "self_variable", sdl=_with_probe_field(sc), queries=q, notes={"variable": v})


def local_name_variables(sc: Scenario, rng: random.Random) -> Scenario | None:
    """variables named like the locals of a generated method (query, variables, response, data, ...)"""
    vs = rng.sample(["query", "variables", "response", "data", "url", "headers", "operation_name", "cls", "http_client",
                     "_", "x_1"], 3)
    decl = ", ".join(f"${v}: String" for v in vs[:1]) + ", " + f"${vs[1]}: [String!]"
    q = sc.queries + f"\nquery LocalsVar({decl}) {{ quoteProbe(x: ${vs[0]}, y: ${vs[1]}) }}\n"
    return _derive(sc, "local_name_variables", sdl=_with_probe_field(sc), queries=q, notes={"variables": vs[:2]})


# ------------------------------------------------------------------------------------------- file-name collisions
def rename_op(sc: Scenario, index: int, new_name: str, feature: str, **kw) -> Scenario | None:
    ops, frs = _defs(sc.queries)
    if any(o.name and o.name.value == new_name for o in ops):
        return None
    index %= len(ops)
    ops[index] = copy.deepcopy(ops[index])
    ops[index].name = NameNode(value=new_name)
    return _derive(sc, feature, queries=_print(ops + frs), **kw)


CHECKED_COLLISIONS = ["client", "Client", "enums", "inputTypes", "input_types", "fragments", "BaseModel", "base_model",
                      "exceptions", "Exceptions", "asyncBaseClient"]
UNCHECKED_COLLISIONS = ["customFields", "CustomQueries", "custom_mutations", "customTypingFields"]


def dup_files(sc: Scenario, rng: random.Random) -> Scenario | None:
    """documented refusal: an operation module / included file / configured module name collides with another"""
    k = rng.randint(0, 3)
    if k == 0:
        name = rng.choice(CHECKED_COLLISIONS)
        cfg = {"async_client": True, "opentelemetry_client": False} if name == "asyncBaseClient" else {}
        return rename_op(sc, rng.randint(0, 9), name, "dup_files", config=cfg, notes={"dup": "op:" + name})
    if k == 1:
        ops, _ = _defs(sc.queries)
        from ariadne_codegen.utils import process_name

        m = process_name(rng.choice(ops).name.value, convert_to_snake_case=True)
        return _derive(sc, "dup_files", files={f"extra/{m}.py": "X = 1\n"},
                       config={"files_to_include": [f"extra/{m}.py"]}, notes={"dup": "include:" + m})
    if k == 2:
        a = rng.choice(["shared_mod", "enums", "client"])
        pair = rng.choice([("client_file_name", "enums_module_name"), ("enums_module_name", "input_types_module_name"),
                           ("input_types_module_name", "fragments_module_name")])
        return _derive(sc, "dup_files", config={pair[0]: a, pair[1]: a}, notes={"dup": f"config:{pair}={a}"})
    return _derive(sc, "dup_files", files={"extra/base_model.py": "X = 1\n"},
                   config={"files_to_include": ["extra/base_model.py"]}, notes={"dup": "include:base_model"})


def unchecked_files(sc: Scenario, rng: random.Random) -> Scenario | None:
    """names generate() writes but _validate_unique_file_names does not look at (finding F28)"""
    if rng.random() < 0.25:
        return _derive(sc, "unchecked_files", files={"extra/__init__.py": "X = 1\n"},
                       config={"files_to_include": ["extra/__init__.py"]}, notes={"unchecked": "include:__init__"})
    name = rng.choice(UNCHECKED_COLLISIONS)
    return rename_op(sc, rng.randint(0, 9), name, "unchecked_files", config={"enable_custom_operations": True},
                     notes={"unchecked": "op:" + name})


# ------------------------------------------------------------------------------------------------ predicates
def has_untyped_inline(doc) -> bool:
    found = []

    class V(Visitor):
        def enter_inline_fragment(self, n, *_):
            if n.type_condition is None:
                found.append(1)

    visit(doc, V())
    return bool(found)


def foreign_conditions(schema, doc) -> list:
    """type conditions (inline fragments and spreads) naming an ABSTRACT type other than the enclosing type —
    the class of DESIGN §7 F4/F23 (variants are created only for possible object types)"""
    out = []
    ti = TypeInfo(schema)
    frags = {d.name.value: d for d in doc.definitions if isinstance(d, FragmentDefinitionNode)}

    class V(Visitor):
        def enter_inline_fragment(self, n, *_):
            parent = ti.get_parent_type()
            if n.type_condition is not None and parent is not None:
                t = schema.get_type(n.type_condition.name.value)
                if t is not None and is_abstract_type(t) and t.name != parent.name:
                    out.append((parent.name, t.name))

        def enter_fragment_spread(self, n, *_):
            parent = ti.get_parent_type()
            f = frags.get(n.name.value)
            if f is not None and parent is not None:
                t = schema.get_type(f.type_condition.name.value)
                if t is not None and is_abstract_type(t) and t.name != parent.name:
                    out.append((parent.name, t.name))

    visit(doc, TypeInfoVisitor(ti, V()))
    return out


# -------------------------------------------------------------------------------------------- configurations
OPTION_VALUES = {
    "client_name": ["Client", "GraphQLClient", "Api_2"],
    "client_file_name": ["client", "my_client"],
    "enums_module_name": ["enums", "my_enums"],
    "input_types_module_name": ["input_types", "inputs"],
    "fragments_module_name": ["fragments", "frags"],
    "convert_to_snake_case": [True, False],
    "async_client": [True, False],
    "opentelemetry_client": [False, True],
    "include_all_inputs": [True, False],
    "include_all_enums": [True, False],
    "enable_custom_operations": [False, True],
    "files_to_include": ["none", "one", "two+typed"],
    "scalars": ["none", "type", "full"],
    "include_comments": ["none", "stable"],
}
EXTRA_FILES = {"extra/helpers.py": "HELPER = 1\n", "extra/more_helpers.py": "from .helpers import HELPER\n",
               "extra/py.typed": ""}


def sample_options(rng: random.Random, default_bias: float = 0.55) -> dict:
    """one point of the option product; each option takes its default with probability default_bias"""
    return {k: (v[0] if rng.random() < default_bias else rng.choice(v)) for k, v in OPTION_VALUES.items()}


def apply_options(sc: Scenario, opts: dict) -> Scenario:
    """Scenario with the configuration point `opts` applied (explicit settings of the stream win)."""
    cfg = {}
    files = dict(sc.files)
    for k, v in opts.items():
        if k == "files_to_include":
            inc = {"none": [], "one": ["extra/helpers.py"],
                   "two+typed": ["extra/helpers.py", "extra/more_helpers.py", "extra/py.typed"]}[v]
            for f in inc:
                files[f] = EXTRA_FILES[f]
            if inc:
                cfg[k] = inc
        elif k == "scalars":
            if "scalar DateTime" not in sc.sdl or v == "none":
                cfg.pop("scalars", None)
                continue
            if v == "type":
                cfg["scalars"] = {"DateTime": {"type": "datetime.datetime"}}
            else:
                files["scalars_impl.py"] = ("from datetime import datetime\n"
                                            "def parse_dt(v):\n    return datetime.fromisoformat(v)\n"
                                            "def ser_dt(v):\n    return v.isoformat()\n")
                cfg["scalars"] = {"DateTime": {"type": "datetime.datetime", "parse": "scalars_impl.parse_dt",
                                               "serialize": "scalars_impl.ser_dt"}}
        else:
            cfg[k] = v
    merged = dict(cfg)
    for k in sc.notes.get("pinned", ()):           # the stream's explicit settings win over the sampled point
        if k == "files_to_include":
            mine = list(sc.config[k])
            merged[k] = mine + [f for f in cfg.get(k, []) if f not in mine]
        else:
            merged[k] = sc.config[k]
    out = Scenario(seed=sc.seed, sdl=sc.sdl, queries=sc.queries, config=merged, features=sc.features, files=files,
                   notes=dict(sc.notes))
    out.notes["options"] = dict(opts)
    return out


# ------------------------------------------------------------------------------ fragment / mixin graphs (C08's zoo)
def frag_graphs(seed: int, rng: random.Random) -> Scenario | None:
    """fragment graphs of vh.gen.frag_scen (chains of depth 3-5 with both ends spread, diamonds, fragments shared
    by operations as base and unpacked, interface/union/inline shapes, mixins on fields and fragment definitions)
    plus, half of the time, one more operation per fragment type that spreads EVERY fragment on that type side by
    side (redundant spreads of several ancestors of one chain / all corners of a diamond)."""
    from . import frag_scen

    try:
        sc = frag_scen.make(seed)
    except RuntimeError:
        return None
    queries = sc.queries
    extra = 0
    if rng.random() < 0.5:
        doc = parse(sc.queries, no_location=True)
        by_type: dict = {}
        for d in doc.definitions:
            if isinstance(d, FragmentDefinitionNode):
                by_type.setdefault(d.type_condition.name.value, []).append(d.name.value)
        roots = {"Animal": "animal", "Dog": "dog", "Cat": "cat", "Person": "person", "Pet": "pet"}
        for t, names in by_type.items():
            if len(names) >= 2 and t in roots:
                names = list(names)
                rng.shuffle(names)
                cand = queries + f"\nquery AllOf{t} {{ {roots[t]} {{ " + " ".join("..." + n for n in names) + " } }\n"
                if valid(sc.sdl, cand):
                    queries = cand
                    extra += 1
    return Scenario(seed=sc.seed, sdl=sc.sdl, queries=queries, config=dict(sc.config), features=("frag_graphs",),
                    files=dict(sc.files), notes={"shape": sc.notes["shape"], "n_frags": sc.notes["n_frags"],
                                                 "all_of_ops": extra, "pinned": []})


# ------------------------------------------------------------- every kind of reference between generated modules
ENUM_VALUE_POOL = {
    "keyword": ["class", "from", "None", "True", "False", "import", "lambda", "async", "await", "def", "not", "in", "is"],
    "soft_keyword": ["type", "match", "case", "_"],
    "enum_attribute": ["name", "value", "values", "keys", "self", "cls"],
    "str_method": ["lower", "upper", "format", "join", "title", "count", "index", "split"],
    "underscore": ["_private", "_x", "x_", "_X1", "a__b"],
    "plain": ["RED", "GREEN", "lower_case", "MixedCase", "A1"],
}
# names the enum module cannot define as members under their own name (finding C04-F31): stream enum_reserved only
ENUM_RESERVED = ["mro", "_order_", "_ignore_", "_missing_", "_name_", "_value_", "_generate_next_value_", "_sunder_",
                 "_A_", "_1_", "_x_"]


def is_sunder(name: str) -> bool:
    return len(name) > 2 and name[0] == name[-1] == "_" and name[1] != "_" and name[-2] != "_"


def enum_reserved_value(name: str) -> bool:
    return name == "mro" or is_sunder(name)


SCALARS_IMPL = ("from datetime import datetime\n"
                "def parse_dt(v):\n    return datetime.fromisoformat(v)\n"
                "def ser_dt(v):\n    return v.isoformat()\n")


def references(seed: int, rng: random.Random, reserved: bool = False) -> Scenario | None:
    """One schema family that exercises every kind of reference between generated modules:
    input_types -> enums (annotations; members as defaults at top level, in list defaults, inside object defaults,
    inside lists of objects), input_types -> input_types (nested, recursive, defaults by object), input_types ->
    base_model (Upload), input_types/result modules/fragments/client -> custom scalar modules (type, parse,
    serialize), client -> input_types/enums/result modules/base_model (variables incl. defaults, Upload),
    result modules -> enums / fragments (bases) / mixin modules / sibling classes (forward references),
    fragments -> enums / mixin modules / fragments, custom_* modules -> enums / input_types / scalars (argument
    types and defaults of every root field), __init__ -> all of them.  Enum values are drawn from Python keywords,
    soft keywords, Enum/str attribute names, underscore forms (and, with reserved=True, names Enum reserves)."""
    cats = list(ENUM_VALUE_POOL)

    def values(n):
        out = []
        while len(out) < n:
            v = rng.choice(ENUM_VALUE_POOL[rng.choice(cats)])
            if v not in out:
                out.append(v)
        return out

    color = values(rng.randint(3, 5))
    sort = values(rng.randint(2, 4))
    if reserved:
        color[rng.randrange(len(color))] = rng.choice(ENUM_RESERVED + [random_sunder(rng), random_sunder(rng)])
        if rng.random() < 0.5:
            sort[rng.randrange(len(sort))] = rng.choice(ENUM_RESERVED)
        color = list(dict.fromkeys(color))
        sort = list(dict.fromkeys(sort))
    c = lambda: rng.choice(color)  # noqa: E731
    s = lambda: rng.choice(sort)  # noqa: E731
    if reserved:  # make sure a reserved value is also USED as a default somewhere
        rc = [v for v in color if enum_reserved_value(v)]
        c0 = rc[0] if rc else c()
    else:
        c0 = c()
    sdl = f"""scalar DateTime
scalar Decimal
scalar Upload

enum Color {{ {' '.join(color)} }}
enum Sort {{ {' '.join(sort)} }}

input Inner {{
  color: Color = {c0}
  sorts: [Sort!] = [{s()}, {s()}]
  when: DateTime
  amount: Decimal
  file: Upload
  next: Inner
}}

input Filter {{
  color: Color! = {c()}
  colors: [Color] = [{c0}, {c()}]
  matrix: [[Color!]!] = [[{c()}], [{c()}, {c0}]]
  inner: Inner = {{color: {c0}, sorts: [{s()}]}}
  inners: [Inner!] = [{{color: {c()}}}, {{sorts: [{s()}], next: {{color: {c0}}}}}]
  sort: Sort
  q: String = "x"
  file: Upload
  at: DateTime = "2020-01-01T00:00:00"
}}

interface Node {{ id: ID! color: Color }}

type Item implements Node {{
  id: ID!
  color: Color
  sort: Sort!
  sorts: [Sort!]
  at: DateTime
  amount: Decimal
  parent: Item
  related(by: Sort = {s()}, filter: Filter, colors: [Color!] = [{c0}]): [Node!]!
}}

type Other implements Node {{ id: ID! color: Color name: String owner: Item }}

union Thing = Item | Other

type Query {{
  items(filter: Filter, sort: Sort = {s()}, colors: [Color!] = [{c()}, {c0}]): [Item!]!
  node(id: ID!, color: Color): Node
  thing(at: DateTime, amount: Decimal): Thing
  color(c: Color = {c0}): Color
}}

type Mutation {{
  upload(file: Upload!, files: [Upload!], filter: Filter = {{color: {c0}}}): Item
  save(input: Inner!, inputs: [Inner!] = [{{color: {c()}}}]): Node
}}
"""
    mix = lambda p, n: (f' @mixin(from: "mixins_impl", import: "Mixin{n}")' if rng.random() < p else "")  # noqa: E731
    ops = [
        f"query ListItems($filter: Filter = {{color: {c0}, inner: {{color: {c()}, sorts: [{s()}]}}}}, $sort: Sort = {s()}, "
        f"$colors: [Color!] = [{c0}]) {{ items(filter: $filter, sort: $sort, colors: $colors) {{ ...ItemFields "
        f"related(by: {s()}, colors: [{c()}]){mix(0.4, 'B')} {{ id color ... on Item {{ sort sorts }} ...NodeColor }} }} }}",
        f"query GetNode($id: ID!, $c: Color = {c0}) {{ node(id: $id, color: $c) {{ id color ...ItemFields ... on Other "
        f"{{ name owner{mix(0.4, 'C')} {{ ...ItemBrief }} }} }} }}",
        "query GetThing($at: DateTime, $amount: Decimal) { thing(at: $at, amount: $amount) { __typename ... on Item "
        "{ at amount color ...ItemBrief } ... on Other { color ...NodeColor } } }",
        f"query LiteralColor {{ color(c: {c0}) second: color(c: {c()}) }}",
        "mutation UploadFile($file: Upload!, $files: [Upload!], $filter: Filter) { upload(file: $file, files: $files, "
        "filter: $filter) { ...ItemFields } }",
        f"mutation Save($input: Inner!, $inputs: [Inner!] = [{{color: {c0}, sorts: [{s()}]}}]) {{ save(input: $input, "
        f"inputs: $inputs) {{ id ...NodeColor ... on Item {{ parent {{ ...ItemBrief }} }} }} }}",
    ]
    rng.shuffle(ops)
    ops = ops[: rng.randint(3, len(ops))]
    frs = [
        f"fragment ItemFields on Item{mix(0.5, 'A')} {{ id color sort at amount ...ItemBrief parent{mix(0.3, 'B')} {{ id color sorts }} }}",
        "fragment ItemBrief on Item { id sorts ...NodeColor }",
        f"fragment NodeColor on Node{mix(0.3, 'C')} {{ color }}",
    ]
    rng.shuffle(frs)
    queries = "\n\n".join(ops + frs) + "\n"
    if not valid(sdl, queries):
        return None
    from .frag_scen import MIXINS_PY

    sv = rng.choice(["none", "types", "full"])
    cfg = {"convert_to_snake_case": rng.random() < 0.7}
    files = {"mixins_impl.py": MIXINS_PY}
    if sv == "types":
        cfg["scalars"] = {"DateTime": {"type": "datetime.datetime"}, "Decimal": {"type": "decimal.Decimal"}}
    elif sv == "full":
        files["scalars_impl.py"] = SCALARS_IMPL
        cfg["scalars"] = {"DateTime": {"type": "datetime.datetime", "parse": "scalars_impl.parse_dt",
                                       "serialize": "scalars_impl.ser_dt"},
                          "Decimal": {"type": "decimal.Decimal", "parse": "decimal.Decimal", "serialize": "str"}}
    return Scenario(seed=seed, sdl=sdl, queries=queries, config=cfg,
                    features=("enum_reserved",) if reserved else ("references",), files=files,
                    notes={"enum_values": {"Color": color, "Sort": sort}, "scalars_variant": sv,
                           "pinned": ["scalars"] if "scalars" in cfg else []})


# ------------------------------------------------------------------------------------------- name collisions
COLLISION_SDL = """
interface Animal { id: ID! name: String }
type Dog implements Animal { id: ID! name: String bark: Int }
type Cat implements Animal { id: ID! name: String }
enum Color { RED GREEN }
input Filter { color: Color q: String }
type Query { animal(f: Filter): Animal dogs(c: Color): [Dog!]! s(x: String): String }
type Mutation { m(i: Filter!): Dog }
"""
COLLISION_QUERIES = ("query GetX($f: Filter) {{ animal(f: $f) {{ ...AF }} }}\n\nquery {other}($c: Color) {{ dogs(c: $c) {{ bark }} }}\n\n"
                     "fragment AF on Animal {{ name }}\n")
BASE_CLIENT_STEMS = {(True, False): "async_base_client", (True, True): "async_base_client_open_telemetry",
                     (False, False): "base_client", (False, True): "base_client_open_telemetry"}
EXTRACT_PLUGIN = "ariadne_codegen.contrib.extract_operations.ExtractOperationsPlugin"


def name_collisions(rng: random.Random, controls: int = 16) -> list:
    """Every file the package writes x every source of file names.  Targets: the client module, the bundled base
    client in use, base_model, enums, input types, fragments, exceptions, base_operation and the four custom
    operation modules (custom operations on), __init__, another operation's module, an included file.  Sources:
    an operation name, client_file_name, enums_module_name, input_types_module_name, fragments_module_name, a
    files_to_include basename.  Every (source, target) pair is one scenario; the control group repeats pairs whose
    target is NOT written under the configuration (custom operations off, another base client) and must generate
    and load.  The ExtractOperations plugin's module (written by the plugin itself) is a last group."""
    out = []

    def scen(source, stem, custom=True, async_=True, otel=False, group="pair", plugin=False):
        cfg = {"enable_custom_operations": custom, "async_client": async_, "opentelemetry_client": otel,
               "files_to_include": ["extra/helpers.py"]}
        files = {"extra/helpers.py": "HELPER = 1\n"}
        other = "Other"
        if source == "operation":
            other = stem
        elif source == "include":
            files[f"other/{stem}.py"] = "X = 1\n"
            cfg["files_to_include"] = ["extra/helpers.py", f"other/{stem}.py"]
        else:
            cfg[source] = stem
        if plugin:
            cfg["plugins"] = [EXTRACT_PLUGIN]
        q = COLLISION_QUERIES.format(other=other)
        if not valid(COLLISION_SDL, q):
            return
        out.append(Scenario(seed=len(out), sdl=COLLISION_SDL, queries=q, config=cfg, features=("name_collisions",),
                            files=files, notes={"source": source, "target": stem, "group": group,
                                                "pinned": sorted(cfg)}))

    sources = ["operation", "client_file_name", "enums_module_name", "input_types_module_name",
               "fragments_module_name", "include"]
    own = {"client_file_name": "client", "enums_module_name": "enums", "input_types_module_name": "input_types",
           "fragments_module_name": "fragments"}
    a, o = rng.choice(list(BASE_CLIENT_STEMS))
    targets = ["client", BASE_CLIENT_STEMS[(a, o)], "base_model", "enums", "input_types", "fragments", "exceptions",
               "base_operation", "custom_typing_fields", "custom_fields", "custom_queries", "custom_mutations",
               "__init__", "get_x", "helpers"]
    for t in targets:
        for s in sources:
            if own.get(s) == t:
                continue
            if s == "operation" and t == "__init__":
                continue  # process_name never yields __init__
            scen(s, t, custom=True, async_=a, otel=o)
    ctl = []
    for t in ["base_operation", "custom_typing_fields", "custom_fields", "custom_queries", "custom_mutations"]:
        for s in sources:
            ctl.append((s, t, False, a, o))
    for (a2, o2), stem in BASE_CLIENT_STEMS.items():
        if (a2, o2) != (a, o):
            for s in sources:
                ctl.append((s, stem, True, a, o))
    rng.shuffle(ctl)
    for s, t, custom, a2, o2 in ctl[:controls]:
        scen(s, t, custom=custom, async_=a2, otel=o2, group="control")
    scen("operation", "Other", group="plugin", plugin=True)
    for s in ("operation", "enums_module_name", "include"):
        scen(s, "operations", group="plugin", plugin=True)
    return out


def nested_composite_depth(defn) -> int:
    """number of nested fields-with-sub-selection levels inside a definition (inline fragments are transparent)"""
    def depth(ss):
        best = 0
        for sel in ss.selections:
            if isinstance(sel, FieldNode) and sel.selection_set:
                best = max(best, 1 + depth(sel.selection_set))
            elif isinstance(sel, InlineFragmentNode):
                best = max(best, depth(sel.selection_set))
        return best
    return depth(defn.selection_set)


# ------------------------------------------------------- types used in exactly one place, with pruning switched on
def exclusive_types(sc: Scenario, rng: random.Random) -> Scenario | None:
    """include_all_enums = include_all_inputs = false, and probe types each referenced from exactly ONE place of
    ONE operation, which sits first / in the middle / last in document order: an enum only as a variable type, an
    enum only as a list variable type, an input only as a variable type (with an enum only inside that input), an
    enum only in a selected result field, an enum only in a field of a fragment only this operation spreads.
    Every module that imports such a type must find it in the pruned enums / input types module."""
    ops, frs = _defs(sc.queries)
    kinds = rng.sample(["enum_var", "enum_list_var", "input_var", "enum_result", "enum_fragment"], rng.randint(1, 3))
    where = rng.choice(["first", "middle", "last", "last", "only"])
    sdl = sc.sdl + """
enum XVarEnum { VA VB }
enum XListEnum { LA LB }
enum XInnerEnum { IA IB }
enum XResultEnum { RA RB }
enum XFragEnum { FA FB }
input XOnlyInput { inner: XInnerEnum = IA, n: Int }
type XProbe { r: XResultEnum, f: XFragEnum, n: Int }
"""
    sdl = sdl.replace("type Query {", "type Query {\n  xProbe(e: XVarEnum, es: [XListEnum!], i: XOnlyInput): XProbe", 1)
    vs, args, sel, extra_frs = [], [], ["n"], []
    if "enum_var" in kinds:
        vs.append("$e: XVarEnum"); args.append("e: $e")
    if "enum_list_var" in kinds:
        vs.append("$es: [XListEnum!]"); args.append("es: $es")
    if "input_var" in kinds:
        vs.append("$i: XOnlyInput"); args.append("i: $i")
    if "enum_result" in kinds:
        sel.append("r")
    if "enum_fragment" in kinds:
        sel.append("...XProbeFrag"); extra_frs.append("fragment XProbeFrag on XProbe { f }")
    op = (f"query XProbeOp{'(' + ', '.join(vs) + ')' if vs else ''} "
          f"{{ xProbe{'(' + ', '.join(args) + ')' if args else ''} {{ {' '.join(sel)} }} }}")
    texts = [print_ast(d) for d in ops]
    if where == "only":
        texts = [op]
        frs = []
    else:
        pos = {"first": 0, "middle": len(texts) // 2, "last": len(texts)}[where]
        texts.insert(pos, op)
    q = "\n\n".join(texts + [print_ast(f) for f in frs] + extra_frs) + "\n"
    return _derive(sc, "exclusive_types", sdl=sdl, queries=q,
                   config={"include_all_enums": False, "include_all_inputs": False},
                   notes={"exclusive_kinds": kinds, "exclusive_position": where})


# ------------------------------------------------------------------------------- conditional __typename everywhere
def conditional_typename(sc: Scenario, rng: random.Random) -> Scenario | None:
    """`__typename` under @include/@skip (with literal conditions, so fragments stay variable-free): directly on an
    explicit __typename, or through an enclosing inline fragment without type condition, at object, interface and
    union positions of operations and fragments."""
    schema = schema_of(sc.sdl)
    doc = parse(sc.queries, no_location=True)
    ti = TypeInfo(schema)
    count = {"abstract": 0, "object": 0}
    forms = ["__typename @include(if: true)", "__typename @skip(if: false)", "... @include(if: true) { __typename }",
             "... @skip(if: false) { __typename }"]

    class V(Visitor):
        def enter_selection_set(self, node, *_):
            parent = ti.get_parent_type()
            if parent is None or parent.name.startswith("__") or parent in (schema.query_type, schema.mutation_type,
                                                                            schema.subscription_type):
                return None
            kind = "abstract" if is_abstract_type(parent) else "object"
            if rng.random() < (0.8 if kind == "abstract" else 0.3):
                form = rng.choice(forms)
                new = parse("{ " + form + " }", no_location=True).definitions[0].selection_set.selections[0]
                sels = [s for s in node.selections
                        if not (isinstance(s, FieldNode) and s.name.value == "__typename" and rng.random() < 0.5)]
                node.selections = tuple([new] + sels) if rng.random() < 0.5 else tuple(sels + [new])
                count[kind] += 1
            return None

    visit(doc, TypeInfoVisitor(ti, V()))
    if count["abstract"] == 0:
        return None
    return _derive(sc, "conditional_typename", queries=_print(list(doc.definitions)),
                   notes={"conditional_typename_positions": dict(count)})


# ------------------------------------------------------- a fragment that is only another fragment's dependency
DEP_SDL = """
scalar DateTime
scalar Decimal
enum Sort { ASC DESC }
enum Color { RED GREEN }
interface Node { id: ID! }
type Item implements Node { id: ID! sort: Sort color: Color at: DateTime amount: Decimal parent: Item name: String }
type Other implements Node { id: ID! name: String }
type Query { items: [Item!]! item: Item node: Node }
"""


def dependent_fragments(seed: int, rng: random.Random) -> Scenario | None:
    """Fragment F is spread directly only where it is UNPACKED (under @include/@skip; the `supertype` variant spreads
    it at an interface position instead, where the variant class takes it as a base), so the package excludes it; fragment G, which is generated (used as a base by an operation, or unused), spreads F
    as its own base - F comes back into the fragments module only as G's dependency.  F needs imports nobody else
    needs: a @mixin on its definition or on one of its fields, an enum, a custom scalar."""
    needs = rng.sample(["mixin_def", "mixin_field", "enum", "scalar"], rng.randint(1, 3))
    body = ["id"]
    if "enum" in needs:
        body.append("sort")
    if "scalar" in needs:
        body += ["at", "amount"]
    if "mixin_field" in needs:
        body.append('parent @mixin(from: "mixins_impl", import: "MixinB") { id }')
    f_dir = ' @mixin(from: "mixins_impl", import: "MixinA")' if "mixin_def" in needs else ""
    frs = [f"fragment DepF on Item{f_dir} {{ {' '.join(body)} }}"]
    depth = rng.randint(1, 2)
    frs.append("fragment DepG on Item { name ...DepF }")
    top = "DepG"
    if depth == 2:
        frs.append("fragment DepH on Item { color ...DepG }")
        top = "DepH"
    ops = []
    g_used = rng.random() < 0.7
    if g_used:
        ops.append(f"query UsesTop {{ items {{ ...{top} }} }}")
    unpack = rng.choice(["conditional", "supertype", "both", "none"])
    if unpack in ("conditional", "both"):
        ops.append("query UnpacksCond($c: Boolean!) { item { name ...DepF @include(if: $c) } }")
    if unpack in ("supertype", "both"):
        ops.append("query UnpacksSuper { node { id ...DepF } }")
    if not ops:
        ops.append("query Plain { item { name } }")
    defs = ops + frs
    rng.shuffle(defs)
    q = "\n\n".join(defs) + "\n"
    if not valid(DEP_SDL, q):
        return None
    from .frag_scen import MIXINS_PY

    sv = rng.choice(["none", "types", "full"])
    cfg = {"include_all_enums": rng.random() < 0.5}
    files = {"mixins_impl.py": MIXINS_PY}
    if sv == "types":
        cfg["scalars"] = {"DateTime": {"type": "datetime.datetime"}, "Decimal": {"type": "decimal.Decimal"}}
    elif sv == "full":
        files["scalars_impl.py"] = SCALARS_IMPL
        cfg["scalars"] = {"DateTime": {"type": "datetime.datetime", "parse": "scalars_impl.parse_dt",
                                       "serialize": "scalars_impl.ser_dt"},
                          "Decimal": {"type": "decimal.Decimal", "parse": "decimal.Decimal", "serialize": "str"}}
    return Scenario(seed=seed, sdl=DEP_SDL, queries=q, config=cfg, features=("dependent_fragments",), files=files,
                    notes={"needs": needs, "unpack": unpack, "top_used": g_used, "depth": depth,
                           "pinned": sorted(cfg)})


def random_sunder(rng: random.Random) -> str:
    """a _sunder_ name: one underscore at each end, 1-4 inner characters, none of the neighbours an underscore"""
    n = rng.choice([1, 1, 2, 3, 4])
    inner = "".join(rng.choice("aAzZ019x") for _ in range(n))
    return "_" + inner + "_"


# ------------------------------------------------ repeated composite field in one selection-set scope (C04-F27)
def repeated_composite_fields(schema, doc) -> list:
    """[(root type, response key)]: a selection-set scope - after unpacking fragment spreads and inline fragments
    the way ResultTypesGenerator._resolve_selection_set collects the fields of one class - that contains the same
    response key for a COMPOSITE field (one with a sub-selection) more than once with differing sub-selections.
    GraphQL merges such fields; the generator does not (each occurrence generates its own variant classes).
    Spreads that become base classes (not unpacked) are not part of the scope."""
    from graphql import GraphQLInterfaceType, GraphQLObjectType, GraphQLUnionType, get_named_type

    frags = {d.name.value: d for d in doc.definitions if isinstance(d, FragmentDefinitionNode)}
    out, seen = [], set()

    def has_cond(node):
        return any(d.name.value in ("skip", "include") for d in (node.directives or ()))

    def inline_root(tc, root):
        t = schema.get_type(root)
        if isinstance(t, (GraphQLObjectType, GraphQLInterfaceType)) and tc in {i.name for i in t.interfaces}:
            return tc
        return root if tc == root else None

    def collect(selset, root, under, depth=0):
        fields = []
        if depth > 12:
            return fields
        for s in selset.selections:
            if isinstance(s, FieldNode):
                fields.append(s)
            elif isinstance(s, FragmentSpreadNode):
                f = frags.get(s.name.value)
                if f is None:
                    continue
                on = f.type_condition.name.value
                ft, rt = schema.get_type(on), schema.get_type(root)
                cond = under or has_cond(s)
                unpack = (cond or isinstance(ft, GraphQLUnionType) or on != root
                          or any(isinstance(x, InlineFragmentNode) for x in f.selection_set.selections))
                if not unpack:
                    continue  # used as a base class: its fields are not fields of this class
                if on == root or (ft is not None and rt is not None and is_abstract_type(ft) and schema.is_sub_type(ft, rt)):
                    fields += collect(f.selection_set, root, cond, depth + 1)
            elif isinstance(s, InlineFragmentNode):
                r = inline_root(s.type_condition.name.value if s.type_condition else root, root)
                if r:
                    fields += collect(s.selection_set, r, under or has_cond(s), depth + 1)
        return fields

    def variant_types(selset, t, depth=0):
        """type conditions that get a variant class at an interface position (inline fragments, also through
        spreads; spreads on sub types), minus the interface's own interfaces"""
        names = []
        if depth > 12:
            return names
        for s in selset.selections:
            if isinstance(s, InlineFragmentNode):
                if s.type_condition is None:
                    names += variant_types(s.selection_set, t, depth + 1)
                else:
                    names.append(s.type_condition.name.value)
            elif isinstance(s, FragmentSpreadNode) and s.name.value in frags:
                f = frags[s.name.value]
                names += variant_types(f.selection_set, t, depth + 1)
                ft = schema.get_type(f.type_condition.name.value)
                if ft is not None and ft is not t and schema.is_sub_type(t, ft):
                    names.append(ft.name)
        own = {i.name for i in t.interfaces}
        return [n for n in names if n not in own]

    def scope(selset, root, depth=0):
        key = (id(selset), root)
        if key in seen or depth > 12:
            return
        seen.add(key)
        rt = schema.get_type(root)
        fields = collect(selset, root, False)
        by_key: dict = {}
        for f in fields:
            if f.selection_set:
                by_key.setdefault(f.alias.value if f.alias else f.name.value, []).append(f)
        for k, nodes in by_key.items():
            if len(nodes) > 1 and len({print_ast(n.selection_set) for n in nodes}) > 1:
                out.append((root, k))
        for f in fields:
            if not f.selection_set or not hasattr(rt, "fields") or f.name.value not in rt.fields:
                continue
            t = get_named_type(rt.fields[f.name.value].type)
            if isinstance(t, GraphQLObjectType):
                roots = [t.name]
            elif isinstance(t, GraphQLUnionType):
                roots = [m.name for m in t.types]
            elif isinstance(t, GraphQLInterfaceType):
                roots = [t.name] + sorted(set(variant_types(f.selection_set, t)))
            else:
                continue
            for r in roots:
                scope(f.selection_set, r, depth + 1)

    for d in doc.definitions:
        if isinstance(d, OperationDefinitionNode):
            root = {"query": schema.query_type, "mutation": schema.mutation_type,
                    "subscription": schema.subscription_type}[d.operation.value]
            if root is not None:
                scope(d.selection_set, root.name)
        elif isinstance(d, FragmentDefinitionNode):
            scope(d.selection_set, d.type_condition.name.value)
    return out
