"""Seeded generator of (schema SDL, operations text, configuration) scenarios.

Structured and mostly valid; every operation set is validated with graphql-core's full rule set before
use.  `features` selects optional input classes, several of which are known-finding classes of DESIGN §7:

  cond_fragment   @skip/@include on inline fragments and fragment spreads            (F3)
  foreign_cond    type conditions the resolver does not recognise                    (F4/F23)
  weird_names     keyword / reserved / underscore / colliding names                  (F18, F7)
  untyped_inline  inline fragments without a type condition                          (F2)
  var_names       operation variables named from SAFE_VAR_NAMES (C03; must work)
  var_names_clash ... and from CLASH_VAR_NAMES                                       (F7/F18 for variables)
  var_defaults    (with var_names*) some variables get default literals
  arg_probe       both custom scalars + root fields probe0..n whose arguments cover all wrapper shapes (C03/C07)
  subscriptions   a Subscription root type + subscription operations (async client forced); drawn from a
                  SEPARATE rng so that the schema/operations of features=() are unchanged     (C15)
  local_clash     operation variables named like the locals of a generated method / names plugins introduce
                  (query, variables, response, data, _query, gql, Optional, List, Any, TYPE_CHECKING, UNSET, ...);
                  the choice is drawn from rng2, features=() unchanged                          (C15)
  toplevel        extra operations shaped for C15: exactly one top-level field of every kind (leaf, enum,
                  custom scalar, list, object, interface, union, aliased, __typename only, via a fragment on
                  the root type) and one with several; separate rng as well                  (C15)

The main stream (features=()) stays inside the part of GraphQL the generator is expected to handle.
"""
from __future__ import annotations

import random
from dataclasses import dataclass, field

from graphql import (
    GraphQLEnumType,
    GraphQLInputObjectType,
    GraphQLInterfaceType,
    GraphQLList,
    GraphQLNonNull,
    GraphQLObjectType,
    GraphQLScalarType,
    GraphQLUnionType,
    build_schema,
    get_named_type,
    is_abstract_type,
    is_composite_type,
    is_leaf_type,
    parse,
    specified_rules,
    validate,
)

SCALARS = ["Int", "Float", "String", "Boolean", "ID"]
FIELD_WORDS = ["id", "name", "title", "count", "createdAt", "isActive", "score", "ownerId", "URLValue",
               "shortName", "tags", "ratio", "kind", "status", "parent", "items", "owner", "related",
               "bestFriend", "nextItem", "data2", "x", "y"]
WEIRD_WORDS = ["class", "from", "None", "copy", "json", "schema", "_leading", "model_dump", "fooBar", "foo_bar",
               "self", "validate", "async", "_1x", "type", "match"]
ENUM_VALUES = ["RED", "GREEN", "BLUE", "ACTIVE", "INACTIVE", "lowercase", "MixedCase", "A1", "NONE_", "X_Y"]
WEIRD_ENUM_VALUES = ["None", "True", "class", "from", "mro", "name", "value", "_x"]
# C03: variable names.  SAFE: camelCase, acronyms, keywords, soft keywords, pydantic attribute names, names of the
# method's locals (renamed by the generator) -- no two of them share a Python name.  CLASH: names that break the
# generated method (DESIGN §7 F7/F18): self/kwargs (also after snake-casing), gql, pairs mangled to one name,
# query together with _query.
SAFE_VAR_NAMES = ["userId", "firstName", "HTTPCode", "id2", "class", "from", "None", "async", "match", "type", "copy",
                  "json", "model_dump", "schema", "validate", "query", "variables", "response", "data", "x_Y",
                  "fooBar", "isOK", "filter", "input", "first", "URLValue", "in", "is", "def", "Optional", "List",
                  "UNSET", "execute", "url", "headers"]
CLASH_VAR_NAMES = ["self", "kwargs", "gql", "foo_bar", "self_", "kwargs_", "class_", "_query", "_data", "Query",
                   "_userId", "user_id", "ser_DateTime", "_1", "from_", "None_", "ser_JSONBlob", "UnsetType"]
LOCAL_CLASH_NAMES = ["query", "variables", "response", "data", "_query", "gql", "Optional", "List", "Any", "Dict",
                     "Union", "TYPE_CHECKING", "UNSET", "UnsetType", "AsyncIterator", "Upload", "BaseModel"]
WRAPPERS = ["{}", "{}!", "[{}]", "[{}!]", "[{}]!", "[{}!]!", "[[{}]]", "[[{}!]!]!"]


@dataclass
class Scenario:
    seed: int
    sdl: str
    queries: str
    config: dict
    features: tuple = ()
    files: dict = field(default_factory=dict)
    notes: dict = field(default_factory=dict)

    def request(self, d: str, **over) -> dict:
        cfg = dict(self.config)
        cfg.update(over.pop("config", {}))
        r = {"dir": d, "schema": self.sdl, "queries": self.queries, "config": cfg, "files": self.files}
        r.update(over)
        return r


class Gen:
    def __init__(self, seed: int, features=(), size: int = 2):
        self.seed = seed
        self.rng = random.Random(seed)
        self.features = tuple(features)
        self.size = size
        self.weird = "weird_names" in self.features
        self.rng2 = random.Random(seed * 7919 + 15)  # extra streams (subscriptions / toplevel) only

    # ------------------------------------------------------------------ schema
    def word(self, used: set, pool=None) -> str:
        pool = pool or (FIELD_WORDS + (WEIRD_WORDS if self.weird else []))
        for _ in range(50):
            w = self.rng.choice(pool)
            if w not in used:
                used.add(w)
                return w
        w = f"f{len(used)}"
        used.add(w)
        return w

    def wrap(self, base: str, simple_bias=0.55) -> str:
        if self.rng.random() < simple_bias:
            return self.rng.choice(WRAPPERS[:2]).format(base)
        return self.rng.choice(WRAPPERS).format(base)

    def schema(self):
        r = self.rng
        n_enum = r.randint(1, 2)
        n_iface = r.randint(0, 2)
        n_obj = r.randint(2, 3 + self.size)
        n_union = r.randint(0, 2)
        n_input = r.randint(1, 3)
        self.enums = {}
        for i in range(n_enum):
            vals = r.sample(ENUM_VALUES, r.randint(2, 4))
            if self.weird and r.random() < 0.6:
                vals += r.sample(WEIRD_ENUM_VALUES, 2)
            self.enums[f"Enum{chr(65 + i)}"] = vals
        self.custom = []
        if r.random() < 0.6:
            self.custom.append("DateTime")
        if r.random() < 0.3:
            self.custom.append("JSONBlob")
        if "arg_probe" in self.features:
            self.custom = ["DateTime", "JSONBlob"]
        leafs = SCALARS + list(self.enums) + self.custom
        self.ifaces = {}
        iface_used = {"id", "name"}
        for i in range(n_iface):
            name = ["Node", "Named"][i]
            used = iface_used
            fields = {}
            if name == "Node":
                fields["id"] = ("ID!", [])
                used.add("id")
            else:
                fields["name"] = ("String", [])
                used.add("name")
            for _ in range(r.randint(0, 2)):
                fields[self.word(used)] = (self.wrap(r.choice(leafs)), [])
            impl = []
            if name == "Named" and "Node" in self.ifaces and r.random() < 0.3:
                impl = ["Node"]
                for k, v in self.ifaces["Node"]["fields"].items():
                    fields.setdefault(k, v)
            self.ifaces[name] = {"implements": impl, "fields": fields}
        self.objs = {}
        obj_names = [f"Obj{chr(65 + i)}" for i in range(n_obj)]
        self.unions = {}
        for i in range(n_union):
            members = r.sample(obj_names, r.randint(1, min(3, len(obj_names))))
            self.unions[f"Uni{chr(65 + i)}"] = members
        composite = obj_names + list(self.ifaces) + list(self.unions)
        for on in obj_names:
            used = set()
            fields = {}
            impl = [i for i in self.ifaces if r.random() < 0.6 or on == obj_names[0]]
            for i in list(impl):
                for j in self.ifaces[i]["implements"]:
                    if j not in impl:
                        impl.append(j)
            for i in impl:
                for k, v in self.ifaces[i]["fields"].items():
                    fields[k] = v
                    used.add(k)
            for _ in range(r.randint(2, 4)):
                fields[self.word(used)] = (self.wrap(r.choice(leafs)), [])
            for _ in range(r.randint(0, 2)):
                args = []
                if r.random() < 0.3:
                    args = [("first", "Int", None)]
                fields[self.word(used)] = (self.wrap(r.choice(composite), 0.5), args)
            self.objs[on] = {"implements": impl, "fields": fields}
        self.inputs = {}
        in_names = [f"In{chr(65 + i)}" for i in range(n_input)]
        for iname in in_names:
            used = set()
            fields = {}
            for _ in range(r.randint(2, 4)):
                base = r.choice(leafs)
                t = self.wrap(base)
                default = None
                if r.random() < 0.3:
                    default = self.default_literal(t, base)
                fields[self.word(used)] = (t, default)
            if r.random() < 0.5:
                other = r.choice(in_names)
                t = r.choice(["{}", "[{}!]", "{}"]).format(other)
                fields[self.word(used)] = (t, None)
            self.inputs[iname] = fields
        # roots
        q = {}
        used = set()
        for c in composite:
            fname = c[0].lower() + c[1:]
            args = []
            if r.random() < 0.5:
                args.append(("id", r.choice(["ID!", "ID", "Int"]), None))
            if r.random() < 0.3:
                args.append(("filter", r.choice(in_names) + r.choice(["", "!"]), None))
            if r.random() < 0.2:
                args.append(("kinds", f"[{r.choice(list(self.enums))}!]", None))
            q[fname] = (self.wrap(c, 0.4), args)
            used.add(fname)
        for _ in range(2):
            q[self.word(used)] = (self.wrap(r.choice(leafs)), [])
        if "arg_probe" in self.features:
            # C03/C07: root fields whose arguments cover every wrapper shape over scalars, enums, custom scalars and
            # input objects, some with argument defaults
            for i in range(r.randint(3, 5)):
                args = []
                aused = set()
                for _ in range(r.randint(2, 5)):
                    base = r.choice(leafs + in_names + self.custom)
                    t = self.wrap(base, 0.35)
                    d = None
                    if base not in in_names and r.random() < 0.2:
                        d = self.default_literal(t, base)
                    args.append((self.word(aused), t, d))
                q[f"probe{i}"] = (self.wrap(r.choice(SCALARS + self.custom), 0.5), args)
        self.objs_all = dict(self.objs)
        self.query_fields = q
        self.mutation_fields = {}
        if r.random() < 0.6:
            c = r.choice(obj_names)
            self.mutation_fields["update" + c] = (c + r.choice(["", "!"]),
                                                   [("input", r.choice(in_names) + "!", None),
                                                    ("dryRun", "Boolean", "false")])
        self.subscription_fields = {}
        if "subscriptions" in self.features:
            r2 = self.rng2
            n = 0
            for c in r2.sample(composite, min(len(composite), 2)) + r2.sample(leafs, 2):
                args = [("n", "Int", None)] if r2.random() < 0.5 else []
                if "arg_probe" in self.features:
                    # C03: subscription variables of every kind (input objects, custom scalars, lists, enums)
                    main_rng, self.rng = self.rng, r2
                    try:
                        aused = {"n"}
                        for _ in range(r2.randint(2, 4)):
                            base = r2.choice(leafs + in_names + in_names + self.custom)
                            args.append((self.word(aused), self.wrap(base, 0.4), None))
                    finally:
                        self.rng = main_rng
                wraps = WRAPPERS[:2] if r2.random() < 0.6 else WRAPPERS
                self.subscription_fields[f"on{c}{n}"] = (r2.choice(wraps).format(c), args)
                n += 1
        return self.sdl()

    def default_literal(self, t: str, base: str) -> str:
        r = self.rng
        if t.endswith("!") is False and r.random() < 0.15:
            return "null"
        def leaf():
            if base == "Int":
                return str(r.randint(-5, 50))
            if base == "Float":
                return r.choice(["1.5", "0.25", "3.0"])
            if base in ("String", "ID"):
                return '"' + r.choice(["abc", "x y", "default"]) + '"'
            if base == "Boolean":
                return r.choice(["true", "false"])
            if base in self.enums:
                return r.choice(self.enums[base])
            return '"2020-01-01"'
        depth = t.count("[")
        v = leaf()
        for _ in range(depth):
            v = "[" + ", ".join([v] + ([leaf()] if r.random() < 0.5 and depth == 1 else [])) + "]"
        return v

    def sdl(self) -> str:
        out = []
        for s in self.custom:
            out.append(f"scalar {s}")
        for n, vals in self.enums.items():
            out.append(f"enum {n} {{\n  " + "\n  ".join(vals) + "\n}")
        def fields_sdl(fields):
            ls = []
            for k, (t, args) in fields.items():
                a = ""
                if args:
                    a = "(" + ", ".join(f"{an}: {at}" + (f" = {ad}" if ad else "") for an, at, ad in args) + ")"
                ls.append(f"  {k}{a}: {t}")
            return "\n".join(ls)
        for n, d in self.ifaces.items():
            impl = (" implements " + " & ".join(d["implements"])) if d["implements"] else ""
            out.append(f"interface {n}{impl} {{\n{fields_sdl(d['fields'])}\n}}")
        for n, d in self.objs.items():
            impl = (" implements " + " & ".join(d["implements"])) if d["implements"] else ""
            out.append(f"type {n}{impl} {{\n{fields_sdl(d['fields'])}\n}}")
        for n, m in self.unions.items():
            out.append(f"union {n} = " + " | ".join(m))
        for n, fs in self.inputs.items():
            out.append(f"input {n} {{\n" + "\n".join(
                f"  {k}: {t}" + (f" = {d}" if d is not None else "") for k, (t, d) in fs.items()) + "\n}")
        out.append(f"type Query {{\n{fields_sdl(self.query_fields)}\n}}")
        if self.mutation_fields:
            out.append(f"type Mutation {{\n{fields_sdl(self.mutation_fields)}\n}}")
        if getattr(self, "subscription_fields", None):
            out.append(f"type Subscription {{\n{fields_sdl(self.subscription_fields)}\n}}")
        return "\n\n".join(out) + "\n"

    # -------------------------------------------------------------- operations
    def operations(self, gschema, n_ops: int = 4, depth: int = 3):
        self.gs = gschema
        self.frags = {}  # name -> (type_name, selection_text)
        self.opvars = []
        ops = []
        r = self.rng
        for i in range(n_ops):
            self.opvars = []
            root = gschema.query_type
            kind = "query"
            if gschema.mutation_type and r.random() < 0.2:
                root, kind = gschema.mutation_type, "mutation"
            sel = self.selection(root, depth, top=True)
            name = r.choice(["Get", "List", "Fetch", "Load", "get", "my"]) + r.choice(["Thing", "Data", "Items", "X", "_stuff"]) + str(i)
            vars_txt = ""
            if self.opvars:
                vars_txt = "(" + ", ".join(f"${n}: {t}" + (f" = {d}" if d else "") for n, t, d in self.opvars) + ")"
            ops.append(f"{kind} {name}{vars_txt} {sel}")
        ops += self.extra_operations(gschema, depth)
        frs = [f"fragment {n} on {t} {s}" for n, (t, s) in self.frags.items()]
        if r.random() < 0.3 and self.gs.query_type:
            frs.append("fragment UnusedFrag on Query { __typename }")
        r.shuffle(frs)
        return "\n\n".join(ops + frs) + "\n"

    def extra_operations(self, gschema, depth):
        """Operations of the `subscriptions` / `toplevel` features, drawn from rng2 (main stream untouched)."""
        if not ({"subscriptions", "toplevel"} & set(self.features)):
            return []
        ops = []
        main_rng, self.rng = self.rng, self.rng2
        try:
            r = self.rng
            k = 0

            def required_args(fdef):
                from graphql import Undefined

                parts = []
                for an, a in fdef.args.items():
                    required = isinstance(a.type, GraphQLNonNull) and a.default_value is Undefined
                    if required or r.random() < 0.6:
                        parts.append(f"{an}: {self.variable(str(a.type))}")
                return "(" + ", ".join(parts) + ")" if parts else ""

            def valid(op_text):
                from graphql.validation import NoUnusedFragmentsRule

                rules = [x for x in specified_rules if x is not NoUnusedFragmentsRule]
                frs = "\n".join(f"fragment {n} on {t} {s_}" for n, (t, s_) in self.frags.items())
                try:
                    return not validate(gschema, parse(op_text + "\n" + frs), rules)
                except Exception:
                    return False

            def one(kind, root, fname, alias=""):
                nonlocal k
                for _attempt in range(4):
                    snapshot = dict(self.frags)
                    self.opvars = []
                    fdef = root.fields[fname]
                    named = get_named_type(fdef.type)
                    sub = ""
                    if is_composite_type(named):
                        sub = " " + self.selection(named, max(1, depth - 1))
                    body = f"{alias}{fname}{required_args(fdef)}{sub}"
                    vars_txt = ""
                    if self.opvars:
                        vars_txt = "(" + ", ".join(f"${n}: {t}" for n, t, _d in self.opvars) + ")"
                    k += 1
                    text = (f"{kind} {r.choice(['Top', 'Single', 'watch', 'On'])}{fname[0].upper()}{fname[1:]}X{k}"
                            f"{vars_txt} {{ {body} }}")
                    if valid(text):
                        return [text]
                    self.frags = snapshot
                return []

            if "subscriptions" in self.features and gschema.subscription_type:
                names = list(gschema.subscription_type.fields)
                for fname in r.sample(names, min(len(names), r.randint(2, 3))):
                    ops += one("subscription", gschema.subscription_type, fname)
            if "toplevel" in self.features:
                q = gschema.query_type
                names = list(q.fields)
                r.shuffle(names)
                seen_kinds = set()
                for fname in names:
                    named = get_named_type(q.fields[fname].type)
                    kind = type(named).__name__ + ("/" + named.name if is_leaf_type(named) else "")
                    if kind in seen_kinds and r.random() < 0.6:
                        continue
                    seen_kinds.add(kind)
                    ops += one("query", q, fname, alias="al: " if r.random() < 0.25 else "")
                k += 1
                ops.append(f"query OnlyTypename{k} {{ __typename }}")
                leaf_names = [n for n in names if is_leaf_type(get_named_type(q.fields[n].type))
                              and not q.fields[n].args]
                if leaf_names:
                    k += 1
                    fn = f"RootFrag{k}"
                    self.frags[fn] = ("Query", "{ " + leaf_names[0] + " }")
                    ops.append(f"query ViaRootFrag{k} {{ ...{fn} }}")
                    if len(leaf_names) > 1:
                        k += 1
                        ops.append(f"query FragPlusField{k} {{ ...{fn} {leaf_names[1]} }}")
                        k += 1
                        ops.append(f"query Several{k} {{ {leaf_names[0]} second: {leaf_names[1]} __typename }}")
                if gschema.mutation_type:
                    fname = next(iter(gschema.mutation_type.fields))
                    ops += one("mutation", gschema.mutation_type, fname)
        finally:
            self.rng = main_rng
        return ops

    def variable(self, type_str: str, default=None) -> str:
        n = f"v{len(self.opvars)}"
        if "local_clash" in self.features and self.rng2.random() < 0.6:
            taken = {x for x, _t, _d in self.opvars}
            free = [x for x in LOCAL_CLASH_NAMES if x not in taken and x.lstrip("_") not in taken
                    and ("_" + x) not in taken]
            if free:
                n = self.rng2.choice(free)
        if "var_names" in self.features or "var_names_clash" in self.features:
            used = {x[0] for x in self.opvars}
            pool = SAFE_VAR_NAMES
            if "var_names_clash" in self.features and self.rng.random() < 0.45:
                pool = CLASH_VAR_NAMES
            free = [w for w in pool if w not in used]
            if free and self.rng.random() < 0.85:
                n = self.rng.choice(free)
            if "var_defaults" in self.features and default is None and self.rng.random() < 0.3:
                default = self.var_default(type_str)
            self.opvars.append((n, type_str, default))
            return "$" + n
        if self.weird and self.rng.random() < 0.3:
            n = self.rng.choice(["fooBar", "class", "query", "variables", "data", "_x", "response"]) + str(len(self.opvars))
        self.opvars.append((n, type_str, default))
        return "$" + n

    def var_default(self, type_str: str):
        """A default literal for a variable of the given type (scalars / enums / lists of them only)."""
        base = type_str.replace("[", "").replace("]", "").replace("!", "")
        if base not in SCALARS and base not in self.enums:
            return None
        return self.default_literal(type_str, base)

    def arg_text(self, fdef) -> str:
        parts = []
        r = self.rng
        for an, a in fdef.args.items():
            required = isinstance(a.type, GraphQLNonNull) and a.default_value is None
            if "arg_probe" in self.features:  # (the default stream keeps its historical RNG consumption)
                from graphql import Undefined
                required = isinstance(a.type, GraphQLNonNull) and a.default_value is Undefined
            if not required and r.random() < 0.4:
                continue
            if r.random() < 0.7:
                parts.append(f"{an}: {self.variable(str(a.type))}")
            else:
                lit = self.literal_for(a.type)
                if lit is None:
                    parts.append(f"{an}: {self.variable(str(a.type))}")
                else:
                    parts.append(f"{an}: {lit}")
        return "(" + ", ".join(parts) + ")" if parts else ""

    def literal_for(self, t):
        r = self.rng
        if isinstance(t, GraphQLNonNull):
            return self.literal_for(t.of_type)
        if isinstance(t, GraphQLList):
            inner = self.literal_for(t.of_type)
            return None if inner is None else f"[{inner}]"
        if isinstance(t, GraphQLEnumType):
            return r.choice(list(t.values))
        if isinstance(t, GraphQLScalarType):
            return {"Int": "3", "Float": "1.5", "String": '"lit"', "Boolean": "true", "ID": '"id-1"'}.get(t.name)
        return None

    def cond(self) -> str:
        r = self.rng
        flag = None
        for n, t, _d in self.opvars:
            if t == "Boolean!" and r.random() < 0.6:
                flag = "$" + n
        if flag is None:
            flag = self.variable("Boolean!")
        return f" @{r.choice(['include', 'skip'])}(if: {flag})"

    def field_sel(self, parent, fname, fdef, depth, used_keys) -> str | None:
        r = self.rng
        named = get_named_type(fdef.type)
        key = fname
        alias = ""
        if r.random() < 0.2 or key in used_keys:
            key = r.choice(["al", "second", "other", "myAlias"]) + str(len(used_keys))
            alias = key + ": "
        if key in used_keys:
            return None
        sub = ""
        if is_composite_type(named):
            if depth <= 0:
                return None
            sub = " " + self.selection(named, depth - 1)
        used_keys.add(key)
        d = self.cond() if r.random() < 0.12 else ""
        return f"{alias}{fname}{self.arg_text(fdef)}{d}{sub}"

    def fields_of(self, t, depth, used_keys, lo=1, hi=4) -> list[str]:
        r = self.rng
        names = list(t.fields)
        r.shuffle(names)
        out = []
        for fname in names[: r.randint(lo, hi)]:
            s = self.field_sel(t, fname, t.fields[fname], depth, used_keys)
            if s:
                out.append(s)
        return out

    def selection(self, t, depth, top=False) -> str:
        r = self.rng
        used = set()
        parts = []
        if top and "arg_probe" in self.features and t is self.gs.query_type:
            probes = [f for f in t.fields if f.startswith("probe")]
            for fname in r.sample(probes, min(len(probes), r.randint(1, 2))):
                sel = self.field_sel(t, fname, t.fields[fname], depth, used)
                if sel:
                    parts.append(sel)
        if isinstance(t, GraphQLObjectType):
            parts += self.fields_of(t, depth, used, 1, 4 if not top else 3)
            if not top and r.random() < 0.25:
                parts.append("__typename")
            if not top and r.random() < 0.3:
                parts.append("..." + self.fragment_on(t, depth))
            if not top and r.random() < 0.1:
                sub = self.fields_of(t, 0, used, 1, 2)
                if sub:
                    parts.append(f"... on {t.name}{self.frag_cond()} {{ " + " ".join(sub) + " }")
            if not top and "foreign_cond" in self.features and t.interfaces and r.random() < 0.5:
                i = r.choice(list(t.interfaces))
                sub = self.fields_of(i, 0, used, 1, 2)
                if sub:
                    parts.append(f"... on {i.name} {{ " + " ".join(sub) + " }")
            if "untyped_inline" in self.features and not top and r.random() < 0.4:
                sub = self.fields_of(t, 0, used, 1, 2)
                if sub:
                    parts.append("..." + self.cond() + " { " + " ".join(sub) + " }")
        elif isinstance(t, GraphQLInterfaceType):
            parts += self.fields_of(t, depth, used, 0, 3)
            if r.random() < 0.3:
                parts.append("__typename")
            possible = list(self.gs.get_possible_types(t))
            r.shuffle(possible)
            for o in possible[: r.randint(0, len(possible))]:
                if r.random() < 0.35:
                    parts.append("..." + self.fragment_on(o, depth) + self.frag_cond())
                else:
                    sub = self.fields_of(o, depth, used, 1, 3)
                    if sub:
                        parts.append(f"... on {o.name}{self.frag_cond()} {{ " + " ".join(sub) + " }")
            if r.random() < 0.25:
                parts.append("..." + self.fragment_on(t, depth))
            if "foreign_cond" in self.features and r.random() < 0.5:
                others = [i for i in self.gs.type_map.values()
                          if isinstance(i, (GraphQLInterfaceType, GraphQLUnionType)) and i is not t
                          and not i.name.startswith("__")]
                if others:
                    o = r.choice(others)
                    if isinstance(o, GraphQLInterfaceType):
                        sub = self.fields_of(o, 0, used, 1, 2)
                        if sub:
                            parts.append(f"... on {o.name} {{ " + " ".join(sub) + " }")
        elif isinstance(t, GraphQLUnionType):
            if r.random() < 0.4:
                parts.append("__typename")
            members = list(t.types)
            r.shuffle(members)
            for o in members[: r.randint(1, len(members))]:
                if r.random() < 0.3:
                    parts.append("..." + self.fragment_on(o, depth) + self.frag_cond())
                else:
                    sub = self.fields_of(o, depth, used, 1, 3)
                    if sub:
                        parts.append(f"... on {o.name}{self.frag_cond()} {{ " + " ".join(sub) + " }")
            if r.random() < 0.15:
                parts.append("..." + self.fragment_on(t, depth))
        if not parts:
            parts = ["__typename"]
        return "{ " + " ".join(parts) + " }"

    def frag_cond(self) -> str:
        if "cond_fragment" in self.features and self.rng.random() < 0.5:
            return self.cond()
        return ""

    def fragment_on(self, t, depth) -> str:
        r = self.rng
        existing = [n for n, (tn, _s) in self.frags.items() if tn == t.name]
        if existing and r.random() < 0.5:
            return r.choice(existing)
        name = f"{t.name}Frag{len(self.frags)}"
        self.frags[name] = (t.name, "{ __typename }")  # reserve (prevents self-reference)
        saved = self.opvars
        self.opvars = []  # fragments use no variables (keeps every operation valid)
        sel = self.selection(t, max(0, depth - 1))
        self.opvars = saved
        self.frags[name] = (t.name, sel)
        return name


def scalar_module() -> tuple[dict, dict]:
    """files_to_include-free custom scalar wiring: a module next to the package dir."""
    files = {"scalars_impl.py": (
        "from datetime import datetime\n"
        "def parse_dt(v):\n    return datetime.fromisoformat(v)\n"
        "def ser_dt(v):\n    return v.isoformat()\n")}
    cfg = {"DateTime": {"type": "datetime.datetime", "parse": "scalars_impl.parse_dt",
                        "serialize": "scalars_impl.ser_dt"}}
    return files, cfg


def make(seed: int, features=(), n_ops: int = 4, depth: int = 3, size: int = 2, tries: int = 20) -> Scenario:
    """A valid scenario for `seed` (retries sub-seeds until graphql-core validates everything)."""
    for k in range(tries):
        g = Gen(seed * 1000 + k, features, size)
        sdl = g.schema()
        try:
            gs = build_schema(sdl)
        except Exception:
            continue
        q = g.operations(gs, n_ops=n_ops, depth=depth)
        try:
            doc = parse(q)
        except Exception:
            continue
        try:
            errs = validate(gs, doc, specified_rules)
        except TypeError:
            continue
        if errs:
            continue
        r = g.rng
        cfg = {
            "convert_to_snake_case": r.random() < 0.7,
            "async_client": r.random() < 0.5,
            "opentelemetry_client": r.random() < 0.25,
        }
        if "subscriptions" in features:
            cfg["async_client"] = True  # the generator refuses subscriptions for the sync client
        files = {}
        if "DateTime" in g.custom and r.random() < 0.7:
            files, sc = scalar_module()
            cfg["scalars"] = sc
        return Scenario(seed=seed, sdl=sdl, queries=q, config=cfg, features=tuple(features), files=files,
                        notes={"subseed": k})
    raise RuntimeError(f"no valid scenario for seed {seed}")
