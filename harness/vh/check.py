"""Entry point:  python -m vh.check C18 quick|thorough [--replay file]"""
from __future__ import annotations

import importlib
import os
import random
import sys
import traceback

from . import coqcheck
from .report import Run


class Ctx:
    def __init__(self, prop, tier, seed, run):
        self.prop, self.tier, self.seed, self.run = prop, tier, seed, run
        self.rng = random.Random(seed)
        self.thorough = tier == "thorough"
        self.replay = None


def main(argv):
    if len(argv) < 2:
        print("usage: check <Cxx> quick|thorough [--replay file]")
        return 1
    prop = argv[1]
    tier = argv[2] if len(argv) > 2 and not argv[2].startswith("--") else os.environ.get("VERIF_TIER", "quick")
    if tier not in ("quick", "thorough"):
        tier = "quick"
    seed = int(os.environ.get("VERIF_SEED", "0") or 0)
    run = Run(prop, tier, seed)
    ctx = Ctx(prop, tier, seed, run)
    if "--replay" in argv:
        ctx.replay = argv[argv.index("--replay") + 1]
    try:
        ok, log = coqcheck.build("all")
        if not ok:
            run.broken("coq-build", log)
        else:
            coq = coqcheck.obligations(prop, thorough=ctx.thorough)
            run.coq = coq
            if coq["hygiene"]:
                run.broken("coq-hygiene", "\n".join(coq["hygiene"]))
            if coq["obligations"] == 0 or coq["discharged"] != coq["obligations"] or not coq["ok"]:
                run.broken(f"theorem file Properties/{prop}.v does not check", coq["log"])
            mod = importlib.import_module(f"vh.props.{prop.lower()}")
            mod.run(ctx)
    except Exception:  # fail closed
        run.broken("harness-exception", traceback.format_exc())
    return run.finish()


if __name__ == "__main__":
    sys.exit(main(sys.argv))
