(* Object-level refinement for the result-class generator (C01 accept / preserve, C05 strict):
   the classes generated for a selection set accept and cover every conformant response object.
   Sub-language: selection sets of fields only (no spreads / inline fragments), leaf fields of scalar /
   enum type and composite fields of OBJECT type at any depth.  Guards are boolean (sels_ok). *)
From Coq Require Import List String Ascii Bool Arith Lia ZArith.
From AC Require Import Base.Strs Base.Sexp Base.Json Gql.Schema Gql.Exec Py.Ann Py.Pydantic
     Model.Names Model.Results Proofs.ResultsP.
Import ListNotations.
Local Open Scope string_scope.
Local Open Scope list_scope.

(* ------------------------------------------------------------------------------------------- *)
(* 0. Generic helpers                                                                           *)

Lemma bind_ok {X Y} (r : res X) (f : X -> res Y) y :
  bind r f = Ok y -> exists x, r = Ok x /\ f x = Ok y.
Proof. destruct r as [x|m]; simpl; intro H; [exists x; auto | discriminate]. Qed.

Lemma eqb_neq_false a b : a <> b -> String.eqb a b = false.
Proof. intro H. destruct (String.eqb a b) eqn:E; [apply String.eqb_eq in E; contradiction | reflexivity]. Qed.

Lemma mem_false_In x l : mem x l = false <-> ~ In x l.
Proof.
  split; intro H.
  - intro Hin. apply mem_In in Hin. congruence.
  - destruct (mem x l) eqn:E; [apply mem_In in E; contradiction | reflexivity].
Qed.

Fixpoint nodupb (l : list string) : bool :=
  match l with [] => true | x :: r => negb (mem x r) && nodupb r end.

Lemma nodupb_NoDup l : nodupb l = true <-> NoDup l.
Proof.
  induction l as [|x r IH]; simpl.
  - split; [constructor | reflexivity].
  - rewrite andb_true_iff, negb_true_iff, mem_false_In, IH. split.
    + intros [H1 H2]. constructor; assumption.
    + intro H. inversion H; subst. split; assumption.
Qed.

Lemma NoDup_snoc {X} (l : list X) x : NoDup l -> ~ In x l -> NoDup (l ++ [x]).
Proof.
  induction l as [|y r IH]; simpl; intros Hnd Hn.
  - constructor; [intros [] | constructor].
  - inversion Hnd; subst. constructor.
    + rewrite in_app_iff. intros [H | [H | []]]; [contradiction | subst; apply Hn; left; reflexivity].
    + apply IH; auto.
Qed.

Lemma jlookup_In k kv v : jlookup k kv = Some v -> In (k, v) kv.
Proof.
  induction kv as [|[k' v'] r IH]; simpl; [discriminate|].
  destruct (String.eqb k k') eqn:E.
  - apply String.eqb_eq in E. subst. intro H; inversion H; subst. left; reflexivity.
  - intro H. right. apply IH, H.
Qed.

Lemma jlookup_None_notin k kv : jlookup k kv = None <-> ~ In k (map fst kv).
Proof.
  induction kv as [|[k' v'] r IH]; simpl.
  - split; [intros _ [] | reflexivity].
  - destruct (String.eqb k k') eqn:E.
    + apply String.eqb_eq in E. subst. split; [discriminate | intro H; exfalso; apply H; left; reflexivity].
    + rewrite IH. apply String.eqb_neq in E. split.
      * intros H [H1 | H1]; [congruence | contradiction].
      * intros H H1. apply H. right. exact H1.
Qed.

(* ------------------------------------------------------------------------------------------- *)
(* 1. Inversion of the monadic folds of parse_type_def                                          *)

Section Run.
  Variable rec : ptd_fun.
  Variables (C : cfg) (S : schema) (frs : list fragdef) (fuel' : nat) (cn tn : string)
            (tv : option (list string)).

  Inductive subs_run (ctx : fctx) (f : fnode) (sub : list sel)
    : list related -> mem_state -> list pclass -> mem_state -> bool -> Prop :=
  | sr_nil pub : subs_run ctx f sub [] pub [] pub false
  | sr_cons rc rcs pub qc qp qs cls pub' sk :
      rec pub (r_class rc) (r_type rc) sub (x_abstract ctx) (fn_mixins f)
          (Some (typename_values S (x_related ctx) (r_type rc))) = Ok (qc, qp, qs) ->
      subs_run ctx f sub rcs qp cls pub' sk ->
      subs_run ctx f sub (rc :: rcs) pub (qc ++ cls) pub' (qs || sk).

  Lemma sub_fold_err ctx f sub rcs m :
    fold_left (parse_sub_step rec S ctx f sub) rcs (Err m) = Err m.
  Proof. induction rcs; simpl; auto. Qed.

  Lemma subs_fold ctx f sub : forall rcs cls0 pub0 sk0 cls pub' sk,
    fold_left (parse_sub_step rec S ctx f sub) rcs (Ok (cls0, pub0, sk0)) = Ok (cls, pub', sk) ->
    exists cl skl, subs_run ctx f sub rcs pub0 cl pub' skl /\ cls = cls0 ++ cl /\ sk = sk0 || skl.
  Proof.
    induction rcs as [|rc rcs IH]; intros cls0 pub0 sk0 cls pub' sk H; simpl in H.
    - inversion H; subst. exists [], false. rewrite app_nil_r, orb_false_r. repeat split. constructor.
    -
      destruct (rec pub0 (r_class rc) (r_type rc) sub (x_abstract ctx) (fn_mixins f)
                    (Some (typename_values S (x_related ctx) (r_type rc)))) as [[[qc qp] qs]|m] eqn:E;
        simpl in H; [| rewrite sub_fold_err in H; discriminate].
      apply IH in H. destruct H as [cl [skl [Hr [Hc Hs]]]].
      exists (qc ++ cl), (qs || skl). split; [econstructor; eauto|].
      subst. rewrite app_assoc, orb_assoc. auto.
  Qed.

  Inductive fields_run
    : list fnode -> mem_state -> list pfield -> list pclass -> mem_state -> bool -> Prop :=
  | fr_nil pub : fields_run [] pub [] [] pub false
  | fr_cons f fs pub pf ctx exc exp exs pfl extra pub' sk :
      field_pf C S frs fuel' cn tn tv f = Ok (pf, ctx) ->
      parse_subs rec S ctx f pub = Ok (exc, exp, exs) ->
      fields_run fs exp pfl extra pub' sk ->
      fields_run (f :: fs) pub (pf :: pfl) (exc ++ extra) pub' (exs || sk).

  Lemma field_fold_err fs m :
    fold_left (parse_field_step rec C S frs fuel' cn tn tv) fs (Err m) = Err m.
  Proof. induction fs; simpl; auto. Qed.

  Lemma fields_fold : forall fs pfs0 extra0 pub0 sk0 pfs extra pub' sk,
    fold_left (parse_field_step rec C S frs fuel' cn tn tv) fs (Ok (pfs0, extra0, pub0, sk0))
      = Ok (pfs, extra, pub', sk) ->
    exists pfl exl skl, fields_run fs pub0 pfl exl pub' skl /\
                        pfs = pfs0 ++ pfl /\ extra = extra0 ++ exl /\ sk = sk0 || skl.
  Proof.
    induction fs as [|f fs IH]; intros pfs0 extra0 pub0 sk0 pfs extra pub' sk H; simpl in H.
    - inversion H; subst. exists [], [], false. rewrite !app_nil_r, orb_false_r. repeat split. constructor.
    -
      destruct (field_pf C S frs fuel' cn tn tv f) as [[pf ctx]|m] eqn:E1; simpl in H;
        [| rewrite field_fold_err in H; discriminate].
      destruct (parse_subs rec S ctx f pub0) as [[[exc exp] exs]|m] eqn:E2; simpl in H;
        [| rewrite field_fold_err in H; discriminate].
      apply IH in H. destruct H as [pfl [exl [skl [Hr [Hp [He Hs]]]]]].
      exists (pf :: pfl), (exc ++ exl), (exs || skl). split; [econstructor; eauto|].
      subst. rewrite <- !app_assoc, orb_assoc. auto.
  Qed.

  Lemma parse_subs_inv ctx f pub exc exp exs :
    parse_subs rec S ctx f pub = Ok (exc, exp, exs) ->
    (fn_sub f = None /\ exc = [] /\ exp = pub /\ exs = false) \/
    (exists sub, fn_sub f = Some sub /\ subs_run ctx f sub (x_related ctx) pub exc exp exs).
  Proof.
    unfold parse_subs. destruct (fn_sub f) as [sub|].
    - intro H. apply subs_fold in H. destruct H as [cl [skl [Hr [Hc Hs]]]]. simpl in *. subst.
      right. exists sub. auto.
    - intro H. inversion H; subst. left. auto.
  Qed.

  Lemma body_inv pub sels at_ eb out pub' sk :
    parse_body rec C S frs fuel' pub cn tn sels at_ eb tv = Ok (out, pub', sk) ->
    (mem cn pub = true /\ out = [] /\ pub' = pub /\ sk = true) \/
    (mem cn pub = false /\ exists fields0 mixins pfl extra,
        resolve fuel' S frs sels tn = Ok (fields0, mixins) /\
        fields_run (add_typename_field at_ fields0) (pub ++ [cn]) pfl extra pub' sk /\
        out = {| c_name := cn; c_bases := class_bases mixins eb; c_fields := pfl |} :: extra).
  Proof.
    unfold parse_body. destruct (mem cn pub) eqn:M.
    - intro H; inversion H; subst. left. auto.
    - intro H. right. split; [reflexivity|].
      apply bind_ok in H. destruct H as [[fields0 mixins] [Hres H]].
      apply bind_ok in H. destruct H as [[[[pfs extra] pub1] sk1] [Hf H]].
      inversion H; subst; clear H.
      apply fields_fold in Hf. destruct Hf as [pfl [exl [skl [Hr [Hp [He Hs]]]]]]. simpl in *. subst.
      exists fields0, mixins, pfl, exl. auto.
  Qed.

  (* generic extraction of a per-field property from a run without skipped classes *)
  Lemma fields_run_Forall (P : fnode -> pfield -> Prop) : forall fs pub pfl extra pub',
    fields_run fs pub pfl extra pub' false ->
    (forall f pf ctx exc pub0 pub1, In f fs -> field_pf C S frs fuel' cn tn tv f = Ok (pf, ctx) ->
        parse_subs rec S ctx f pub0 = Ok (exc, pub1, false) -> incl exc extra -> P f pf) ->
    Forall2 P fs pfl.
  Proof.
    intros fs pub pfl extra pub' H. remember false as sk eqn:Hsk. revert Hsk.
    induction H as [pub | f fs pub pf ctx exc exp exs pfl extra pub' sk Hpf Hsub Hrun IH]; intros Hsk HP.
    - constructor.
    - apply orb_false_elim in Hsk as [Hs1 Hs2]. subst. constructor.
      + eapply HP; eauto. left; reflexivity. apply incl_appl, incl_refl.
      + apply IH; auto. intros f0 pf0 ctx0 exc0 pub0 pub1 Hin H1 H2 H3.
        eapply HP; eauto. right; exact Hin. apply incl_appr, H3.
  Qed.
End Run.

(* ------------------------------------------------------------------------------------------- *)
(* 2. _public_names: without a skip the generated class names are appended, pairwise distinct    *)

Definition names_inv (rec : ptd_fun) : Prop :=
  forall pub cn tn sels at_ eb tv out pub',
    rec pub cn tn sels at_ eb tv = Ok (out, pub', false) ->
    pub' = pub ++ map c_name out /\ (NoDup pub -> NoDup pub').

Section NamesInv.
  Variable rec : ptd_fun.
  Hypothesis Hrec : names_inv rec.
  Variables (C : cfg) (S : schema) (frs : list fragdef) (fuel' : nat).

  Lemma subs_run_names ctx f sub : forall rcs pub cls pub' sk,
    subs_run rec S ctx f sub rcs pub cls pub' sk -> sk = false ->
    pub' = pub ++ map c_name cls /\ (NoDup pub -> NoDup pub').
  Proof.
    intros rcs pub cls pub' sk H.
    induction H as [pub | rc rcs pub qc qp qs cls pub' sk Hq Hrun IH]; intro Hsk.
    - simpl. rewrite app_nil_r. auto.
    - apply orb_false_elim in Hsk as [Hs1 Hs2]. subst.
      apply Hrec in Hq. destruct Hq as [Hq1 Hq2]. destruct (IH eq_refl) as [I1 I2].
      subst. rewrite map_app, app_assoc. auto.
  Qed.

  Lemma fields_run_names cn tn tv : forall fs pub pfl extra pub' sk,
    fields_run rec C S frs fuel' cn tn tv fs pub pfl extra pub' sk -> sk = false ->
    pub' = pub ++ map c_name extra /\ (NoDup pub -> NoDup pub').
  Proof.
    intros fs pub pfl extra pub' sk H.
    induction H as [pub | f fs pub pf ctx exc exp exs pfl extra pub' sk Hpf Hsub Hrun IH]; intro Hsk.
    - simpl. rewrite app_nil_r. auto.
    - apply orb_false_elim in Hsk as [Hs1 Hs2]. subst.
      destruct (IH eq_refl) as [I1 I2].
      apply parse_subs_inv in Hsub. destruct Hsub as [[_ [He [Hp _]]] | [sub [_ Hr]]].
      + subst. simpl. auto.
      + apply subs_run_names in Hr; [| reflexivity]. destruct Hr as [R1 R2].
        subst. rewrite map_app, app_assoc. auto.
  Qed.

  Lemma body_names : names_inv (parse_body rec C S frs fuel').
  Proof.
    intros pub cn tn sels at_ eb tv out pub' H.
    apply body_inv in H. destruct H as [[_ [_ [_ H]]] | [M [fields0 [mixins [pfl [extra [_ [Hr Ho]]]]]]]];
      [discriminate|].
    apply fields_run_names in Hr; [| reflexivity]. destruct Hr as [R1 R2]. subst.
    simpl. split; [rewrite <- app_assoc; reflexivity|].
    intro Hnd. apply R2. apply NoDup_snoc; [exact Hnd | apply mem_false_In, M].
  Qed.
End NamesInv.

Lemma ptd_names C S frs : forall fuel, names_inv (parse_type_def fuel C S frs).
Proof.
  induction fuel as [|fuel IH].
  - intros pub cn tn sels at_ eb tv out pub' H. discriminate H.
  - intros pub cn tn sels at_ eb tv out pub' H. simpl in H. eapply body_names; eauto.
Qed.

(* every generated class is found under its own name in any table that starts with the output *)
Lemma lookup_class_own : forall own rest c,
  NoDup (map c_name own) -> In c own -> lookup_class (own ++ rest) (c_name c) = Some c.
Proof.
  unfold lookup_class. induction own as [|d own IH]; intros rest c Hnd Hin; [contradiction|].
  simpl in *. inversion Hnd; subst. destruct Hin as [E | Hin].
  - subst. rewrite String.eqb_refl. reflexivity.
  - destruct (String.eqb (c_name d) (c_name c)) eqn:E.
    + apply String.eqb_eq in E. exfalso. apply H1. rewrite E. apply in_map, Hin.
    + apply IH; auto.
Qed.

Lemma ptd_table C S frs fuel cn tn sels at_ eb tv out pub' rest :
  parse_type_def fuel C S frs [] cn tn sels at_ eb tv = Ok (out, pub', false) ->
  forall c, In c out -> lookup_class (out ++ rest) (c_name c) = Some c.
Proof.
  intros H c Hin. apply ptd_names in H. destruct H as [H1 H2]. simpl in H1. subst.
  apply lookup_class_own; auto. apply H2. constructor.
Qed.

(* ------------------------------------------------------------------------------------------- *)
(* 3. Selection sets of fields only: resolve and collect are the identity                        *)

Definition fields_only (sels : list sel) : bool :=
  forallb (fun s => match s with SField _ _ _ _ _ => true | _ => false end) sels.

Definition fnodes_of (sels : list sel) : list fnode :=
  flat_map (fun s => match s with SField al n c ms sub => [fnode_of al n c ms sub] | _ => [] end) sels.

Definition node_of_fnode (under : bool) (f : fnode) : cnode :=
  {| n_key := field_key f; n_name := fn_name f; n_cond := under || fn_cond f; n_sub := fn_sub f |}.

Lemma resolve_fields_only S frs root : forall fuel sels,
  fields_only sels = true -> resolve (Datatypes.S fuel) S frs sels root = Ok (fnodes_of sels, []).
Proof.
  intros fuel sels. simpl.
  assert (G : forall l0 m0, fields_only sels = true ->
            fold_left (resolve_step (resolve fuel S frs) S frs root) sels (Ok (l0, m0))
            = Ok (l0 ++ fnodes_of sels, m0)).
  { induction sels as [|s sels IH]; intros l0 m0 H; simpl.
    - rewrite app_nil_r. reflexivity.
    - simpl in H. apply andb_true_iff in H as [H1 H2]. destruct s; try discriminate.
      simpl. rewrite IH; auto. rewrite <- app_assoc. reflexivity. }
  intro H. apply (G [] [] H).
Qed.

Lemma resolve_ok_fuel S frs root fuel sels r : resolve fuel S frs sels root = Ok r -> exists k, fuel = Datatypes.S k.
Proof. destruct fuel; [discriminate | eauto]. Qed.

Lemma collect_fields_only S frs rt under : forall fuel sels,
  fields_only sels = true ->
  collect (Datatypes.S fuel) S frs rt under sels = Some (map (node_of_fnode under) (fnodes_of sels)).
Proof.
  intros fuel sels. simpl.
  assert (G : forall l0, fields_only sels = true ->
            fold_left (collect_step (collect fuel S frs rt) S frs rt under) sels (Some l0)
            = Some (l0 ++ map (node_of_fnode under) (fnodes_of sels))).
  { induction sels as [|s sels IH]; intros l0 H; simpl.
    - rewrite app_nil_r. reflexivity.
    - simpl in H. apply andb_true_iff in H as [H1 H2]. destruct s; try discriminate.
      simpl. rewrite IH; auto. rewrite <- app_assoc. reflexivity. }
  intro H. apply (G [] H).
Qed.

Lemma collect_scopes_fields_only S frs rt fuel sels :
  fields_only sels = true ->
  collect_scopes (Datatypes.S fuel) S frs rt [(false, sels)]
  = Some (map (node_of_fnode false) (fnodes_of sels)).
Proof.
  intro H. unfold collect_scopes. cbn [fold_left fst snd]. rewrite collect_fields_only; auto.
Qed.

Lemma collect_scopes_O S frs rt sels : collect_scopes 0 S frs rt [(false, sels)] = None.
Proof. reflexivity. Qed.

Lemma keys_in_order_nodup : forall l seen,
  NoDup (map n_key l) -> (forall n, In n l -> ~ In (n_key n) seen) ->
  keys_in_order l seen = map n_key l.
Proof.
  induction l as [|n r IH]; intros seen Hnd Hs; simpl; [reflexivity|].
  simpl in Hnd. inversion Hnd; subst.
  assert (M : mem (n_key n) seen = false) by (apply mem_false_In, Hs; left; reflexivity).
  rewrite M. f_equal. apply IH; auto.
  intros m Hm [E | Hin].
  - apply H1. rewrite E. apply in_map, Hm.
  - apply (Hs m); [right; exact Hm | exact Hin].
Qed.

Lemma filter_key_single : forall nodes n,
  NoDup (map n_key nodes) -> In n nodes ->
  filter (fun m => String.eqb (n_key m) (n_key n)) nodes = [n].
Proof.
  induction nodes as [|m r IH]; intros n Hnd Hin; [contradiction|].
  simpl in *. inversion Hnd; subst. destruct Hin as [E | Hin].
  - subst. rewrite String.eqb_refl. f_equal.
    assert (G : forall l, ~ In (n_key n) (map n_key l) ->
                filter (fun m => String.eqb (n_key m) (n_key n)) l = []).
    { induction l as [|x l IHl]; simpl; intro Hn; [reflexivity|].
      rewrite eqb_neq_false; [apply IHl | ]; intuition. }
    apply G, H1.
  - rewrite eqb_neq_false; [apply IH; auto|].
    intro E. apply H1. rewrite E. apply in_map, Hin.
Qed.
