From Coq Require Import List String Ascii Bool Arith Lia ZArith.
From AC Require Import Base.Strs Base.Sexp Base.Json Gql.Schema Gql.Exec Py.Ann Py.Pydantic
     Model.Names Model.Results Proofs.ResultsP.
Import ListNotations.
Local Open Scope string_scope.
Local Open Scope list_scope.

(* ------------------------------------------------------------------------------------------- *)
(* The selection sets on which the generator's _resolve_selection_set (against root r) and the     *)
(* executor's CollectFields (for the runtime OBJECT type rt) flatten fragments to the same fields. *)
(* Fragments must be unconditional (F3) and every type condition must be judged alike by both      *)
(* sides (F4); spreads must be of the unpacked kind (mixin spreads become base classes).           *)

Definition node_of_fnode (under : bool) (f : fnode) : cnode :=
  {| n_key := field_key f; n_name := fn_name f; n_cond := under || fn_cond f; n_sub := fn_sub f |}.

Definition flatten_step (rec : string -> list sel -> option (list fnode))
           (S : schema) (frs : list fragdef) (rt r : string)
           (acc : option (list fnode)) (s : sel) : option (list fnode) :=
  match acc with
  | None => None
  | Some l =>
      match s with
      | SField al n c ms sub => Some (l ++ [fnode_of al n c ms sub])
      | SInline (Some tc) false sub =>
          match inline_root_type S tc r, type_applies S rt tc with
          | Some r', true => match rec r' sub with Some l' => Some (l ++ l') | None => None end
          | None, false => Some l
          | _, _ => None
          end
      | SSpread n false =>
          match lookup_frag frs n with
          | Some f =>
              match lookup_type S r, lookup_type S (fr_on f) with
              | Some _, Some fd =>
                  if unpack_fragment S f (Some r) then
                    if String.eqb (fr_on f) r || (is_abstract fd && is_sub_type S (fr_on f) r)
                    then (if type_applies S rt (fr_on f)
                          then match rec r (fr_sel f) with Some l' => Some (l ++ l') | None => None end
                          else None)
                    else (if type_applies S rt (fr_on f) then None else Some l)
                  else None
              | _, _ => None
              end
          | None => None
          end
      | _ => None
      end
  end.

Fixpoint flatten (fuel : nat) (S : schema) (frs : list fragdef) (rt r : string) (sels : list sel)
  : option (list fnode) :=
  match fuel with
  | O => None
  | Datatypes.S g => fold_left (flatten_step (flatten g S frs rt) S frs rt r) sels (Some [])
  end.

Lemma flatten_fold_none rec S frs rt r sels : fold_left (flatten_step rec S frs rt r) sels None = None.
Proof. induction sels; simpl; auto. Qed.

Lemma resolve_fold_err rec S frs r sels m : fold_left (resolve_step rec S frs r) sels (Err m) = Err m.
Proof. induction sels; simpl; auto. Qed.

Lemma collect_fold_none rec S frs rt under sels :
  fold_left (collect_step rec S frs rt under) sels None = None.
Proof. induction sels; simpl; auto. Qed.

Section Agree.
  Variables (S : schema) (frs : list fragdef) (rt : string).

  (* resolve: whenever it succeeds it returns the flattened fields and no mixin *)
  Lemma flatten_resolve_det : forall g f r sels fns x,
    flatten g S frs rt r sels = Some fns -> resolve f S frs sels r = Ok x -> x = (fns, []).
  Proof.
    induction g as [|g IH]; intros f r sels fns x Hf Hr; [discriminate Hf|].
    destruct f as [|f]; [discriminate Hr|]. simpl in Hf, Hr.
    assert (G : forall sels l1 l0 m0 fns x,
              fold_left (flatten_step (flatten g S frs rt) S frs rt r) sels (Some l1) = Some fns ->
              fold_left (resolve_step (resolve f S frs) S frs r) sels (Ok (l0, m0)) = Ok x ->
              exists d, fns = l1 ++ d /\ x = (l0 ++ d, m0)).
    { clear Hf Hr fns x sels. induction sels as [|s sels IHs]; intros l1 l0 m0 fns x Hf Hr; simpl in Hf, Hr.
      - inversion Hf; inversion Hr; subst. exists []. rewrite !app_nil_r. auto.
      - destruct s as [al n c ms sub | n c | tc c sub].
        + simpl in Hf, Hr. destruct (IHs _ _ _ _ _ Hf Hr) as [d [H1 H2]].
          exists (fnode_of al n c ms sub :: d). subst. rewrite <- !app_assoc. auto.
        + simpl in Hf, Hr. destruct c; [rewrite flatten_fold_none in Hf; discriminate|].
          destruct (lookup_frag frs n) as [fd|]; [| rewrite flatten_fold_none in Hf; discriminate].
          destruct (lookup_type S r) as [dr|]; [| rewrite flatten_fold_none in Hf; discriminate].
          destruct (lookup_type S (fr_on fd)) as [df|]; [| rewrite flatten_fold_none in Hf; discriminate].
          destruct (unpack_fragment S fd (Some r)); [| rewrite flatten_fold_none in Hf; discriminate].
          simpl in Hr.
          destruct (String.eqb (fr_on fd) r || (is_abstract df && is_sub_type S (fr_on fd) r)).
          * destruct (type_applies S rt (fr_on fd)); [| rewrite flatten_fold_none in Hf; discriminate].
            destruct (flatten g S frs rt r (fr_sel fd)) as [l'|] eqn:El;
              [| rewrite flatten_fold_none in Hf; discriminate].
            destruct (resolve f S frs (fr_sel fd) r) as [q|m] eqn:Eq; simpl in Hr;
              [| rewrite resolve_fold_err in Hr; discriminate].
            rewrite (IH _ _ _ _ _ El Eq) in Hr. simpl in Hr. rewrite app_nil_r in Hr.
            destruct (IHs _ _ _ _ _ Hf Hr) as [d [H1 H2]]. exists (l' ++ d). subst. rewrite <- !app_assoc. auto.
          * destruct (type_applies S rt (fr_on fd)); [rewrite flatten_fold_none in Hf; discriminate|].
            apply (IHs _ _ _ _ _ Hf Hr).
        + simpl in Hf, Hr. destruct tc as [tc|]; [| rewrite flatten_fold_none in Hf; discriminate].
          destruct c; [rewrite flatten_fold_none in Hf; discriminate|].
          destruct (inline_root_type S tc r) as [r'|].
          * destruct (type_applies S rt tc); [| rewrite flatten_fold_none in Hf; discriminate].
            destruct (flatten g S frs rt r' sub) as [l'|] eqn:El;
              [| rewrite flatten_fold_none in Hf; discriminate].
            destruct (resolve f S frs sub r') as [q|m] eqn:Eq; simpl in Hr;
              [| rewrite resolve_fold_err in Hr; discriminate].
            rewrite (IH _ _ _ _ _ El Eq) in Hr. simpl in Hr. rewrite app_nil_r in Hr.
            destruct (IHs _ _ _ _ _ Hf Hr) as [d [H1 H2]]. exists (l' ++ d). subst. rewrite <- !app_assoc. auto.
          * destruct (type_applies S rt tc); [rewrite flatten_fold_none in Hf; discriminate|].
            apply (IHs _ _ _ _ _ Hf Hr). }
    destruct (G _ _ _ _ _ _ Hf Hr) as [d [H1 H2]]. simpl in *. subst. reflexivity.
  Qed.

  Ltac kill Hf := rewrite flatten_fold_none in Hf; discriminate Hf.

  (* collect: whenever it succeeds it returns the nodes of the flattened fields *)
  Lemma flatten_collect_det : forall g f r under sels fns l,
    flatten g S frs rt r sels = Some fns -> collect f S frs rt under sels = Some l ->
    l = map (node_of_fnode under) fns.
  Proof.
    induction g as [|g IH]; intros f r under sels fns l Hf Hc; [discriminate Hf|].
    destruct f as [|f]; [discriminate Hc|]. simpl in Hf, Hc.
    assert (G : forall sels l1 l0 fns l,
              fold_left (flatten_step (flatten g S frs rt) S frs rt r) sels (Some l1) = Some fns ->
              fold_left (collect_step (collect f S frs rt) S frs rt under) sels (Some l0) = Some l ->
              exists d, fns = l1 ++ d /\ l = l0 ++ map (node_of_fnode under) d).
    { clear Hf Hc fns l sels. induction sels as [|s sels IHs]; intros l1 l0 fns l Hf Hc; simpl in Hf, Hc.
      - inversion Hf; inversion Hc; subst. exists []. simpl. rewrite !app_nil_r. auto.
      - destruct s as [al n c ms sub | n c | tc c sub].
        + simpl in Hf, Hc. destruct (IHs _ _ _ _ Hf Hc) as [d [H1 H2]].
          exists (fnode_of al n c ms sub :: d). subst. simpl. rewrite <- !app_assoc. auto.
        + simpl in Hf, Hc. destruct c; [kill Hf|].
          destruct (lookup_frag frs n) as [fd|]; [| kill Hf].
          destruct (lookup_type S r) as [dr|]; [| kill Hf].
          destruct (lookup_type S (fr_on fd)) as [df|]; [| kill Hf].
          destruct (unpack_fragment S fd (Some r)); [| kill Hf].
          rewrite orb_false_r in Hc.
          destruct (String.eqb (fr_on fd) r || (is_abstract df && is_sub_type S (fr_on fd) r)).
          * destruct (type_applies S rt (fr_on fd)); [| kill Hf].
            destruct (flatten g S frs rt r (fr_sel fd)) as [l'|] eqn:El; [| kill Hf].
            destruct (collect f S frs rt under (fr_sel fd)) as [q|] eqn:Eq;
              [| rewrite collect_fold_none in Hc; discriminate].
            rewrite (IH _ _ _ _ _ _ El Eq) in Hc.
            destruct (IHs _ _ _ _ Hf Hc) as [d [H1 H2]]. exists (l' ++ d). subst.
            rewrite map_app, <- !app_assoc. auto.
          * destruct (type_applies S rt (fr_on fd)); [kill Hf|].
            apply (IHs _ _ _ _ Hf Hc).
        + simpl in Hf, Hc. destruct tc as [tc|]; [| kill Hf].
          destruct c; [kill Hf|]. rewrite orb_false_r in Hc.
          destruct (inline_root_type S tc r) as [r'|].
          * destruct (type_applies S rt tc); [| kill Hf].
            destruct (flatten g S frs rt r' sub) as [l'|] eqn:El; [| kill Hf].
            destruct (collect f S frs rt under sub) as [q|] eqn:Eq;
              [| rewrite collect_fold_none in Hc; discriminate].
            rewrite (IH _ _ _ _ _ _ El Eq) in Hc.
            destruct (IHs _ _ _ _ Hf Hc) as [d [H1 H2]]. exists (l' ++ d). subst.
            rewrite map_app, <- !app_assoc. auto.
          * destruct (type_applies S rt tc); [kill Hf|].
            apply (IHs _ _ _ _ Hf Hc). }
    destruct (G _ _ _ _ _ Hf Hc) as [d [H1 H2]]. simpl in *. subst. reflexivity.
  Qed.

  (* with at least the guard's fuel both succeed *)
  Lemma flatten_both_ex : forall g r sels fns,
    flatten g S frs rt r sels = Some fns ->
    forall f, f >= g ->
      resolve f S frs sels r = Ok (fns, []) /\
      (forall under, collect f S frs rt under sels = Some (map (node_of_fnode under) fns)).
  Proof.
    induction g as [|g IH]; intros r sels fns Hf f Hge; [discriminate Hf|].
    destruct f as [|f]; [lia|]. assert (Hge' : f >= g) by lia. simpl in Hf. simpl.
    assert (G : forall sels l1 fns,
              fold_left (flatten_step (flatten g S frs rt) S frs rt r) sels (Some l1) = Some fns ->
              exists d, fns = l1 ++ d /\
                (forall l0 m0, fold_left (resolve_step (resolve f S frs) S frs r) sels (Ok (l0, m0))
                               = Ok (l0 ++ d, m0)) /\
                (forall under l0, fold_left (collect_step (collect f S frs rt) S frs rt under) sels (Some l0)
                                  = Some (l0 ++ map (node_of_fnode under) d))).
    { clear Hf fns sels. induction sels as [|s sels IHs]; intros l1 fns Hf; simpl in Hf.
      - inversion Hf; subst. exists []. simpl. split; [rewrite app_nil_r; reflexivity|].
        split; intros; rewrite app_nil_r; reflexivity.
      - destruct s as [al n c ms sub | n c | tc c sub].
        + simpl in Hf. destruct (IHs _ _ Hf) as [d [H1 [H2 H3]]].
          exists (fnode_of al n c ms sub :: d). subst. split; [rewrite <- app_assoc; reflexivity|].
          split; intros; simpl; [rewrite H2 | rewrite H3]; rewrite <- app_assoc; reflexivity.
        + simpl in Hf. destruct c; [kill Hf|].
          destruct (lookup_frag frs n) as [fd|] eqn:Elf; [| kill Hf].
          destruct (lookup_type S r) as [dr|] eqn:Elr; [| kill Hf].
          destruct (lookup_type S (fr_on fd)) as [df|] eqn:Elo; [| kill Hf].
          destruct (unpack_fragment S fd (Some r)) eqn:Eu; [| kill Hf].
          destruct (String.eqb (fr_on fd) r || (is_abstract df && is_sub_type S (fr_on fd) r)) eqn:Eb.
          * destruct (type_applies S rt (fr_on fd)) eqn:Et; [| kill Hf].
            destruct (flatten g S frs rt r (fr_sel fd)) as [l'|] eqn:El; [| kill Hf].
            destruct (IH _ _ _ El f Hge') as [R1 R2].
            destruct (IHs _ _ Hf) as [d [H1 [H2 H3]]]. exists (l' ++ d). subst.
            split; [rewrite <- app_assoc; reflexivity|].
            split; intros; simpl; rewrite Elf.
            -- rewrite Elr, Elo, Eu, Eb, R1. simpl. rewrite app_nil_r, H2, <- app_assoc. reflexivity.
            -- rewrite Et, orb_false_r, R2, H3, map_app, <- app_assoc. reflexivity.
          * destruct (type_applies S rt (fr_on fd)) eqn:Et; [kill Hf|].
            destruct (IHs _ _ Hf) as [d [H1 [H2 H3]]]. exists d. split; [exact H1|].
            split; intros; simpl; rewrite Elf.
            -- rewrite Elr, Elo, Eu, Eb. simpl. apply H2.
            -- rewrite Et. apply H3.
        + simpl in Hf. destruct tc as [tc|]; [| kill Hf]. destruct c; [kill Hf|].
          destruct (inline_root_type S tc r) as [r'|] eqn:Ei.
          * destruct (type_applies S rt tc) eqn:Et; [| kill Hf].
            destruct (flatten g S frs rt r' sub) as [l'|] eqn:El; [| kill Hf].
            destruct (IH _ _ _ El f Hge') as [R1 R2].
            destruct (IHs _ _ Hf) as [d [H1 [H2 H3]]]. exists (l' ++ d). subst.
            split; [rewrite <- app_assoc; reflexivity|].
            split; intros; simpl.
            -- rewrite Ei, R1. simpl. rewrite app_nil_r, H2, <- app_assoc. reflexivity.
            -- rewrite Et, orb_false_r, R2, H3, map_app, <- app_assoc. reflexivity.
          * destruct (type_applies S rt tc) eqn:Et; [kill Hf|].
            destruct (IHs _ _ Hf) as [d [H1 [H2 H3]]]. exists d. split; [exact H1|].
            split; intros; simpl.
            -- rewrite Ei. apply H2.
            -- rewrite Et. apply H3. }
    destruct (G _ _ _ Hf) as [d [H1 [H2 H3]]]. simpl in H1. subst d.
    split; [apply (H2 [] []) | intro under; apply (H3 under [])].
  Qed.
End Agree.
