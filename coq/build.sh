#!/bin/bash
# Full .vo build of the Coq development (no -vos/-vok), then extraction + OCaml drivers.
# usage: build.sh [all|coq|drivers]
set -e
cd "$(dirname "$0")"
what=${1:-all}
J=${VERIF_JOBS:-16}
if [ "$what" = all ] || [ "$what" = coq ]; then
  { echo "-Q theories AC"; find theories -name '*.v' ! -path 'theories/Extract/*' | LC_ALL=C sort; } > _CoqProject
  coq_makefile -f _CoqProject -o Makefile >/dev/null
  mkdir -p ../build
  if ! timeout 1800 make -j"$J" > ../build/coq-make.log 2>&1; then
    grep -v "^COQDEP\|^CLEAN\|^COQC \|^make\[" ../build/coq-make.log | tail -40
    echo "coq build failed"; exit 1
  fi
fi
if [ "$what" = all ] || [ "$what" = drivers ]; then
  mkdir -p ../build/ocaml
  for x in theories/Extract/X*.v; do
    [ -e "$x" ] || continue
    id=$(basename "$x" .v); id=${id#X}
    d=../build/ocaml/$id
    if [ ! -x "$d/modelrun" ] || [ -n "$(find theories driver -newer "$d/modelrun" \( -name '*.v' -o -name '*.ml' \) | head -1)" ]; then
      mkdir -p "$d"
      ( cd "$d" && timeout 600 coqc -Q "$OLDPWD/theories" AC "$OLDPWD/$x" >/dev/null \
        && cp "$OLDPWD/driver/driver.ml" . \
        && timeout 600 ocamlfind ocamlopt -O3 -w -a model.mli model.ml driver.ml -o modelrun.tmp 2>/dev/null \
        && mv modelrun.tmp modelrun ) || { echo "driver build failed: $id"; exit 1; }
    fi
  done
fi
echo "build ok"
