(* Generic driver for an extracted model: one S-expression per input line, one per output line.
   Trusted glue: text <-> Model.sexp conversion only; all decoding of values is Gallina. *)
open Model

let coq_ascii_of_char (c : char) : ascii =
  let n = Char.code c in
  let b i = (n lsr i) land 1 = 1 in
  Ascii (b 0, b 1, b 2, b 3, b 4, b 5, b 6, b 7)

let char_of_coq_ascii (a : ascii) : char =
  match a with
  | Ascii (b0, b1, b2, b3, b4, b5, b6, b7) ->
    let v b i = if b then 1 lsl i else 0 in
    Char.chr (v b0 0 + v b1 1 + v b2 2 + v b3 3 + v b4 4 + v b5 5 + v b6 6 + v b7 7)

let coq_string_of (s : Stdlib.String.t) : Model.string =
  let r = ref EmptyString in
  for i = Stdlib.String.length s - 1 downto 0 do
    r := String (coq_ascii_of_char s.[i], !r)
  done;
  !r

let ocaml_string_of (s : Model.string) : Stdlib.String.t =
  let b = Buffer.create 16 in
  let rec go = function
    | EmptyString -> ()
    | String (a, r) -> Buffer.add_char b (char_of_coq_ascii a); go r in
  go s; Buffer.contents b

exception Parse of Stdlib.String.t

let parse (s : Stdlib.String.t) : sexp =
  let n = Stdlib.String.length s in
  let pos = ref 0 in
  let peek () = if !pos < n then Some s.[!pos] else None in
  let rec skip () = match peek () with
    | Some (' ' | '\t' | '\r' | '\n') -> incr pos; skip ()
    | _ -> () in
  let hex c = match c with
    | '0'..'9' -> Char.code c - 48
    | 'a'..'f' -> Char.code c - 87
    | 'A'..'F' -> Char.code c - 55
    | _ -> raise (Parse "hex") in
  let rec item () : sexp =
    skip ();
    match peek () with
    | None -> raise (Parse "eof")
    | Some '(' ->
      incr pos;
      let rec items acc =
        skip ();
        match peek () with
        | Some ')' -> incr pos; List.rev acc
        | None -> raise (Parse "unclosed")
        | _ -> let x = item () in items (x :: acc) in
      L (items [])
    | Some ')' -> raise (Parse "unexpected )")
    | Some '"' ->
      incr pos;
      let b = Buffer.create 16 in
      let rec go () =
        if !pos >= n then raise (Parse "unclosed string");
        let c = s.[!pos] in
        incr pos;
        if c = '"' then ()
        else if c = '\\' then begin
          if !pos >= n then raise (Parse "escape");
          let e = s.[!pos] in
          incr pos;
          (match e with
           | 'n' -> Buffer.add_char b '\n'
           | 't' -> Buffer.add_char b '\t'
           | 'r' -> Buffer.add_char b '\r'
           | 'x' ->
             if !pos + 1 >= n then raise (Parse "hex escape");
             Buffer.add_char b (Char.chr (16 * hex s.[!pos] + hex s.[!pos + 1]));
             pos := !pos + 2
           | c -> Buffer.add_char b c);
          go ()
        end else begin Buffer.add_char b c; go () end in
      go ();
      A (coq_string_of (Buffer.contents b))
    | Some _ ->
      let st = !pos in
      let rec go () = match peek () with
        | Some (' ' | '\t' | '\r' | '\n' | '(' | ')' | '"') | None -> ()
        | _ -> incr pos; go () in
      go ();
      A (coq_string_of (Stdlib.String.sub s st (!pos - st))) in
  let r = item () in
  skip ();
  if !pos <> n then raise (Parse "trailing input");
  r

let rec print (b : Buffer.t) (e : sexp) : unit =
  match e with
  | A s ->
    Buffer.add_char b '"';
    Stdlib.String.iter (fun c ->
        match c with
        | '"' -> Buffer.add_string b "\\\""
        | '\\' -> Buffer.add_string b "\\\\"
        | '\n' -> Buffer.add_string b "\\n"
        | c when Char.code c < 32 || Char.code c >= 127 ->
          Buffer.add_string b (Printf.sprintf "\\x%02x" (Char.code c))
        | c -> Buffer.add_char b c) (ocaml_string_of s);
    Buffer.add_char b '"'
  | L l ->
    Buffer.add_char b '(';
    List.iteri (fun i x -> if i > 0 then Buffer.add_char b ' '; print b x) l;
    Buffer.add_char b ')'

let () =
  let b = Buffer.create 4096 in
  (try
     while true do
       let line = input_line stdin in
       Buffer.clear b;
       (try print b (dispatch (parse line))
        with Parse m -> Buffer.clear b; Buffer.add_string b ("(\"error\" \"parse: " ^ m ^ "\")")
           | Stack_overflow -> Buffer.clear b; Buffer.add_string b "(\"error\" \"stack overflow\")");
       Buffer.add_char b '\n';
       print_string (Buffer.contents b);
       flush stdout
     done
   with End_of_file -> ())
