(* Abstract Python annotations and classes: what the generated result modules MEAN. *)
From Coq Require Import List String Ascii Bool.
From AC Require Import Base.Sexp.
Import ListNotations.
Local Open Scope string_scope.

Inductive ann :=
| AStr | AInt | AFloat | ABool | AAny
| ACustom (ty : string) (has_parse : bool)
| AEnum (n : string)
| AClass (n : string)
| AOpt (a : ann)
| AList (a : ann)
| AUnion (alts : list ann)          (* always discriminated on typename__ *)
| ALit (vals : list string).

Record pfield := { p_name : string; p_alias : option string; p_ann : ann;
                   p_default_none : bool; p_discriminator : bool }.
Record pclass := { c_name : string; c_bases : list string; c_fields : list pfield }.

Fixpoint ann_sx (a : ann) : sexp :=
  match a with
  | AStr => A "str" | AInt => A "int" | AFloat => A "float" | ABool => A "bool" | AAny => A "any"
  | ACustom t p => L [A "custom"; A t; sB p]
  | AEnum n => L [A "enum"; A n]
  | AClass n => L [A "cls"; A n]
  | AOpt x => L [A "opt"; ann_sx x]
  | AList x => L [A "list"; ann_sx x]
  | AUnion l => L (A "union" :: map ann_sx l)
  | ALit vs => L (A "lit" :: map A vs)
  end.

Definition pfield_sx (f : pfield) : sexp :=
  L [A (p_name f); sOpt A (p_alias f); ann_sx (p_ann f); sB (p_default_none f); sB (p_discriminator f)].

Definition pclass_sx (c : pclass) : sexp :=
  L [A (c_name c); L (map A (c_bases c)); L (map pfield_sx (c_fields c))].
