(* Python/pydantic side semantics for the fragment the input generator emits:
   - eval: evaluation of the emitted default expressions (constants, lists, dicts, Enum.MEMBER names,
     Field(default_factory=lambda: ...), globals()[T].model_validate(d))
   - validate: pydantic-v2 lax-mode validation of a JSON-shaped value against an input annotation, with the
     bundled BaseModel configuration (populate_by_name, extra ignored), building the instance and calling
     defaults of missing fields
   - accepts: the shape part of validate (a missing field is fine iff the field has a default)
   - dump: model_dump(by_alias=True) as JSON
   Fuel counts value nesting / model_validate chains only.  Definitions only. *)
From Coq Require Import List String Ascii ZArith Bool.
From AC Require Import Base.Sexp Base.Json Base.Strs Gql.InSchema Model.Names Model.Defaults Model.Inputs.
Import ListNotations.
Local Open Scope string_scope.

Inductive pyval :=
| VNone | VBool (b : bool) | VInt (z : Z) | VFloat (lexeme : string) | VStr (s : string)
| VList (l : list pyval) | VDict (kv : list (string * pyval))
| VEnum (ty v : string)                                      (* member of str-Enum ty with value v *)
| VModel (cls : string) (fs : list (string * (string * pyval)))  (* python name, (wire name, value) *)
| VFieldInfo                                                 (* a pydantic FieldInfo object used as a value *)
| VOpaque.

Inductive pyerr := ESyntax | EName | EAttribute | EValidation | EFuel.
Inductive res (X : Type) := Ok (x : X) | Err (e : pyerr).
Arguments Ok {X} x.
Arguments Err {X} e.

Definition res_map {X Y} (f : X -> Y) (r : res X) : res Y :=
  match r with Ok x => Ok (f x) | Err e => Err e end.

Definition is_validation (e : pyerr) : bool := match e with EValidation => true | _ => false end.

(* pydantic collects validation errors over all items/fields and raises ValidationError at the end, but
   any other exception (from a default factory) propagates at once *)
Fixpoint collect {X} (l : list (res X)) : res (list X) :=
  match l with
  | [] => Ok []
  | Ok x :: r => res_map (cons x) (collect r)
  | Err e :: r =>
      if is_validation e then
        match collect r with Err e' => if is_validation e' then Err EValidation else Err e' | Ok _ => Err EValidation end
      else Err e
  end.

(* plain evaluation order: first error wins *)
Fixpoint sequence {X} (l : list (res X)) : res (list X) :=
  match l with
  | [] => Ok []
  | Ok x :: r => res_map (cons x) (sequence r)
  | Err e :: _ => Err e
  end.

Record env := { e_enums : list (string * list string); e_classes : list pclass }.

Fixpoint find_class (n : string) (cl : list pclass) : option pclass :=
  match cl with
  | [] => None
  | c :: r => if String.eqb n (c_name c) then Some c else find_class n r
  end.

(* a later assignment to the same name in a class body replaces the earlier one *)
Fixpoint effective (fs : list pfield) : list pfield :=
  match fs with
  | [] => []
  | f :: r => if existsb (fun g => String.eqb (p_name g) (p_name f)) r then effective r else f :: effective r
  end.

Definition wire_of (f : pfield) : string :=
  match rhs_alias (p_value f) with Some a => a | None => p_name f end.

(* populate_by_name: the alias is looked up first, then the field name *)
Definition field_input (f : pfield) (kv : list (string * json)) : option json :=
  match rhs_alias (p_value f) with
  | Some a => match jlookup a kv with Some v => Some v | None => jlookup (p_name f) kv end
  | None => jlookup (p_name f) kv
  end.

Definition has_default (f : pfield) : bool :=
  match rhs_default (p_value f) with DRequired => false | _ => true end.

Fixpoint find_member (m : string) (vals : list string) : option string :=
  match vals with
  | [] => None
  | v :: r => if String.eqb (member_name v) m then Some v else find_member m r
  end.

Fixpoint split_dot (s : string) : option (string * string) :=
  match s with
  | EmptyString => None
  | String c r => if Ascii.eqb c "."%char then Some (EmptyString, r)
                  else match split_dot r with Some (a, b) => Some (String c a, b) | None => None end
  end.

(* Name(id="T.M") is printed as T.M and read back as an attribute access *)
Definition eval_name (E : env) (id : string) : res pyval :=
  match split_dot id with
  | None => Err EName
  | Some (t, m) =>
      if (t =? "") || iskeyword (s2l m) then Err ESyntax
      else match lookup t (e_enums E) with
           | Some vals => match find_member m vals with Some v => Ok (VEnum t v) | None => Err EAttribute end
           | None => match find_class t (e_classes E) with Some _ => Err EAttribute | None => Err EName end
           end
  end.

Definition eval_const (c : pyconst) : pyval :=
  match c with PNone => VNone | PBool b => VBool b | PInt z => VInt z | PFloat s => VFloat s | PStr s => VStr s end.

(* what model_validate sees when handed an evaluated dict: str-Enum members count as their value *)
Fixpoint json_of_pyval (v : pyval) : option json :=
  match v with
  | VNone => Some JNull | VBool b => Some (JBool b) | VInt z => Some (JInt z) | VFloat s => Some (JFloat s)
  | VStr s => Some (JStr s) | VEnum _ x => Some (JStr x)
  | VList l => option_map JArr
      ((fix go (l : list pyval) : option (list json) :=
          match l with [] => Some []
          | x :: r => match json_of_pyval x, go r with Some a, Some b => Some (a :: b) | _, _ => None end end) l)
  | VDict kv => option_map JObj
      ((fix go (l : list (string * pyval)) : option (list (string * json)) :=
          match l with [] => Some []
          | (k, x) :: r => match json_of_pyval x, go r with Some a, Some b => Some ((k, a) :: b) | _, _ => None end end) kv)
  | VModel _ _ | VFieldInfo | VOpaque => None
  end.

(* ---- the lax conversion table (DESIGN §5), JSON-shaped input ---- *)
Definition all_digits (l : chars) : bool := match l with [] => false | _ => forallb is_digit l end.
Definition dec_int (s : string) : bool :=
  match s2l s with
  | c :: r => if Ascii.eqb c "-"%char || Ascii.eqb c "+"%char then all_digits r else all_digits (c :: r)
  | [] => false
  end.
Definition lower (s : string) : string := l2s (map to_lower (s2l s)).
Definition bool_words_true : list string := ["1"; "on"; "t"; "true"; "y"; "yes"].
Definition bool_words_false : list string := ["0"; "off"; "f"; "false"; "n"; "no"].

Fixpoint pyval_of_json (j : json) : pyval :=
  match j with
  | JNull => VNone | JBool b => VBool b | JInt z => VInt z | JFloat s => VFloat s | JStr s => VStr s
  | JArr l => VList (map pyval_of_json l)
  | JObj kv => VDict (map (fun p => (fst p, pyval_of_json (snd p))) kv)
  end.

Definition bool_z (b : bool) : Z := if b then 1%Z else 0%Z.

Definition str_int (s : string) : Z := match z_of_string s with Some z => z | None => 0%Z end.

Definition leaf_validate (E : env) (a : ann) (j : json) : res pyval :=
  match a, j with
  | AStr, JStr s => Ok (VStr s)
  | AInt, JInt z => Ok (VInt z)
  | AInt, JBool b => Ok (VInt (bool_z b))
  | AInt, JStr s => if dec_int s then Ok (VInt (str_int s)) else Err EValidation
  | AFloat, JFloat l => Ok (VFloat l)
  | AFloat, JInt z => Ok (VFloat (z_to_string z ++ ".0"))
  | AFloat, JBool b => Ok (VFloat (if b then "1.0" else "0.0"))
  | AFloat, JStr s => if dec_int s then Ok (VFloat (s ++ ".0")) else Err EValidation
  | ABool, JBool b => Ok (VBool b)
  | ABool, JInt z => if (z =? 0)%Z then Ok (VBool false) else if (z =? 1)%Z then Ok (VBool true) else Err EValidation
  | ABool, JStr s => if mem (lower s) bool_words_true then Ok (VBool true)
                     else if mem (lower s) bool_words_false then Ok (VBool false) else Err EValidation
  | AAny, j => Ok (pyval_of_json j)
  | ACustom _ _, j => Ok (pyval_of_json j)      (* user type: not modelled (K3 only), see notes *)
  | AEnum n, JStr v =>
      match lookup n (e_enums E) with
      | Some vals => if mem v vals then Ok (VEnum n v) else Err EValidation
      | None => Err EName
      end
  | _, _ => Err EValidation
  end.

Definition keep (f : pfield) (r : res pyval) : res (string * (string * pyval)) :=
  res_map (fun x => (p_name f, (wire_of f, x))) r.

Fixpoint validate (n : nat) (E : env) : ann -> json -> res pyval :=
  (fix go (a : ann) (j : json) {struct a} : res pyval :=
    match a with
    | AOpt a' => match j with JNull => Ok VNone | _ => go a' j end
    | AList a' =>
        match j with
        | JArr l => match n with
                    | 0 => Err EFuel
                    | S n' => res_map VList (collect (map (validate n' E a') l))
                    end
        | _ => Err EValidation
        end
    | AClass c =>
        match j with
        | JObj kv =>
            match n with
            | 0 => Err EFuel
            | S n' =>
                match find_class c (e_classes E) with
                | None => Err EName
                | Some cl =>
                    res_map (VModel c)
                      (collect (map (fun f =>
                         match field_input f kv with
                         | Some v => keep f (validate n' E (p_ann f) v)
                         | None =>
                             match rhs_default (p_value f) with
                             | DRequired => Err EValidation
                             | DValue e => keep f (eval n' E e)
                             | DFactory e => keep f (eval n' E e)
                             end
                         end) (effective (c_fields cl))))
                end
            end
        | _ => Err EValidation
        end
    | a => leaf_validate E a j
    end)
with eval (n : nat) (E : env) : pyexpr -> res pyval :=
  fix ev (e : pyexpr) {struct e} : res pyval :=
    match e with
    | PConst c => Ok (eval_const c)
    | PList l => res_map VList (sequence (map ev l))
    | PDict kv => res_map VDict (sequence (map (fun p => res_map (pair (fst p)) (ev (snd p))) kv))
    | PName id => eval_name E id
    | PField _ => Ok VFieldInfo
    | PLambda _ => Ok VOpaque
    | PValidate t d =>
        match ev d with
        | Err x => Err x
        | Ok v =>
            match json_of_pyval v, n with
            | Some j, S n' => validate n' E (AClass t) j
            | Some _, 0 => Err EFuel
            | None, _ => Err EValidation
            end
        end
    end.

(* shape acceptance: validate without building values or calling defaults *)
Definition leaf_accepts (E : env) (a : ann) (j : json) : bool :=
  match leaf_validate E a j with Ok _ => true | Err _ => false end.

Fixpoint accepts (n : nat) (E : env) : ann -> json -> bool :=
  fix go (a : ann) (j : json) {struct a} : bool :=
    match a with
    | AOpt a' => match j with JNull => true | _ => go a' j end
    | AList a' =>
        match j with
        | JArr l => match n with 0 => false | S n' => forallb (accepts n' E a') l end
        | _ => false
        end
    | AClass c =>
        match j with
        | JObj kv =>
            match n with
            | 0 => false
            | S n' =>
                match find_class c (e_classes E) with
                | None => false
                | Some cl =>
                    forallb (fun f => match field_input f kv with
                                      | Some v => accepts n' E (p_ann f) v
                                      | None => has_default f
                                      end) (effective (c_fields cl))
                end
            end
        | _ => false
        end
    | a => leaf_accepts E a j
    end.

(* model_dump(by_alias=True) in JSON mode; None = not serialisable as the declared type *)
Fixpoint dump (v : pyval) : option json :=
  match v with
  | VNone => Some JNull | VBool b => Some (JBool b) | VInt z => Some (JInt z) | VFloat s => Some (JFloat s)
  | VStr s => Some (JStr s) | VEnum _ x => Some (JStr x)
  | VList l => option_map JArr
      ((fix go (l : list pyval) : option (list json) :=
          match l with [] => Some []
          | x :: r => match dump x, go r with Some a, Some b => Some (a :: b) | _, _ => None end end) l)
  | VDict kv => option_map JObj
      ((fix go (l : list (string * pyval)) : option (list (string * json)) :=
          match l with [] => Some []
          | (k, x) :: r => match dump x, go r with Some a, Some b => Some ((k, a) :: b) | _, _ => None end end) kv)
  | VModel _ fs => option_map JObj
      ((fix go (l : list (string * (string * pyval))) : option (list (string * json)) :=
          match l with [] => Some []
          | (_, (w, x)) :: r => match dump x, go r with Some a, Some b => Some ((w, a) :: b) | _, _ => None end end) fs)
  | VFieldInfo | VOpaque => None
  end.

(* the environment the generated package provides *)
Definition enums_of (s : schema) : list (string * list string) :=
  flat_map (fun d => match snd d with DEnum v => [(fst d, v)] | _ => [] end) s.
Definition env_of (s : schema) (cs : customs) (snake : bool) : env :=
  {| e_enums := enums_of s; e_classes := gen_classes s cs snake |}.

Definition pyerr_to_sexp (e : pyerr) : sexp :=
  A (match e with ESyntax => "SyntaxError" | EName => "NameError" | EAttribute => "AttributeError"
     | EValidation => "ValidationError" | EFuel => "fuel" end).
