(* Reference semantics of pydantic-v2 validation for exactly the annotation fragment the result
   generator emits (bundled BaseModel: populate_by_name, extra=ignore; lax mode).
   Tied to the installed pydantic by K2 on every run (every validated / corrupted payload of the
   K3 oracle is also evaluated here and the verdicts compared). *)
From Coq Require Import List String Ascii Bool ZArith.
From AC Require Import Base.Sexp Base.Json Gql.Schema Py.Ann.
Import ListNotations.
Local Open Scope string_scope.
Local Open Scope list_scope.

Definition is_null (j : json) : bool := match j with JNull => true | _ => false end.

Definition is_digit_c (c : ascii) : bool :=
  let n := nat_of_ascii c in Nat.leb 48 n && Nat.leb n 57.

Fixpoint all_digits (s : string) : bool :=
  match s with EmptyString => true | String c r => is_digit_c c && all_digits r end.

Definition int_string (s : string) : bool :=
  match s with
  | EmptyString => false
  | String c r => if (Ascii.eqb c "-" || Ascii.eqb c "+")%bool
                  then negb (String.eqb r "") && all_digits r else all_digits s
  end.

Fixpoint ends_with_dot_zero (s : string) : bool :=
  match s with
  | EmptyString => false
  | String c r => if String.eqb s ".0" then true else ends_with_dot_zero r
  end.

Definition bool_strings : list string :=
  ["0"; "1"; "true"; "false"; "True"; "False"; "TRUE"; "FALSE"; "t"; "f"; "y"; "n"; "yes"; "no"; "on"; "off"].

Definition leaf_accepts (enums : list (string * list string)) (a : ann) (j : json) : bool :=
  match a, j with
  | AAny, _ => true
  | ACustom _ _, _ => negb (is_null j)
  | AStr, JStr _ => true
  | AInt, JInt _ => true
  | AInt, JBool _ => true
  | AInt, JFloat lx => ends_with_dot_zero lx
  | AInt, JStr s => int_string s
  | AFloat, JInt _ => true
  | AFloat, JFloat _ => true
  | AFloat, JBool _ => true
  | AFloat, JStr s => int_string s
  | ABool, JBool _ => true
  | ABool, JInt z => (Z.eqb z 0 || Z.eqb z 1)%bool
  | ABool, JStr s => mem s bool_strings
  | ABool, JFloat lx => (String.eqb lx "0.0" || String.eqb lx "1.0")%bool
  | AEnum n, JStr s => match assoc n enums with Some vs => mem s vs | None => false end
  | ALit vs, JStr s => mem s vs
  | _, _ => false
  end.

Definition lookup_class (cs : list pclass) (n : string) : option pclass :=
  find (fun c => String.eqb (c_name c) n) cs.

(* fields along the MRO: own fields override bases'; bases left to right (depth first).
   The result generator only emits single-level diamonds of fragment classes, for which this
   coincides with C3 linearisation; K2 checks it against real classes. *)
Definition mro_merge (l bl : list pfield) : list pfield :=
  l ++ filter (fun f => negb (existsb (fun g => String.eqb (p_name g) (p_name f)) l)) bl.

Fixpoint mro_fields (fuel : nat) (cs : list pclass) (n : string) : option (list pfield) :=
  match fuel with
  | O => None
  | S fuel' =>
      if String.eqb n "BaseModel" then Some []
      else
        match lookup_class cs n with
        | None => Some []      (* extra base from @mixin: contributes no pydantic field we know of *)
        | Some c =>
            let own := c_fields c in
            fold_left (fun acc b =>
              match acc, mro_fields fuel' cs b with
              | Some l, Some bl =>
                  Some (mro_merge l bl)
              | _, _ => None
              end) (c_bases c) (Some own)
        end
  end.

(* later definitions of the same name in one class body win *)
Fixpoint last_wins (l : list pfield) : list pfield :=
  match l with
  | [] => []
  | f :: r => if existsb (fun g => String.eqb (p_name g) (p_name f)) r then last_wins r else f :: last_wins r
  end.

Definition field_key_of (f : pfield) : string := match p_alias f with Some a => a | None => p_name f end.

Definition typename_literal (fs : list pfield) : option (list string) :=
  match find (fun f => String.eqb (p_name f) "typename__") fs with
  | Some f => match p_ann f with ALit vs => Some vs | _ => None end
  | None => None
  end.

(* wrappers and leaves by structural recursion on the annotation; classes / unions are delegated *)
Fixpoint acc_ann (clsacc : ann -> json -> bool) (enums : list (string * list string)) (a : ann) (j : json)
  : bool :=
  match a with
  | AOpt a' => is_null j || acc_ann clsacc enums a' j
  | AList a' => match j with JArr l => forallb (acc_ann clsacc enums a') l | _ => false end
  | AClass _ | AUnion _ => clsacc a j
  | _ => leaf_accepts enums a j
  end.

Definition class_accepts (rec : ann -> json -> bool) (fields : option (list pfield)) (j : json) : bool :=
  match j, fields with
  | JObj kv, Some fs =>
      forallb (fun f =>
        match jlookup (field_key_of f) kv with
        | Some v => rec (p_ann f) v
        | None =>
            match (match p_alias f with Some _ => jlookup (p_name f) kv | None => None end) with
            | Some v => rec (p_ann f) v
            | None => p_default_none f
            end
        end) (last_wins fs)
  | _, _ => false
  end.

(* discriminated on typename__: the first alternative whose literal contains tn *)
Definition union_pick (mro : string -> option (list pfield)) (alts : list ann) (tn : string) : option ann :=
  find (fun alt =>
          match alt with
          | AClass n =>
              match mro n with
              | Some fs => match typename_literal (last_wins fs) with
                           | Some vs => mem tn vs | None => false end
              | None => false
              end
          | _ => false
          end) alts.

(* class and union positions, given the per-class check [chk] (class_accepts / class_covers), the
   checker [rec] for field values and the field table [mro] *)
Definition cls_step (chk : (ann -> json -> bool) -> option (list pfield) -> json -> bool)
           (rec : ann -> json -> bool) (mro : string -> option (list pfield)) (a : ann) (j : json) : bool :=
  match a with
  | AClass n => chk rec (mro n) j
  | AUnion alts =>
      match j with
      | JObj kv =>
          match jlookup "__typename" kv with
          | Some (JStr tn) =>
              match union_pick mro alts tn with
              | Some (AClass n) => chk rec (mro n) j
              | _ => false
              end
          | _ => false
          end
      | _ => false
      end
  | _ => false
  end.

Fixpoint accepts (fuel : nat) (cs : list pclass) (enums : list (string * list string)) (a : ann) (j : json)
  : bool :=
  match fuel with
  | O => false
  | S fuel' =>
      acc_ann (cls_step class_accepts (accepts fuel' cs enums) (mro_fields fuel' cs)) enums a j
  end.

(* every key of the payload is a declared field of the class that validates it (necessary for the
   validated object to expose the value and for model_dump(by_alias, exclude_unset) to reproduce it) *)
Definition class_covers (rec : ann -> json -> bool) (fields : option (list pfield)) (j : json) : bool :=
  match j, fields with
  | JObj kv, Some fs =>
      forallb (fun p =>
        match find (fun f => String.eqb (field_key_of f) (fst p)) (last_wins fs) with
        | Some f => rec (p_ann f) (snd p)
        | None => false
        end) kv
  | _, _ => false
  end.

Fixpoint cov_ann (clscov : ann -> json -> bool) (a : ann) (j : json) : bool :=
  match a with
  | AOpt a' => is_null j || cov_ann clscov a' j
  | AList a' => match j with JArr l => forallb (cov_ann clscov a') l | _ => false end
  | AClass _ | AUnion _ => clscov a j
  | _ => true
  end.

Fixpoint covers (fuel : nat) (cs : list pclass) (a : ann) (j : json) : bool :=
  match fuel with
  | O => false
  | S fuel' => cov_ann (cls_step class_covers (covers fuel' cs) (mro_fields fuel' cs)) a j
  end.
