(* Call log of BeforeValidator(parse) hooks during pydantic validation of a whole response against the
   generated result classes: a sibling of Py/Pydantic.v [accepts] with the same traversal (fields along the MRO,
   later definitions win, alias then name lookup, discriminated unions), returning the list of (scalar type, raw
   value) the parse functions are called with.  [pocc] enumerates the same occurrences PAYLOAD-driven (every
   key of the response object, matched to its field) - what "each occurrence in the response" means.
   Executable definitions only (proofs in Proofs/ParseLogP.v). *)
From Coq Require Import List String Ascii Bool ZArith.
From AC Require Import Base.Sexp Base.Json Gql.Schema Py.Ann Py.Pydantic.
Import ListNotations.
Local Open Scope string_scope.
Local Open Scope list_scope.

Definition pentry : Type := (string * json)%type.

Fixpoint plog_ann (clslog : ann -> json -> list pentry) (a : ann) (j : json) : list pentry :=
  match a with
  | AOpt a' => if is_null j then [] else plog_ann clslog a' j
  | AList a' => match j with JArr l => flat_map (plog_ann clslog a') l | _ => [] end
  | AClass _ | AUnion _ => clslog a j
  | ACustom ty true => [(ty, j)]
  | _ => []
  end.

(* the value pydantic validates for a field: by alias (or name), then - populate_by_name - by name *)
Definition field_value (f : pfield) (kv : list (string * json)) : option json :=
  match jlookup (field_key_of f) kv with
  | Some v => Some v
  | None => match p_alias f with Some _ => jlookup (p_name f) kv | None => None end
  end.

(* field-driven: what validation does *)
Definition class_plog (rec : ann -> json -> list pentry) (fields : option (list pfield)) (j : json) : list pentry :=
  match j, fields with
  | JObj kv, Some fs =>
      flat_map (fun f => match field_value f kv with Some v => rec (p_ann f) v | None => [] end) (last_wins fs)
  | _, _ => []
  end.

(* payload-driven: the occurrences present in the response *)
Definition class_pocc (rec : ann -> json -> list pentry) (fields : option (list pfield)) (j : json) : list pentry :=
  match j, fields with
  | JObj kv, Some fs =>
      flat_map (fun p => match find (fun f => String.eqb (field_key_of f) (fst p)) (last_wins fs) with
                         | Some f => rec (p_ann f) (snd p)
                         | None => []
                         end) kv
  | _, _ => []
  end.

Definition cls_step_log (chk : (ann -> json -> list pentry) -> option (list pfield) -> json -> list pentry)
           (rec : ann -> json -> list pentry) (mro : string -> option (list pfield)) (a : ann) (j : json)
  : list pentry :=
  match a with
  | AClass n => chk rec (mro n) j
  | AUnion alts =>
      match j with
      | JObj kv =>
          match jlookup "__typename" kv with
          | Some (JStr tn) =>
              match union_pick mro alts tn with
              | Some (AClass n) => chk rec (mro n) j
              | _ => []
              end
          | _ => []
          end
      | _ => []
      end
  | _ => []
  end.

Fixpoint plog (fuel : nat) (cs : list pclass) (a : ann) (j : json) : list pentry :=
  match fuel with
  | O => []
  | S fuel' => plog_ann (cls_step_log class_plog (plog fuel' cs) (mro_fields fuel' cs)) a j
  end.

Fixpoint pocc (fuel : nat) (cs : list pclass) (a : ann) (j : json) : list pentry :=
  match fuel with
  | O => []
  | S fuel' => plog_ann (cls_step_log class_pocc (pocc fuel' cs) (mro_fields fuel' cs)) a j
  end.

(* hereditary uniqueness: in every object of the payload the keys are distinct, the fields of its class have
   distinct keys, no key is reachable through the populate_by_name fallback, and the same below *)
Fixpoint nodup_s (l : list string) : bool :=
  match l with [] => true | x :: r => negb (mem x r) && nodup_s r end.

Definition class_uniq (rec : ann -> json -> bool) (fields : option (list pfield)) (j : json) : bool :=
  match j, fields with
  | JObj kv, Some fs =>
      nodup_s (map fst kv) && nodup_s (map field_key_of (last_wins fs)) &&
      forallb (fun f => match p_alias f with
                        | Some _ => match jlookup (p_name f) kv with Some _ => false | None => true end
                        | None => true end) (last_wins fs) &&
      forallb (fun p => match find (fun f => String.eqb (field_key_of f) (fst p)) (last_wins fs) with
                        | Some f => rec (p_ann f) (snd p)
                        | None => true
                        end) kv
  | _, _ => true
  end.

Fixpoint uniq (fuel : nat) (cs : list pclass) (a : ann) (j : json) : bool :=
  match fuel with
  | O => true
  | S fuel' => cov_ann (cls_step class_uniq (uniq fuel' cs) (mro_fields fuel' cs)) a j
  end.
