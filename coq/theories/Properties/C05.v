(* C05 — Result models are as strict as the schema.  Property theorems only. *)
From Coq Require Import List String Ascii Bool ZArith.
From AC Require Import Base.Strs Base.Sexp Base.Json Gql.Schema Gql.Exec Py.Ann Py.Pydantic
     Model.Names Model.Results Proofs.ResultsP.
Import ListNotations.
Local Open Scope string_scope.
Local Open Scope list_scope.

(* ---- full statement (strictness half): a payload that does not conform is not accepted ---- *)
Definition C05_strict_full : Prop :=
  forall fuel C S frs kind name mixins sels root cls j,
    root_type_name S kind = Ok root ->
    all_classes fuel C S frs (DOp kind name mixins sels) = Ok cls ->
    conf_op fuel S frs root sels j = false ->
    accepts fuel cls (schema_enums S) (AClass (pascal_s name)) j = false.

(* ---- the declared Python type is the image of the GraphQL type: Optional iff nullable, List iff
        list, the named type's annotation at the bottom — every wrapper depth, every schema ---- *)
Theorem C05_annotation_is_image :
  forall C S frs fuel0 fsub cn t nullable r,
    wf_gtype t = true ->
    field_type_ann C S frs fuel0 fsub t nullable cn false = Ok r ->
    exists a, image_of (leaf_ann C S frs fuel0 fsub cn) t = Some a /\
              fst r = (if nullable || is_nonnull t then a else strip_opt a) /\
              (is_nonnull t = false -> is_opt a = true).
Proof. exact field_type_ann_image. Qed.
Print Assumptions C05_annotation_is_image.

(* ---- wrappers are exactly as strict as GraphQL's CompleteValue, for every type and every JSON ---- *)
Theorem C05_wrappers_exact :
  forall clsacc enums leaf,
    (forall n a, leaf n = Some a -> acc_ann clsacc enums a JNull = false) ->
    forall t a j, wf_gtype t = true -> image_of leaf t = Some a ->
      (acc_ann clsacc enums a j = true <-> conf clsacc enums leaf t j).
Proof. exact wrap_accepts. Qed.
Print Assumptions C05_wrappers_exact.

Theorem C05_null_at_nonnull_rejected :
  forall clsacc enums leaf,
    (forall n a, leaf n = Some a -> acc_ann clsacc enums a JNull = false) ->
    forall t a, wf_gtype (TNonNull t) = true -> image_of leaf (TNonNull t) = Some a ->
      acc_ann clsacc enums a JNull = false.
Proof. exact null_at_nonnull_rejected. Qed.
Print Assumptions C05_null_at_nonnull_rejected.

Theorem C05_non_list_at_list_rejected :
  forall clsacc enums leaf,
    (forall n a, leaf n = Some a -> acc_ann clsacc enums a JNull = false) ->
    forall t a j, wf_gtype (TList t) = true -> image_of leaf (TList t) = Some a ->
      j <> JNull -> (forall l, j <> JArr l) -> acc_ann clsacc enums a j = false.
Proof. exact non_list_at_list_rejected. Qed.
Print Assumptions C05_non_list_at_list_rejected.

(* ---- an object whose __typename is not a possible type: every possible type lies in the literal
        of exactly one related class (the discriminated union selects, and selects one) ---- *)
Theorem C05_typename_partition :
  forall S rel a,
    find (fun n => match lookup_type S n with Some d => is_abstract d | None => false end)
         (map r_type rel) = Some a ->
    ~ In a (possible_types S a) ->
    forall rt, In rt (possible_types S a) ->
      (exists tn, In tn (map r_type rel) /\ In rt (typename_values S rel tn)) /\
      (forall t1 t2, In t1 (map r_type rel) -> In t2 (map r_type rel) ->
         In rt (typename_values S rel t1) -> In rt (typename_values S rel t2) -> t1 = t2).
Proof. exact typename_partition. Qed.
Print Assumptions C05_typename_partition.

(* ---- refutations of the full statement on the faithful model ---- *)
Definition S1 : schema :=
  {| s_types := [("Query", DObject [] [("a", TNamed "Int")]); ("Int", DScalar); ("String", DScalar)];
     s_query := Some "Query"; s_mutation := None; s_subscription := None |}.
Definition C0 : cfg := {| cf_snake := true; cf_scalars := [] |}.

(* F29: an explicit __typename at the operation root is typed str *)
Theorem C05_strict_refuted_root_typename : ~ C05_strict_full.
Proof.
  intro H.
  specialize (H 20 C0 S1 [] "query" "Q" []
                [SField None "__typename" false [] None; SField None "a" false [] None] "Query").
  specialize (H _ (JObj [("__typename", JStr "__Bogus__"); ("a", JInt 1)]) eq_refl eq_refl eq_refl).
  vm_compute in H. discriminate.
Qed.
Print Assumptions C05_strict_refuted_root_typename.

(* the leaf-null hypothesis of C05_wrappers_exact is met by every leaf but Any *)
Example C05_leaves_reject_null :
  forall clsacc enums, forallb (fun a => negb (acc_ann clsacc enums a JNull))
    [AStr; AInt; AFloat; ABool; AEnum "E"; ALit ["A"]; ACustom "datetime" true] = true.
Proof. intros. reflexivity. Qed.

Example C05_wrappers_nonvacuous :
  wf_gtype (TNonNull (TList (TNonNull (TList (TNamed "Int"))))) = true /\
  image_of (fun _ => Some AInt) (TNonNull (TList (TNonNull (TList (TNamed "Int")))))
    = Some (AList (AList (AOpt AInt))).
Proof. split; reflexivity. Qed.
