(* C05 — Result models are as strict as the schema.  Property theorems only. *)
From Coq Require Import List String Ascii Bool ZArith.
From AC Require Import Base.Strs Base.Sexp Base.Json Gql.Schema Gql.Exec Py.Ann Py.Pydantic
     Model.Names Model.Results Proofs.ResultsP Proofs.ResultsRunP Proofs.ResultsAbsP Proofs.ResultsObjP Proofs.ResultsMixP Proofs.ResultsMixCovP Proofs.ResultsStrictP Proofs.ResultsMixStrictP.
Import ListNotations.
Local Open Scope string_scope.
Local Open Scope list_scope.

(* ---- full statement (strictness half): a payload that does not conform is not accepted ---- *)
Definition C05_strict_full : Prop :=
  forall fuel C S frs kind name mixins sels root cls j,
    root_type_name S kind = Ok root ->
    all_classes fuel C S frs (DOp kind name mixins sels) = Ok cls ->
    conf_op fuel S frs root sels j = false ->
    accepts fuel cls (schema_enums S) (AClass (pascal_s name)) j = false.

(* ---- proved (object-level strictness, sub-language op_ok _ true + sels_strict): a payload that the
        generated classes ACCEPT and COVER (every key of every object is a declared field: no key that
        extra=ignore would silently drop) is a conformant response of the operation, where "conformant"
        is Exec.v's conf_op with ONE change: the leaf predicate leaf_conf is replaced by
        lax_leaf = leaf_conf || lax_exception (pydantic lax mode: Int accepts true / 1.0 / "12",
        Float accepts true / "12", Boolean accepts 0 / 1 / "yes" / 1.0 ...; String, ID, enums and custom
        scalars: nothing more).  Required keys, null at non-null, list structure, object shape, nested
        objects at any depth and __typename literals are enforced exactly.
        UNION-typed composite fields are included (the discriminated union is as strict as the members'
        classes).  INTERFACE-typed ones are included when every type condition names the interface or a
        possible type (strict_sub) and, unless every possible type has its own inline fragment, __typename is
        selected there only under its own key (una_ok: the base class validates the objects of all possible
        types without a variant, its Literal lists them all, and two differently aliased __typename fields
        would admit two different names; C05_interface_base_variant_satisfiable); there the relaxed
        relation's third parameter (self_ok = true, Exec.abs_candidates) makes the ONE exception explicit:
        the interface's own name is admitted as runtime type, because the Literal of the generated base
        class contains it (finding F8; C05_interface_self_typename_accepted, C05_interface_hypotheses_satisfiable).
        Guards beyond C01's (sels_strict): no __typename directly at the operation root (F29: plain str),
        no @skip/@include on a field of non-null type (its added Optional also admits an explicit null),
        every custom scalar used is configured (otherwise the annotation is Any, which admits null).
        @mixin extra bases as in C01: mx lists the names, none of them a class of the table (mx_ok).
        "ev P": P holds at every sufficiently large fuel of the conformance checker. ---- *)
Theorem C05_strict_partial :
  forall C S frs fuel kind name mixins sels root own pub' cls g gs mx j n,
    root_type_name S kind = Ok root ->
    op_parse fuel C S frs kind name mixins sels = Ok (own, pub', false) ->
    all_classes fuel C S frs (DOp kind name mixins sels) = Ok cls ->
    op_ok g true C S frs mx mixins root sels = true -> sels_strict gs C S frs mx false root sels = true ->
    mx_ok cls mx = true -> no_basemodel own = true ->
    accepts n cls (schema_enums S) (AClass (pascal_s name)) j = true ->
    covers n cls (AClass (pascal_s name)) j = true ->
    exists fc0, forall fc, fc >= fc0 -> conf_op_gen lax_leaf false true fc S frs root sels j = true.
Proof. exact op_strict. Qed.
Print Assumptions C05_strict_partial.

(* the same, read as a rejection: not lax-conformant (at any fuel) and no undeclared key => rejected *)
Theorem C05_strict_partial_rejects :
  forall C S frs fuel kind name mixins sels root own pub' cls g gs mx j n,
    root_type_name S kind = Ok root ->
    op_parse fuel C S frs kind name mixins sels = Ok (own, pub', false) ->
    all_classes fuel C S frs (DOp kind name mixins sels) = Ok cls ->
    op_ok g true C S frs mx mixins root sels = true -> sels_strict gs C S frs mx false root sels = true ->
    mx_ok cls mx = true -> no_basemodel own = true ->
    (forall fc, conf_op_gen lax_leaf false true fc S frs root sels j = false) ->
    covers n cls (AClass (pascal_s name)) j = true ->
    accepts n cls (schema_enums S) (AClass (pascal_s name)) j = false.
Proof. exact op_strict_rejects. Qed.
Print Assumptions C05_strict_partial_rejects.

(* the same with fragment spreads used as MIXIN base classes (guards op_okM _ true + sels_strictM: the
   mixin fragments are on the object type itself and again strict — in particular without __typename,
   which a fragment class types as plain str; table guards as for C01_accepts_partial_mixins) *)
Theorem C05_strict_partial_mixins :
  forall C S frs F kind name mixins sels root own pub' cls g gs mx j n,
    root_type_name S kind = Ok root ->
    op_parse F C S frs kind name mixins sels = Ok (own, pub', false) ->
    all_classes F C S frs (DOp kind name mixins sels) = Ok cls ->
    op_okM g true C S frs mx mixins root sels = true -> sels_strictM gs C S frs false root sels = true ->
    mx_ok cls mx = true ->
    nodupb (map c_name cls) = true -> no_basemodel cls = true -> frag_no_skip F C S frs = true ->
    n >= F + g + 2 ->
    accepts n cls (schema_enums S) (AClass (pascal_s name)) j = true ->
    covers n cls (AClass (pascal_s name)) j = true ->
    exists fc0, forall fc, fc >= fc0 -> conf_op_gen lax_leaf false true fc S frs root sels j = true.
Proof. exact op_strict_mix. Qed.
Print Assumptions C05_strict_partial_mixins.

(* at the level of one generated class, any depth below it *)
Theorem C05_object_strict :
  forall C S frs mx fuel g gs nested pub cn tn sels at_ eb tv out pub' cs kv n,
    parse_type_def fuel C S frs pub cn tn sels at_ eb tv = Ok (out, pub', false) ->
    sels_ok g true C S frs mx at_ tn tn sels = true -> sels_strict gs C S frs mx nested tn sels = true ->
    (at_ = true -> has_typename sels = true) ->
    tv = (if nested then Some [tn] else None) -> table_ok cs out ->
    mx_ok cs mx = true -> harmless cs eb ->
    accepts n cs (schema_enums S) (AClass cn) (JObj kv) = true ->
    covers n cs (AClass cn) (JObj kv) = true ->
    exists fc0, forall fc, fc >= fc0 ->
      conf_obj_gen false (conf_val_gen lax_leaf false true fc S frs) S tn
                   (collect_scopes fc S frs tn [(false, sels)]) kv = true.
Proof. exact obj_strict. Qed.
Print Assumptions C05_object_strict.

(* one generated class whose __typename Literal lists several names tvs (the base class at an interface
   position: r the interface, tvs its own name and the possible types without a variant): the validated
   object is lax-conformant for ONE runtime type of tvs — the one its __typename names.  tvs = [r] is
   C05_object_strict. *)
Theorem C05_object_strict_variants :
  forall C S frs mx fuel gs nested pub cn r sels at_ eb tv tvs out pub' cs kv n,
    parse_type_def fuel C S frs pub cn r sels at_ eb tv = Ok (out, pub', false) ->
    tvs <> [] ->
    (forall rt, In rt tvs -> exists g, sels_ok g true C S frs mx at_ rt r sels = true) ->
    sels_strict gs C S frs mx nested r sels = true ->
    (tvs = [r] \/ (at_ = true /\ exists gu, una_ok gu S frs r sels = true)) ->
    (at_ = true -> has_typename sels = true) ->
    tv = (if nested then Some tvs else None) -> table_ok cs out ->
    mx_ok cs mx = true -> harmless cs eb ->
    accepts n cs (schema_enums S) (AClass cn) (JObj kv) = true ->
    covers n cs (AClass cn) (JObj kv) = true ->
    exists rt, In rt tvs /\ exists fc0, forall fc, fc >= fc0 ->
      conf_obj_gen false (conf_val_gen lax_leaf false true fc S frs) S rt
                   (collect_scopes fc S frs rt [(false, sels)]) kv = true.
Proof. exact obj_strict_gen. Qed.
Print Assumptions C05_object_strict_variants.

(* the lax relation is exactly Exec.v's relation plus the table: it contains every conformant
   response, and on non-null values the generated scalar annotation accepts exactly lax_leaf *)
Theorem C05_lax_contains_conformant :
  forall fc S frs root sels j,
    conf_op fc S frs root sels j = true -> conf_op_gen lax_leaf false true fc S frs root sels j = true.
Proof. exact conf_op_lax. Qed.
Print Assumptions C05_lax_contains_conformant.

Theorem C05_lax_table_exact :
  forall C S clsacc enums n j, j <> JNull ->
    acc_ann clsacc enums (fst (scalar_ann C n false)) j
    = (leaf_conf S n DScalar j || lax_exception n j).
Proof. exact scalar_leaf_exact. Qed.
Print Assumptions C05_lax_table_exact.

(* ---- the declared Python type is the image of the GraphQL type: Optional iff nullable, List iff
        list, the named type's annotation at the bottom — every wrapper depth, every schema ---- *)
Theorem C05_annotation_is_image :
  forall C S frs fuel0 fsub cn t nullable r,
    wf_gtype t = true ->
    field_type_ann C S frs fuel0 fsub t nullable cn false = Ok r ->
    exists a, image_of (leaf_ann C S frs fuel0 fsub cn) t = Some a /\
              fst r = (if nullable || is_nonnull t then a else strip_opt a) /\
              (is_nonnull t = false -> is_opt a = true).
Proof. exact field_type_ann_image. Qed.
Print Assumptions C05_annotation_is_image.

(* ---- wrappers are exactly as strict as GraphQL's CompleteValue, for every type and every JSON ---- *)
Theorem C05_wrappers_exact :
  forall clsacc enums leaf,
    (forall n a, leaf n = Some a -> acc_ann clsacc enums a JNull = false) ->
    forall t a j, wf_gtype t = true -> image_of leaf t = Some a ->
      (acc_ann clsacc enums a j = true <-> conf clsacc enums leaf t j).
Proof. exact wrap_accepts. Qed.
Print Assumptions C05_wrappers_exact.

Theorem C05_null_at_nonnull_rejected :
  forall clsacc enums leaf,
    (forall n a, leaf n = Some a -> acc_ann clsacc enums a JNull = false) ->
    forall t a, wf_gtype (TNonNull t) = true -> image_of leaf (TNonNull t) = Some a ->
      acc_ann clsacc enums a JNull = false.
Proof. exact null_at_nonnull_rejected. Qed.
Print Assumptions C05_null_at_nonnull_rejected.

Theorem C05_non_list_at_list_rejected :
  forall clsacc enums leaf,
    (forall n a, leaf n = Some a -> acc_ann clsacc enums a JNull = false) ->
    forall t a j, wf_gtype (TList t) = true -> image_of leaf (TList t) = Some a ->
      j <> JNull -> (forall l, j <> JArr l) -> acc_ann clsacc enums a j = false.
Proof. exact non_list_at_list_rejected. Qed.
Print Assumptions C05_non_list_at_list_rejected.

(* ---- an object whose __typename is not a possible type: every possible type lies in the literal
        of exactly one related class (the discriminated union selects, and selects one) ---- *)
Theorem C05_typename_partition :
  forall S rel a,
    find (fun n => match lookup_type S n with Some d => is_abstract d | None => false end)
         (map r_type rel) = Some a ->
    ~ In a (possible_types S a) ->
    forall rt, In rt (possible_types S a) ->
      (exists tn, In tn (map r_type rel) /\ In rt (typename_values S rel tn)) /\
      (forall t1 t2, In t1 (map r_type rel) -> In t2 (map r_type rel) ->
         In rt (typename_values S rel t1) -> In rt (typename_values S rel t2) -> t1 = t2).
Proof. exact typename_partition. Qed.
Print Assumptions C05_typename_partition.

(* ---- refutations of the full statement on the faithful model ---- *)
Definition S1 : schema :=
  {| s_types := [("Query", DObject [] [("a", TNamed "Int")]); ("Int", DScalar); ("String", DScalar)];
     s_query := Some "Query"; s_mutation := None; s_subscription := None |}.
Definition C0 : cfg := {| cf_snake := true; cf_scalars := [] |}.

(* F29: an explicit __typename at the operation root is typed str *)
Theorem C05_strict_refuted_root_typename : ~ C05_strict_full.
Proof.
  intro H.
  specialize (H 20 C0 S1 [] "query" "Q" []
                [SField None "__typename" false [] None; SField None "a" false [] None] "Query").
  specialize (H _ (JObj [("__typename", JStr "__Bogus__"); ("a", JInt 1)]) eq_refl eq_refl eq_refl).
  vm_compute in H. discriminate.
Qed.
Print Assumptions C05_strict_refuted_root_typename.

(* the leaf-null hypothesis of C05_wrappers_exact is met by every leaf but Any *)
Example C05_leaves_reject_null :
  forall clsacc enums, forallb (fun a => negb (acc_ann clsacc enums a JNull))
    [AStr; AInt; AFloat; ABool; AEnum "E"; ALit ["A"]; ACustom "datetime" true] = true.
Proof. intros. reflexivity. Qed.

Example C05_wrappers_nonvacuous :
  wf_gtype (TNonNull (TList (TNonNull (TList (TNamed "Int"))))) = true /\
  image_of (fun _ => Some AInt) (TNonNull (TList (TNonNull (TList (TNamed "Int")))))
    = Some (AList (AList (AOpt AInt))).
Proof. split; reflexivity. Qed.

(* ---- non-vacuity of C05_strict_partial: nested, aliased, list-wrapped, conditional nullable fields,
        enum, __typename literal; an accepted payload with a lax leaf ("1" for Int), and rejected
        corruptions (null at non-null, missing required key, foreign __typename, wrong kind) ---- *)
Definition SY : schema :=
  {| s_types := [("Query", DObject [] [("users", TNonNull (TList (TNonNull (TNamed "User"))));
                                       ("found", TNamed "Hit")]);
                 ("Bot", DObject [] [("version", TNamed "Int")]);
                 ("Hit", DUnion ["User"; "Bot"]);
                 ("Named", DInterface [] [("fullName", TNamed "String")]);
                 ("User", DObject [] [("id", TNonNull (TNamed "ID")); ("fullName", TNamed "String");
                                      ("role", TNonNull (TNamed "Role")); ("address", TNamed "Address")]);
                 ("Address", DObject [] [("city", TNonNull (TNamed "String")); ("zip", TNamed "Int")]);
                 ("Role", DEnum ["ADMIN"; "USER"]);
                 ("Int", DScalar); ("String", DScalar); ("ID", DScalar); ("Boolean", DScalar)];
     s_query := Some "Query"; s_mutation := None; s_subscription := None |}.
Definition selsY : list sel :=
  [SField (Some "people") "users" false []
     (Some [SField None "__typename" false [] None; SField None "id" false [] None;
            SInline (Some "User") false
              [SField (Some "name") "fullName" true [] None; SField None "role" false [] None];
            SField (Some "homeAddress") "address" false []
              (Some [SField None "city" false [] None; SField None "zip" true [] None])])].
Definition userY (tn : json) (id : json) (addr : json) : json :=
  JObj [("people", JArr [JObj [("__typename", tn); ("id", id); ("role", JStr "ADMIN"); ("homeAddress", addr)]])].

Example C05_partial_hypotheses_satisfiable :
  exists own pub' cls,
    root_type_name SY "query" = Ok "Query" /\
    op_parse 10 C0 SY [] "query" "GetPeople" [] selsY = Ok (own, pub', false) /\
    all_classes 10 C0 SY [] (DOp "query" "GetPeople" [] selsY) = Ok cls /\
    op_ok 10 true C0 SY [] [] [] "Query" selsY = true /\ sels_strict 10 C0 SY [] [] false "Query" selsY = true /\
    no_basemodel own = true /\
    (* accepted and covered, with a lax Int leaf *)
    (let j := userY (JStr "User") (JStr "1") (JObj [("city", JStr "X"); ("zip", JStr "12")]) in
     accepts 11 cls (schema_enums SY) (AClass (pascal_s "GetPeople")) j = true /\
     covers 11 cls (AClass (pascal_s "GetPeople")) j = true /\
     conf_op 10 SY [] "Query" selsY j = false /\
     conf_op_gen lax_leaf false true 10 SY [] "Query" selsY j = true) /\
    (* corruptions are rejected *)
    accepts 11 cls (schema_enums SY) (AClass (pascal_s "GetPeople"))
            (userY (JStr "User") JNull (JObj [("city", JStr "X")])) = false /\
    accepts 11 cls (schema_enums SY) (AClass (pascal_s "GetPeople"))
            (userY (JStr "User") (JStr "1") (JObj [("zip", JInt 1)])) = false /\
    accepts 11 cls (schema_enums SY) (AClass (pascal_s "GetPeople"))
            (userY (JStr "Droid") (JStr "1") JNull) = false /\
    accepts 11 cls (schema_enums SY) (AClass (pascal_s "GetPeople"))
            (userY (JStr "User") (JStr "1") (JArr [])) = false.
Proof.
  do 3 eexists.
  split; [reflexivity|].
  split; [vm_compute; reflexivity|].      (* instantiates own, pub' *)
  split; [vm_compute; reflexivity|].      (* instantiates cls *)
  vm_compute. repeat split.
Qed.

(* ---- non-vacuity of C05_strict_partial_mixins: a mixin that spreads another mixin with a nested object;
        a corruption inside the inherited part is rejected ---- *)
Definition frsN : list fragdef :=
  [{| fr_name := "UserBits"; fr_on := "User"; fr_mixins := [];
      fr_sel := [SField None "fullName" true [] None; SSpread "UserMore" false] |};
   {| fr_name := "UserMore"; fr_on := "User"; fr_mixins := [];
      fr_sel := [SField (Some "homeAddress") "address" false [] (Some [SField None "city" false [] None])] |}].
Definition selsN : list sel :=
  [SField None "users" false []
     (Some [SField None "__typename" false [] None; SField None "id" false [] None;
            SSpread "UserBits" false; SField None "role" false [] None])].
Definition userN (addr : json) : json :=
  JObj [("users", JArr [JObj [("__typename", JStr "User"); ("id", JStr "1"); ("fullName", JStr "A");
                              ("homeAddress", addr); ("role", JStr "ADMIN")]])].

Example C05_mixins_hypotheses_satisfiable :
  exists own pub' cls,
    root_type_name SY "query" = Ok "Query" /\
    op_parse 10 C0 SY frsN "query" "GetUsers" [] selsN = Ok (own, pub', false) /\
    all_classes 10 C0 SY frsN (DOp "query" "GetUsers" [] selsN) = Ok cls /\
    op_okM 10 true C0 SY frsN [] [] "Query" selsN = true /\ sels_strictM 10 C0 SY frsN false "Query" selsN = true /\
    nodupb (map c_name cls) = true /\ no_basemodel cls = true /\ frag_no_skip 10 C0 SY frsN = true /\
    accepts 22 cls (schema_enums SY) (AClass (pascal_s "GetUsers")) (userN (JObj [("city", JStr "X")])) = true /\
    covers 22 cls (AClass (pascal_s "GetUsers")) (userN (JObj [("city", JStr "X")])) = true /\
    conf_op 10 SY frsN "Query" selsN (userN (JObj [("city", JStr "X")])) = true /\
    accepts 22 cls (schema_enums SY) (AClass (pascal_s "GetUsers")) (userN (JObj [("city", JNull)])) = false /\
    accepts 22 cls (schema_enums SY) (AClass (pascal_s "GetUsers")) (userN (JObj [])) = false.
Proof.
  do 3 eexists.
  split; [reflexivity|].
  split; [vm_compute; reflexivity|].
  split; [vm_compute; reflexivity|].
  vm_compute. repeat split.
Qed.

(* ---- a union position: strict; an interface position: the interface's own name is an accepted
        __typename although no conformant response carries it ---- *)
Definition selsU : list sel :=
  [SField None "found" false []
     (Some [SField None "__typename" false [] None;
            SInline (Some "Bot") false [SField (Some "v") "version" false [] None];
            SInline (Some "User") false [SField None "id" false [] None]])].

Example C05_union_hypotheses_satisfiable :
  exists own pub' cls,
    root_type_name SY "query" = Ok "Query" /\
    op_parse 10 C0 SY [] "query" "Find" [] selsU = Ok (own, pub', false) /\
    all_classes 10 C0 SY [] (DOp "query" "Find" [] selsU) = Ok cls /\
    op_ok 10 true C0 SY [] [] [] "Query" selsU = true /\ sels_strict 10 C0 SY [] [] false "Query" selsU = true /\
    no_basemodel own = true /\
    accepts 12 cls (schema_enums SY) (AClass "Find")
            (JObj [("found", JObj [("__typename", JStr "Bot"); ("v", JInt 3)])]) = true /\
    covers 12 cls (AClass "Find") (JObj [("found", JObj [("__typename", JStr "Bot"); ("v", JInt 3)])]) = true /\
    accepts 12 cls (schema_enums SY) (AClass "Find")
            (JObj [("found", JObj [("__typename", JStr "Hit"); ("v", JInt 3)])]) = false /\
    accepts 12 cls (schema_enums SY) (AClass "Find")
            (JObj [("found", JObj [("__typename", JStr "User"); ("v", JInt 3)])]) = false.
Proof.
  do 3 eexists.
  split; [reflexivity|].
  split; [vm_compute; reflexivity|].
  split; [vm_compute; reflexivity|].
  vm_compute. repeat split.
Qed.

Definition SI : schema :=
  {| s_types := [("Query", DObject [] [("named", TNamed "Named")]);
                 ("Named", DInterface [] [("name", TNamed "String")]);
                 ("A", DObject ["Named"] [("name", TNamed "String")]);
                 ("Int", DScalar); ("String", DScalar)];
     s_query := Some "Query"; s_mutation := None; s_subscription := None |}.
Definition selsI : list sel :=
  [SField None "named" false [] (Some [SField None "__typename" false [] None; SField None "name" false [] None])].
Example C05_interface_self_typename_accepted :
  exists cls,
    all_classes 20 C0 SI [] (DOp "query" "Q" [] selsI) = Ok cls /\
    let j := JObj [("named", JObj [("__typename", JStr "Named"); ("name", JStr "n")])] in
    conf_op 20 SI [] "Query" selsI j = false /\
    conf_op_gen lax_leaf false false 20 SI [] "Query" selsI j = false /\
    conf_op_gen lax_leaf false true 20 SI [] "Query" selsI j = true /\
    accepts 20 cls (schema_enums SI) (AClass "Q") j = true /\ covers 20 cls (AClass "Q") j = true.
Proof. eexists. split; [vm_compute; reflexivity|]. vm_compute. repeat split. Qed.

(* ---- an interface position inside the strictness theorem: every possible type has a variant; the
        interface's own name is the one accepted non-conformant __typename, and the relaxed relation
        (self_ok = true) says so ---- *)
Definition SI2 : schema :=
  {| s_types := [("Query", DObject [] [("named", TNamed "Named")]);
                 ("Named", DInterface [] [("name", TNamed "String")]);
                 ("A", DObject ["Named"] [("name", TNamed "String"); ("x", TNamed "Int")]);
                 ("Int", DScalar); ("String", DScalar)];
     s_query := Some "Query"; s_mutation := None; s_subscription := None |}.
Definition selsI2 : list sel :=
  [SField None "named" false []
     (Some [SField None "__typename" false [] None; SField None "name" false [] None;
            SInline (Some "A") false [SField None "x" false [] None]])].
Example C05_interface_hypotheses_satisfiable :
  exists own pub' cls,
    root_type_name SI2 "query" = Ok "Query" /\
    op_parse 10 C0 SI2 [] "query" "Q" [] selsI2 = Ok (own, pub', false) /\
    all_classes 10 C0 SI2 [] (DOp "query" "Q" [] selsI2) = Ok cls /\
    op_ok 10 true C0 SI2 [] [] [] "Query" selsI2 = true /\ sels_strict 10 C0 SI2 [] [] false "Query" selsI2 = true /\
    no_basemodel own = true /\
    (let j := JObj [("named", JObj [("__typename", JStr "A"); ("name", JStr "n"); ("x", JInt 1)])] in
     accepts 12 cls (schema_enums SI2) (AClass "Q") j = true /\ covers 12 cls (AClass "Q") j = true /\
     conf_op 10 SI2 [] "Query" selsI2 j = true) /\
    (let j := JObj [("named", JObj [("__typename", JStr "Named"); ("name", JStr "n")])] in
     accepts 12 cls (schema_enums SI2) (AClass "Q") j = true /\ covers 12 cls (AClass "Q") j = true /\
     conf_op 10 SI2 [] "Query" selsI2 j = false /\
     conf_op_gen lax_leaf false true 10 SI2 [] "Query" selsI2 j = true) /\
    accepts 12 cls (schema_enums SI2) (AClass "Q")
            (JObj [("named", JObj [("__typename", JStr "B"); ("name", JStr "n")])]) = false /\
    accepts 12 cls (schema_enums SI2) (AClass "Q")
            (JObj [("named", JObj [("__typename", JStr "A"); ("name", JStr "n"); ("x", JStr "no")])]) = false.
Proof.
  do 3 eexists.
  split; [reflexivity|].
  split; [vm_compute; reflexivity|].
  split; [vm_compute; reflexivity|].
  vm_compute. repeat split.
Qed.

(* ---- non-vacuity with @mixin (operation, field with sub-selection, mixin fragment): extra bases after
        BaseModel / the fragment class, strictness unaffected ---- *)
Definition frsNx : list fragdef :=
  [{| fr_name := "UserBits"; fr_on := "User"; fr_mixins := ["FragMixin"];
      fr_sel := [SField None "fullName" true [] None] |}].
Definition selsNx : list sel :=
  [SField None "users" false ["RowMixin"]
     (Some [SField None "id" false [] None; SSpread "UserBits" false;
            SField (Some "homeAddress") "address" false ["AddrMixin"] (Some [SField None "city" false [] None])])].
Definition userNx (addr : json) : json :=
  JObj [("users", JArr [JObj [("id", JStr "1"); ("fullName", JStr "A"); ("homeAddress", addr)]])].
Definition mxNx : list string := ["OpMixin"; "RowMixin"; "AddrMixin"; "FragMixin"].

Example C05_at_mixin_hypotheses_satisfiable :
  exists own pub' cls,
    root_type_name SY "query" = Ok "Query" /\
    op_parse 10 C0 SY frsNx "query" "GetUsers" ["OpMixin"] selsNx = Ok (own, pub', false) /\
    all_classes 10 C0 SY frsNx (DOp "query" "GetUsers" ["OpMixin"] selsNx) = Ok cls /\
    op_okM 10 true C0 SY frsNx mxNx ["OpMixin"] "Query" selsNx = true /\
    sels_strictM 10 C0 SY frsNx false "Query" selsNx = true /\ mx_ok cls mxNx = true /\
    nodupb (map c_name cls) = true /\ no_basemodel cls = true /\ frag_no_skip 10 C0 SY frsNx = true /\
    map c_bases cls = [["BaseModel"; "OpMixin"]; ["UserBits"; "RowMixin"]; ["BaseModel"; "AddrMixin"];
                       ["BaseModel"; "FragMixin"]] /\
    accepts 22 cls (schema_enums SY) (AClass (pascal_s "GetUsers")) (userNx (JObj [("city", JStr "X")])) = true /\
    covers 22 cls (AClass (pascal_s "GetUsers")) (userNx (JObj [("city", JStr "X")])) = true /\
    conf_op 10 SY frsNx "Query" selsNx (userNx (JObj [("city", JStr "X")])) = true /\
    accepts 22 cls (schema_enums SY) (AClass (pascal_s "GetUsers")) (userNx (JObj [("city", JNull)])) = false /\
    accepts 22 cls (schema_enums SY) (AClass (pascal_s "GetUsers")) (userNx (JObj [])) = false.
Proof.
  do 3 eexists.
  split; [reflexivity|].
  split; [vm_compute; reflexivity|].
  split; [vm_compute; reflexivity|].
  vm_compute. repeat split.
Qed.

(* ---- an interface position where possible types have NO fragment of their own (B, C: validated by the
        base class, whose Literal is ["B"; "C"; "Named"]) next to one that has (A), and an interface
        position without any fragment: inside C05_strict_partial; foreign names, wrong leaves, A's field on
        a B object (undeclared key: not covered) are rejected ---- *)
Definition SI3 : schema :=
  {| s_types := [("Query", DObject [] [("named", TNamed "Named"); ("plain", TNamed "Named")]);
                 ("Named", DInterface [] [("name", TNamed "String")]);
                 ("A", DObject ["Named"] [("name", TNamed "String"); ("x", TNamed "Int")]);
                 ("B", DObject ["Named"] [("name", TNamed "String")]);
                 ("C", DObject ["Named"] [("name", TNamed "String"); ("y", TNamed "Int")]);
                 ("Int", DScalar); ("String", DScalar)];
     s_query := Some "Query"; s_mutation := None; s_subscription := None |}.
Definition selsI3 : list sel :=
  [SField None "named" false []
     (Some [SField None "__typename" false [] None; SField None "name" false [] None;
            SInline (Some "A") false [SField None "x" false [] None]]);
   SField None "plain" false []
     (Some [SField None "__typename" false [] None; SField None "name" false [] None])].
Definition jI3 (tn1 : string) (extra : list (string * json)) (tn2 : string) : json :=
  JObj [("named", JObj ([("__typename", JStr tn1); ("name", JStr "n")] ++ extra));
        ("plain", JObj [("__typename", JStr tn2); ("name", JNull)])].
Example C05_interface_base_variant_satisfiable :
  exists own pub' cls,
    root_type_name SI3 "query" = Ok "Query" /\
    op_parse 10 C0 SI3 [] "query" "Q" [] selsI3 = Ok (own, pub', false) /\
    all_classes 10 C0 SI3 [] (DOp "query" "Q" [] selsI3) = Ok cls /\
    op_ok 10 true C0 SI3 [] [] [] "Query" selsI3 = true /\ sels_strict 10 C0 SI3 [] [] false "Query" selsI3 = true /\
    no_basemodel own = true /\
    map c_name cls = ["Q"; "QNamedNamed"; "QNamedA"; "QPlain"] /\
    (let j := jI3 "B" [] "C" in
     accepts 12 cls (schema_enums SI3) (AClass "Q") j = true /\ covers 12 cls (AClass "Q") j = true /\
     conf_op 10 SI3 [] "Query" selsI3 j = true) /\
    (let j := jI3 "A" [("x", JInt 1)] "A" in
     accepts 12 cls (schema_enums SI3) (AClass "Q") j = true /\ covers 12 cls (AClass "Q") j = true /\
     conf_op 10 SI3 [] "Query" selsI3 j = true) /\
    accepts 12 cls (schema_enums SI3) (AClass "Q") (jI3 "D" [] "C") = false /\
    accepts 12 cls (schema_enums SI3) (AClass "Q") (jI3 "B" [] "Query") = false /\
    accepts 12 cls (schema_enums SI3) (AClass "Q") (jI3 "A" [("x", JStr "no")] "C") = false /\
    covers 12 cls (AClass "Q") (jI3 "B" [("x", JInt 1)] "C") = false.
Proof.
  do 3 eexists.
  split; [reflexivity|].
  split; [vm_compute; reflexivity|].
  split; [vm_compute; reflexivity|].
  vm_compute. repeat split.
Qed.
