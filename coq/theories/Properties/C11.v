From Coq Require Import List String.
From AC Require Import Model.Client.
Theorem C11_placeholder : forall s c, fst (execute s c) = s.
Proof. reflexivity. Qed.
Print Assumptions C11_placeholder.
