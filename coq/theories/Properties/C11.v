(* C11 — Requests are well-formed, uploads follow the multipart spec, clients agree.
   Property theorems only; proofs live in Proofs/ClientP.v.  The four clients are four
   implementations of the one model Model/Client.v (tied by the harness). *)
From Coq Require Import List String Ascii ZArith Bool Permutation.
From AC Require Import Base.Json Model.Client Proofs.ClientP.
Import ListNotations.
Local Open Scope string_scope.
Local Open Scope list_scope.

(* ---- separate_files: the stateful traversal is exactly "null every Upload" plus a fold of the
   Upload branch over the uploads in traversal order — for every tree, path prefix and state ---- *)
Theorem C11_separate_is_nulling_plus_record : forall t p st,
  separate p t st = (null_uploads t, fold_left record (uploads_at p t) st).
Proof. exact separate_spec. Qed.
Print Assumptions C11_separate_is_nulling_plus_record.

(* each distinct Upload once (NoDup, same set as the uploads of the tree), numbered in lock-step
   with the map, and entry i of the map lists every path of the i-th file, in traversal order *)
Theorem C11_distinct_once : forall t p,
  exists files fmap, separate p t ([], []) = (null_uploads t, (files, fmap)) /\
    NoDup files /\ (forall id, In id files <-> In id (map snd (uploads_at p t))) /\
    fmap = expected_map (uploads_at p t) files 0.
Proof. exact separate_characterised. Qed.
Print Assumptions C11_distinct_once.

Theorem C11_map_entries : forall ups files i ps,
  In (i, ps) (expected_map ups files 0) <->
  exists id, nth_error files i = Some id /\ ps = paths_of id ups.
Proof.
  intros. rewrite expected_map_entries. split.
  - intros [j [id [E [N P]]]]. simpl in E. subst j. eauto.
  - intros [id [N P]]. exists i, id. auto.
Qed.
Print Assumptions C11_map_entries.

Theorem C11_paths_of_file : forall p id ups, In p (paths_of id ups) <-> In (p, id) ups.
Proof. exact in_paths_of. Qed.
Print Assumptions C11_paths_of_file.

(* the map lists exactly the upload positions (dict keys unique, as in Python) *)
Theorem C11_map_lists_exactly_upload_positions : forall t, wf_keys t = true -> forall p id,
  In (p, id) (uploads_at [] t) <-> get_at p t = Some (VUpload id).
Proof. exact map_lists_exactly. Qed.
Print Assumptions C11_map_lists_exactly_upload_positions.

(* every file position is null in operations, and nothing else changed: at every path the nulled
   tree holds the original subtree with its Uploads replaced by None *)
Theorem C11_nulled_exact : forall p t,
  get_at p (null_uploads t) = option_map null_uploads (get_at p t).
Proof. exact nulled_exact. Qed.
Print Assumptions C11_nulled_exact.

Theorem C11_upload_positions_null : forall p t id, get_at p t = Some (VUpload id) ->
  get_at p (null_uploads t) = Some (VLeaf JNull).
Proof. exact upload_position_nulled. Qed.
Print Assumptions C11_upload_positions_null.

Theorem C11_no_upload_left : forall t p, uploads_at p (null_uploads t) = [].
Proof. exact no_upload_left. Qed.
Print Assumptions C11_no_upload_left.

(* substituting each file back at the paths the map lists reproduces the converted tree
   (guard: dict keys unique at every level — true of every Python dict and pydantic dump) *)
Theorem C11_separate_fill_roundtrip : forall t, wf_keys t = true -> forall nulled st,
  separate [] t ([], []) = (nulled, st) -> fill st [] nulled = t.
Proof. exact separate_fill_roundtrip. Qed.
Print Assumptions C11_separate_fill_roundtrip.

(* multipart iff some Upload is reachable: files (and the map) are empty exactly then *)
Theorem C11_multipart_iff_upload : forall t p files fmap,
  separate p t ([], []) = (null_uploads t, (files, fmap)) ->
  (files = [] <-> uploads_at p t = []) /\ (fmap = [] <-> files = []).
Proof. exact files_empty_iff. Qed.
Print Assumptions C11_multipart_iff_upload.

(* ---- the multipart map as a bijection: the file parts (name, Upload) pair every distinct Upload object
   with exactly one part and every part name with exactly one Upload (decimal names are injective:
   nat_to_string_inj), parts carry only Uploads of the tree, and the part names are the keys of the map, in
   the same order — so map key i <-> part i <-> i-th distinct Upload <-> all its paths (C11_map_entries) ---- *)
Theorem C11_parts_bijection : forall ups files, NoDup files ->
  (forall id, In id files -> exists name, In (name, id) (files_parts files) /\
      forall name', In (name', id) (files_parts files) -> name' = name) /\
  (forall name id id', In (name, id) (files_parts files) -> In (name, id') (files_parts files) -> id = id') /\
  (forall name id, In (name, id) (files_parts files) -> In id files) /\
  map fst (files_parts files) = map (fun e => nat_to_string (fst e)) (expected_map ups files 0).
Proof. exact parts_bijection. Qed.
Print Assumptions C11_parts_bijection.

(* ---- type-directed dumping of generated input models.  pydantic serialises a field by the serializer of
   its DECLARED type (dumpt); only Any fields go by the runtime type (dumpv, on which every theorem above is
   stated).  For every declared type (Upload, Optional, List, nested inputs, unrolled to any depth) and every
   value the two coincide as long as the Upload class is serialised as itself — so no Upload below an
   annotated field is lost and all theorems above apply to typed input models.  The dependency is exact: a
   serializer that does not return the Upload (seeded change C11-7: `lambda _upload: None`) loses it. ---- *)
Theorem C11_typed_dump_agrees : forall ser, (forall id, ser id = VUpload id) ->
  forall a v, dumpt ser a v = dumpv v.
Proof. exact dumpt_agrees_gen. Qed.
Print Assumptions C11_typed_dump_agrees.

Theorem C11_typed_dump_keeps_uploads : forall a v p,
  map snd (uploads_at p (dumpt ser_upload a v)) = deep_ids v.
Proof. exact dumpt_keeps_uploads. Qed.
Print Assumptions C11_typed_dump_keeps_uploads.

Definition doc_ann (parent : fann) : fann :=
  FModel [("file", FUpload); ("files", FOpt (FList FUpload)); ("backup", FOpt FUpload); ("title", FOpt FLeaf);
          ("parent", FOpt parent); ("children", FOpt (FList parent))].
Definition doc_val (file : nat) (parent : vt) : vt :=
  VModel [(mk_mfield "file" None true, VUpload file);
          (mk_mfield "files" None true, VList [VUpload 7; VUpload file]);
          (mk_mfield "backup" (Some "backupFile") true, VLeaf JNull);
          (mk_mfield "title" None false, VLeaf JNull);
          (mk_mfield "parent" None true, parent);
          (mk_mfield "children" None false, VLeaf JNull)].
Example C11_typed_dump_example :
  dumpt ser_upload (doc_ann (doc_ann FAny)) (doc_val 1 (doc_val 2 (VLeaf JNull))) =
  VDict [("file", VUpload 1); ("files", VList [VUpload 7; VUpload 1]); ("backupFile", VLeaf JNull);
         ("parent", VDict [("file", VUpload 2); ("files", VList [VUpload 7; VUpload 2]);
                           ("backupFile", VLeaf JNull); ("parent", VLeaf JNull)])] /\
  (* the seeded serializer: every annotated Upload becomes None, nothing is left to extract *)
  uploads_at [] (dumpt (fun _ => VLeaf JNull) (doc_ann (doc_ann FAny)) (doc_val 1 (doc_val 2 (VLeaf JNull)))) = [] /\
  deep_ids (doc_val 1 (doc_val 2 (VLeaf JNull))) = [1; 7; 1; 2; 7; 2].
Proof. vm_compute. repeat split. Qed.

(* ---- headers (merge of /repo 7378d1f; finding F20 fixed, guard deleted) ---- *)
(* the caller's value wins for every header he supplies, whatever its letter case: on the wire
   (names case-insensitive) that name carries exactly his value.  Hypotheses: the caller's dict has
   unique keys (any Python dict) and does not itself name one header twice in different cases *)
Theorem C11_caller_wins_any_case : forall u k v,
  keys_unique (map fst u) = true -> names_distinct_ci u = true ->
  In (k, v) u -> wire_values k (merge_headers u) = [v].
Proof. exact caller_wins_any_case. Qed.
Print Assumptions C11_caller_wins_any_case.

(* exactly one Content-Type on the wire: the caller's if he supplied one in any case, else the default *)
Definition C11_content_type_full : Prop := forall u,
  keys_unique (map fst u) = true -> names_distinct_ci u = true ->
  wire_values "content-type" (merge_headers u) =
  [match caller_content_type u with Some v => v | None => "application/json" end].
Theorem C11_content_type : C11_content_type_full.
Proof. exact content_type_on_wire. Qed.
Print Assumptions C11_content_type.

Theorem C11_headers_default_present : forall u, has_ct u = false -> keys_unique (map fst u) = true ->
  merge_headers u = ("Content-Type", "application/json") :: u.
Proof. intros u H U. unfold merge_headers. rewrite H. apply no_ct_shape; assumption. Qed.
Print Assumptions C11_headers_default_present.

Example C11_headers_examples :
  merge_headers [("content-type", "text/plain"); ("X-A", "1")] = [("content-type", "text/plain"); ("X-A", "1")] /\
  wire_values "Content-Type" (merge_headers [("CONTENT-TYPE", "text/plain")]) = ["text/plain"] /\
  merge_headers [("X-A", "1")] = [("Content-Type", "application/json"); ("X-A", "1")] /\
  names_distinct_ci [("content-type", "a"); ("X-A", "1")] = true.
Proof. vm_compute. repeat split. Qed.

(* ---- Upload anywhere in the variables => multipart (after /repo dd85cf5; finding
   C11-model-under-dict fixed, refutation removed).  For every call in which json.dumps meets no UNSET
   (vars_reach_unset = false: UNSET only as a top-level value or in an unset model field — the exact
   restriction, see C11_nothing_sent_iff_unset_met; it was the wider vars_ok before):
   * conversion loses no Upload: the uploads separate_files reaches in the converted tree ct are the
     Upload objects anywhere in the caller's variables (lists, dicts, set fields of models), in order;
   * a request is always built (never RError); it is JSON iff there is no Upload at all, otherwise
     multipart whose operations field is the encoding of null_uploads ct (every file position None:
     C11_nulled_exact / C11_upload_positions_null), whose map is expected_map (entry i = every path of
     file i: C11_map_entries, C11_map_lists_exactly_upload_positions) and whose file parts are the
     distinct Uploads, each once (NoDup, same set). ---- *)
Definition C11_upload_anywhere_full : Prop := forall url q o vars h t, vars_reach_unset vars = false ->
  let c := mk_call q o (Some vars) h t in
  let ct := VDict (convert_dict vars) in
  map snd (uploads_at [] ct) = all_upload_ids vars /\
  exists files fmap vj,
    separate [] ct ([], []) = (null_uploads ct, (files, fmap)) /\
    NoDup files /\ (forall id, In id files <-> In id (all_upload_ids vars)) /\
    fmap = expected_map (uploads_at [] ct) files 0 /\
    to_json (null_uploads ct) = Some vj /\
    (all_upload_ids vars = [] ->
       build_request url c = RJson url (merge_headers (match h with Some x => x | None => [] end)) t (body_json q o vj)) /\
    (all_upload_ids vars <> [] ->
       build_request url c = RMultipart url h t (body_json q o vj) (fmap_json fmap) (files_parts files)).
Theorem C11_upload_anywhere : C11_upload_anywhere_full.
Proof. exact upload_anywhere_exact. Qed.
Print Assumptions C11_upload_anywhere.

(* regression witness of the fixed finding: a model holding an Upload below a plain dict *)
Example C11_model_under_dict_regression :
  let vars := [("w", VDict [("m", VModel [(mk_mfield "file" None true, VUpload 0);
                                           (mk_mfield "name" None false, VLeaf JNull)])])] in
  vars_ok vars = true /\ all_upload_ids vars = [0] /\
  build_request "u" (mk_call "q" None (Some vars) None None) =
  RMultipart "u" None None
    (JObj [("query", JStr "q"); ("operationName", JNull);
           ("variables", JObj [("w", JObj [("m", JObj [("file", JNull)])])])])
    (JObj [("0", JArr [JStr "variables.w.m.file"])]) [("0", 0)].
Proof. vm_compute. repeat split. Qed.

(* ---- exactly when nothing is sent: the request is an error (PydanticSerializationError escapes, no
   POST) if and only if an UNSET is met below the top level through lists, dicts and SET model fields.
   So the guard of C11_upload_anywhere is exact, and "UNSET never sent" holds with no guard at all. ---- *)
Theorem C11_nothing_sent_iff_unset_met : forall url q o vars h t,
  build_request url (mk_call q o (Some vars) h t) = RError <-> vars_reach_unset vars = true.
Proof. exact error_iff_reach_unset. Qed.
Print Assumptions C11_nothing_sent_iff_unset_met.

Theorem C11_vars_ok_is_narrower : forall vars, vars_ok vars = true -> vars_reach_unset vars = false.
Proof. exact vars_ok_no_reach. Qed.
Print Assumptions C11_vars_ok_is_narrower.

Example C11_unset_in_unset_field_is_sent :
  let vars := [("a", VModel [(mk_mfield "x" None false, VUnset); (mk_mfield "y" None true, VLeaf (JInt 1))])] in
  vars_ok vars = false /\ vars_reach_unset vars = false /\
  build_request "u" (mk_call "q" None (Some vars) None None) =
  RJson "u" [("Content-Type", "application/json")] None
    (JObj [("query", JStr "q"); ("operationName", JNull); ("variables", JObj [("a", JObj [("y", JInt 1)])])]).
Proof. vm_compute. repeat split. Qed.

(* ---- the OpenTelemetry path: _execute_with_telemetry is a second copy of the dispatch (it processes
   the variables and picks the sender itself).  Modelled separately (execute_with_telemetry) and proved
   to send exactly the request of the plain path, for every call; the spans carry the same
   query / operationName-or-"" / variables / map as the request. ---- *)
Theorem C11_telemetry_same_request : forall root url c,
  snd (execute_with_telemetry root url c) = build_request url c.
Proof. exact telemetry_same_request. Qed.
Print Assumptions C11_telemetry_same_request.

Theorem C11_telemetry_spans : forall root url c,
  exists child, fst (execute_with_telemetry root url c) = [mk_span root [component_attr]; child] /\
  match build_request url c with
  | RError => sp_attrs child = [component_attr]
  | RJson _ _ _ b =>
      sp_name child = "json request" /\
      exists vj, b = body_json (c_query c) (c_opname c) vj /\
        sp_attrs child = [component_attr; ("query", JStr (c_query c));
                          ("operationName", opname_attr (c_opname c)); ("variables", vj)]
  | RMultipart _ _ _ ops fm _ =>
      sp_name child = "multipart request" /\
      exists vj, ops = body_json (c_query c) (c_opname c) vj /\
        sp_attrs child = [component_attr; ("query", JStr (c_query c));
                          ("operationName", opname_attr (c_opname c)); ("variables", vj); ("map", fm)]
  end.
Proof. exact telemetry_spans. Qed.
Print Assumptions C11_telemetry_spans.

(* ---- the body: exactly query, operationName, variables; UNSET never sent ----
   For every call whose request is sent (JSON body or the multipart "operations" field): the body is
   the object with exactly those three keys in that order, carrying the caller's query and operation
   name; "variables" is an object whose keys are exactly the caller's top-level keys that are not UNSET,
   in order; and it is the JSON encoding (to_json) of a tree containing no UNSET anywhere. *)
Theorem C11_body_exact_unset_never_sent : forall url c b, request_body (build_request url c) = Some b ->
  exists vj, b = JObj [("query", JStr (c_query c)); ("operationName", opname_json (c_opname c));
                       ("variables", JObj vj)] /\
    map fst vj = top_level_keys (c_vars c) /\
    to_json (VDict (fst (process_variables (c_vars c)))) = Some (JObj vj) /\
    has_unset (VDict (fst (process_variables (c_vars c)))) = false.
Proof. exact body_exact. Qed.
Print Assumptions C11_body_exact_unset_never_sent.

(* the encoder itself: whatever json.dumps(default=to_jsonable_python) encodes has no UNSET in it *)
Theorem C11_encoder_rejects_unset : forall t j, to_json t = Some j -> has_unset t = false.
Proof. exact to_json_no_unset. Qed.
Print Assumptions C11_encoder_rejects_unset.

(* ---- the dotted strings on the wire are unambiguous when keys contain no '.' (GraphQL names):
   equal renderings have equal segment strings, one by one (decimal indices are proved dot-free) ---- *)
Theorem C11_render_injective : forall p p', keys_dot_free p = true -> keys_dot_free p' = true ->
  render_path p = render_path p' -> map seg_to_string p = map seg_to_string p'.
Proof. exact render_injective. Qed.
Print Assumptions C11_render_injective.

(* ---- upload bytes: which bytes are "the file".  The clients hand the stream to httpx, which rewinds
   a seekable stream: the part carries the whole content whatever the position at call time, and
   re-sending the same Upload (retry, later call, other client) carries the same bytes again ---- *)
Theorem C11_file_bytes_position_irrelevant : forall u n, up_seekable u = true ->
  sent_bytes (set_pos n u) = up_content u.
Proof. exact sent_bytes_position_irrelevant. Qed.
Print Assumptions C11_file_bytes_position_irrelevant.

Theorem C11_resend_same_bytes : forall n u, up_seekable u = true ->
  Forall (fun b => b = up_content u) (send_n n u).
Proof. exact send_n_all_whole. Qed.
Print Assumptions C11_resend_same_bytes.

(* a non-seekable stream can only be sent from where it stands; a second send finds it exhausted *)
Theorem C11_nonseekable_resend_empty : forall u, up_seekable u = false ->
  sent_bytes (after_send u) = EmptyString.
Proof. exact nonseekable_resend_empty. Qed.
Print Assumptions C11_nonseekable_resend_empty.

(* ---- client state and schedules (by construction of the model; the tie compares vars(client)
   before/after and concurrent runs with solo runs) ---- *)
Theorem C11_execute_stateless : forall s c, fst (execute s c) = s.
Proof. exact execute_stateless. Qed.
Print Assumptions C11_execute_stateless.

Theorem C11_interleaving_irrelevant : forall s l l', Permutation l l' ->
  fst (run_schedule s l') = s /\
  Permutation (snd (run_schedule s l)) (snd (run_schedule s l')) /\
  forall c r, In (c, r) (snd (run_schedule s l')) -> r = snd (execute s c).
Proof. exact interleaving_irrelevant. Qed.
Print Assumptions C11_interleaving_irrelevant.

(* execute does not mutate its arguments: the model is a function of the call VALUE, so handing the very
   same variables / kwargs to a later call (anywhere in any schedule) yields the very same request.  True by
   construction of the functional model; its force is the tie, which snapshots the caller's objects
   (identity + contents) before/after every call and re-uses the same objects across calls of a history. *)
Theorem C11_reuse_same_arguments : forall s l c r1 r2,
  In (c, r1) (snd (run_schedule s l)) -> In (c, r2) (snd (run_schedule s l)) -> r1 = r2.
Proof.
  intros s l c r1 r2 H1 H2.
  destruct (interleaving_irrelevant s l l (Permutation_refl l)) as [_ [_ H]].
  rewrite (H c r1 H1), (H c r2 H2). reflexivity.
Qed.
Print Assumptions C11_reuse_same_arguments.

(* ---- concrete behaviour / non-vacuity ---- *)
Definition ex_vars : list (string * vt) :=
  [("a", VUpload 7);
   ("skip", VUnset);
   ("b", VList [VUpload 7; VDict [("c", VUpload 9)]]);
   ("d", VModel [(mk_mfield "id_" (Some "id") true, VLeaf (JInt 1));
                 (mk_mfield "file" None true, VUpload 7);
                 (mk_mfield "name" None false, VLeaf JNull)])].
Example C11_example_multipart :
  build_request "u" (mk_call "q" (Some "Op") (Some ex_vars) (Some [("X-A", "1")]) None) =
  RMultipart "u" (Some [("X-A", "1")]) None
    (JObj [("query", JStr "q"); ("operationName", JStr "Op");
           ("variables", JObj [("a", JNull); ("b", JArr [JNull; JObj [("c", JNull)]]);
                               ("d", JObj [("id", JInt 1); ("file", JNull)])])])
    (JObj [("0", JArr [JStr "variables.a"; JStr "variables.b.0"; JStr "variables.d.file"]);
           ("1", JArr [JStr "variables.b.1.c"])])
    [("0", 7); ("1", 9)] /\
  wf_keys (VDict (convert_dict ex_vars)) = true /\ vars_ok ex_vars = true /\
  roundtrip_holds (Some ex_vars) = true.
Proof. vm_compute. repeat split. Qed.

Example C11_example_json :
  build_request "u" (mk_call "q" None (Some [("x", VUnset); ("y", VLeaf JNull)]) (Some [("Content-Type", "a/b")]) (Some 3%Z)) =
  RJson "u" [("Content-Type", "a/b")] (Some 3%Z)
    (JObj [("query", JStr "q"); ("operationName", JNull); ("variables", JObj [("y", JNull)])]) /\
  build_request "u" (mk_call "q" None None None None) =
  RJson "u" [("Content-Type", "application/json")] None
    (JObj [("query", JStr "q"); ("operationName", JNull); ("variables", JObj [])]) /\
  build_request "u" (mk_call "q" None (Some [("l", VList [VUnset])]) None None) = RError.
Proof. vm_compute. repeat split. Qed.
