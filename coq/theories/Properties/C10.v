(* C10 — Generation is deterministic and idempotent.
   Property theorems only; proofs live in Base/SortUniq.v, Proofs/NondetP.v and Proofs/NondetDfs.v.
   The model is the code after 93e79d6 (sets that reach emitted text are iterated sorted) and be644af
   (ClientForwardRefs no longer mutates shared import nodes): every statement below is unguarded.  The
   witnesses of the three repaired findings stay as regression Examples on the pre-fix functions
   (op_import_names_unsorted, frag_module_order_unsorted, gen_client_imports_mutating). *)
From Coq Require Import List String Ascii Bool Arith Permutation.
From AC Require Import Base.Strs Base.SortUniq Model.Nondet Proofs.NondetP Proofs.NondetDfs Proofs.NondetFuel.
Import ListNotations.
Local Open Scope string_scope.

(* ---- oracles = permutations (so "for all oracles" is "for all iteration orders") ---- *)
Theorem C10_oracle_sound : forall (o : list nat) (l : list string), Permutation (permute o l) l.
Proof. exact permute_perm. Qed.
Print Assumptions C10_oracle_sound.

Theorem C10_oracle_complete : forall (l l' : list string), Permutation l l' -> exists o, permute o l = l'.
Proof. exact permute_complete. Qed.
Print Assumptions C10_oracle_complete.

(* ---- sort_canonical: the string order of sorted(); the path order of sorted(Path) ---- *)
Theorem C10_sort_canonical : forall l1 l2 : list string,
  sorted str_leb l1 -> sorted str_leb l2 -> Permutation l1 l2 -> l1 = l2.
Proof. exact str_sort_canonical. Qed.
Print Assumptions C10_sort_canonical.

Theorem C10_sorted_is_oracle_independent : forall l1 l2 : list string,
  Permutation l1 l2 -> str_sort l1 = str_sort l2.
Proof. exact str_sort_perm_invariant. Qed.
Print Assumptions C10_sorted_is_oracle_independent.

(* isort alone (a stable sort on a case-insensitive key) is canonical only for distinct keys: this is why the
   generator must sort the set itself before handing the names over *)
Theorem C10_sort_by_key_distinct_keys : forall l1 l2 : list string,
  NoDup (map isort_key l1) -> Permutation l1 l2 -> isort_names l1 = isort_names l2.
Proof. exact isort_names_perm_invariant. Qed.
Print Assumptions C10_sort_by_key_distinct_keys.

(* ---- the fragments module: generation order and class order, all inputs, all oracles, any fuel ---- *)
Theorem C10_toposort_oracle_independent : forall o1 o2 fi,
  frag_module_order o1 fi = frag_module_order o2 fi.
Proof. exact toposort_oracle_independent. Qed.
Print Assumptions C10_toposort_oracle_independent.

(* ... and when it succeeds the module holds every requested fragment, none twice *)
Theorem C10_fragments_module_complete : forall o fi p ord,
  frag_module_order o fi = Some (p, ord) ->
  NoDup ord /\ (forall x, In x (set_diff (fi_defs fi) (fi_excl fi)) -> In x ord).
Proof. exact frag_module_complete. Qed.
Print Assumptions C10_fragments_module_complete.

(* the fuel never decides: on well-formed inputs (fragment names distinct, every mixin a defined fragment — what
   graphql-core's validation guarantees and the tie re-checks on every recorded input) the worklist and the DFS
   finish within frag_fuel, so the module order exists, has no class twice and holds every requested fragment *)
Theorem C10_fragments_module_total : forall o fi, wf_finput fi ->
  exists p ord, frag_module_order o fi = Some (p, ord) /\ NoDup ord /\
                (forall x, In x (set_diff (fi_defs fi) (fi_excl fi)) -> In x ord).
Proof.
  intros o fi W. destruct (frag_module_order_total o fi W) as [p [ord E]].
  exists p, ord. split; [exact E|]. exact (frag_module_complete o fi p ord E).
Qed.
Print Assumptions C10_fragments_module_total.

Theorem C10_generation_order_independent : forall o1 o2 fi fuel queue names processed,
  work fuel o1 fi queue names processed = work fuel o2 fi queue names processed.
Proof. exact generation_order_independent. Qed.
Print Assumptions C10_generation_order_independent.

(* ---- every sorted(...) site ---- *)
Theorem C10_class_bases_independent : forall c1 c2 frs, class_bases c1 frs = class_bases c2 frs.
Proof. exact class_bases_independent. Qed.
Theorem C10_related_fragments_independent : forall c1 c2 l, related_fragments c1 l = related_fragments c2 l.
Proof. exact related_fragments_independent. Qed.
Theorem C10_typename_literal_independent : forall c1 c2 abs tn ps,
  typename_literal c1 abs tn ps = typename_literal c2 abs tn ps.
Proof. exact typename_literal_independent. Qed.
Print Assumptions C10_typename_literal_independent.

(* ---- import names of an operation module: all mixin sets, all oracles ---- *)
Theorem C10_operation_imports_independent : forall c1 c2 mixins,
  op_import_names c1 mixins = op_import_names c2 mixins.
Proof. exact op_import_names_independent. Qed.
Print Assumptions C10_operation_imports_independent.

(* ---- the site table: EVERY row ---- *)
Theorem C10_emission_oracle_independent : forall s, In s site_table ->
  forall l c1 c2 probe, observe (s_sink s) (permute c1 l) probe = observe (s_sink s) (permute c2 l) probe.
Proof. exact emission_oracle_independent. Qed.
Print Assumptions C10_emission_oracle_independent.

(* no row has an order-sensitive sink *)
Example C10_sensitive_sites : sensitive_sites = [].
Proof. vm_compute. reflexivity. Qed.

(* why none may: a site whose order reaches the text raw, or only through isort, IS oracle-dependent *)
Theorem C10_raw_and_isort_sinks_are_order_sensitive : forall k, order_sensitive k = true ->
  exists l c1 c2 probe, NoDup l /\ observe k (permute c1 l) probe <> observe k (permute c2 l) probe.
Proof. exact observe_refuted. Qed.
Print Assumptions C10_raw_and_isort_sinks_are_order_sensitive.

(* the graphqlschema strategy: its generator package has one set (a membership constant), one constant dict
   and two writes of the target file *)
Example C10_schema_strategy_sites :
  map (fun s => (s_ctx s, sink_name (s_sink s)))
      (filter (fun s => String.prefix "graphql_schema_generators/" (s_file s)) site_table)
    = [("construct", "none"); ("state:module", "constant"); ("fs", "write-target"); ("fs", "write-target")].
Proof. vm_compute. reflexivity. Qed.

(* ---- isort's section placement: the ENVIRONMENT oracle (what exists below cwd) ---- *)
(* the import blocks of a generated module do not depend on what is on disk below cwd — in particular not on
   whether a previous generation left the target package there (by construction of the model: isort is called
   without source paths since f6e5e03; the tie compares the blocks on disk fresh / regenerated / shadowed cwd) *)
Theorem C10_layout_env_independent : forall sl e1 e2 imps, layout sl e1 imps = layout sl e2 imps.
Proof. exact layout_env_independent. Qed.
Print Assumptions C10_layout_env_independent.

(* over the site table: EVERY row *)
Theorem C10_emission_env_independent : forall s, In s site_table ->
  forall sl e1 e2 imps, observe_env (s_sink s) sl e1 imps = observe_env (s_sink s) sl e2 imps.
Proof. exact emission_env_independent. Qed.
Print Assumptions C10_emission_env_independent.

Example C10_env_sensitive_sites : env_sensitive_sites = [].
Proof. vm_compute. reflexivity. Qed.

(* why no row may have the source-path sink: it IS environment-dependent *)
Theorem C10_source_path_sink_is_env_sensitive : forall k, env_sensitive k = true ->
  exists sl e1 e2 imps, observe_env k sl e1 imps <> observe_env k sl e2 imps.
Proof. exact observe_env_refuted. Qed.

(* regression Example (fixed by f6e5e03): a scalar path into the target package, fresh vs regenerated, and an
   unrelated cwd directory named like an imported module — equal now, different under the default configuration *)
Example C10_regression_isort_sections :
  let early := ["my_client.scalars_impl"] in
  let fresh := gen_env [] "my_client" false early in
  let regen := gen_env [] "my_client" true early in
  let shadowed := gen_env ["pydantic"] "my_client" false early in
  layout ["typing"] fresh imps_selfimport = layout ["typing"] regen imps_selfimport /\
  layout ["typing"] fresh imps_selfimport = layout ["typing"] shadowed imps_selfimport /\
  layout ["typing"] regen imps_selfimport = [["typing"]; ["my_client.scalars_impl"; "pydantic"]] /\
  layout_default ["typing"] fresh imps_selfimport = [["typing"]; ["my_client.scalars_impl"; "pydantic"]] /\
  layout_default ["typing"] regen imps_selfimport = [["typing"]; ["pydantic"]; ["my_client.scalars_impl"]] /\
  layout_default ["typing"] (gen_env [] "my_client" false []) imps_selfimport = [["typing"]; ["pydantic"]; ["my_client.scalars_impl"]] /\
  layout_default ["typing"] shadowed imps_selfimport = [["typing"]; ["my_client.scalars_impl"]; ["pydantic"]].
Proof. vm_compute. repeat split. Qed.

(* ---- directory listing; both strategies ---- *)
Theorem C10_load_dir_independent : forall c1 c2 files,
  NoDup (map fst files) -> load_dir c1 files = load_dir c2 files.
Proof. exact load_dir_independent. Qed.
Print Assumptions C10_load_dir_independent.

Theorem C10_strategy_independent_of_listing : forall (X : Type) (generate : string -> X) c1 c2 files,
  NoDup (map fst files) -> generate (load_dir_text c1 files) = generate (load_dir_text c2 files).
Proof. intros X. exact (@strategy_independent_of_listing X). Qed.
Print Assumptions C10_strategy_independent_of_listing.

(* ---- regeneration ---- *)
Theorem C10_regenerate_idempotent : forall p fs,
  NoDup (map fst p) -> write_all p (write_all p fs) = write_all p fs.
Proof. exact regenerate_idempotent. Qed.
Print Assumptions C10_regenerate_idempotent.

Theorem C10_regenerate_idempotent_lookup : forall p fs m,
  fs_lookup m (write_all p (write_all p fs)) = fs_lookup m (write_all p fs).
Proof. exact regenerate_idempotent_lookup. Qed.

Theorem C10_regenerate_independent_of_previous : forall p fs1 fs2 m,
  In m (map fst p) -> fs_lookup m (write_all p fs1) = fs_lookup m (write_all p fs2).
Proof. exact regenerate_independent_of_previous. Qed.
Print Assumptions C10_regenerate_independent_of_previous.

Theorem C10_regenerate_keeps_other_files : forall p fs m,
  ~ In m (map fst p) -> fs_lookup m (write_all p fs) = fs_lookup m fs.
Proof. exact regenerate_keeps_other_files. Qed.

(* ---- the target directory as the generator meets it: `if not package_path.exists(): mkdir()` then writes ---- *)
Theorem C10_generate_absent_eq_empty : forall p, generate_into true p TAbsent = generate_into true p (TDir []).
Proof. exact generate_absent_eq_empty. Qed.

Theorem C10_generate_twice : forall b1 b2 p t t1, NoDup (map fst p) ->
  generate_into b1 p t = GenOk t1 -> generate_into b2 p t1 = GenOk t1.
Proof. exact generate_twice. Qed.
Print Assumptions C10_generate_twice.

Theorem C10_generate_files_independent_of_target : forall b1 b2 p t1 t2 fs1 fs2 m,
  generate_into b1 p t1 = GenOk (TDir fs1) -> generate_into b2 p t2 = GenOk (TDir fs2) ->
  In m (map fst p) -> fs_lookup m fs1 = fs_lookup m fs2.
Proof. exact generate_files_independent_of_target. Qed.
Print Assumptions C10_generate_files_independent_of_target.

Theorem C10_generate_fails_iff : forall b p t e, p <> [] ->
  generate_into b p t = GenErr e <-> (t = TAbsent /\ b = false /\ e = "FileNotFoundError") \/
                                      (t = TFile /\ e = "NotADirectoryError").
Proof. exact generate_fails_iff. Qed.

(* over the site table (every file-system access of the generator and its plugins is a row): no row reads what a
   previous generation left; exactly one row tests the target's existence *)
Theorem C10_emission_target_independent : forall s, In s site_table ->
  forall fs1 fs2, observe_target (s_sink s) (TDir fs1) = observe_target (s_sink s) (TDir fs2).
Proof. exact emission_target_independent. Qed.
Print Assumptions C10_emission_target_independent.

Example C10_target_sites : target_sensitive_sites = [] /\
  target_exists_sites = [("client_generators/package.py", "PackageGenerator.generate", "self.package_path.exists(...)")].
Proof. vm_compute. split; reflexivity. Qed.

Theorem C10_read_target_is_target_sensitive : forall k, target_sensitive k = true ->
  exists fs1 fs2, observe_target k (TDir fs1) <> observe_target k (TDir fs2).
Proof. exact read_target_is_target_sensitive. Qed.

(* ---- several generations in one interpreter: any history, plugin or not ---- *)
Theorem C10_history_independent : forall hist plugin wanted st,
  fst (gen_client_imports plugin wanted (run_history hist st)) = fst (gen_client_imports plugin wanted st).
Proof. exact gen_history_independent. Qed.
Print Assumptions C10_history_independent.

(* ... and over the site table: every interpreter-lifetime container / shared AST node / cache the scan finds
   (contexts state:module, state:class, state:cache, state:mutate, state:global) is a row; EVERY row is
   history-free (the module-level containers are constants: the tie fingerprints the module state before and
   after every generation of the cross-project sequences), and carried state is proved history-sensitive *)
Theorem C10_emission_history_independent : forall s, In s site_table ->
  forall (St : Type) (initial : St) (step : St -> St) n1 n2,
  observe_history (s_sink s) initial step n1 = observe_history (s_sink s) initial step n2.
Proof. exact emission_history_independent. Qed.
Print Assumptions C10_emission_history_independent.

Example C10_history_sensitive_sites : history_sensitive_sites = [].
Proof. vm_compute. reflexivity. Qed.

Theorem C10_carried_state_is_history_sensitive : forall k, history_sensitive k = true ->
  exists (initial : nat) (step : nat -> nat) n1 n2,
  observe_history k initial step n1 <> observe_history k initial step n2.
Proof. exact carried_state_is_history_sensitive. Qed.

(* ---- regression Examples: the witnesses of the repaired findings ---- *)
(* F12 (fixed by 93e79d6): the two oracles that split the pre-fix DFS now agree; before, they differed — but
   even then only in order (same classes) *)
Example C10_regression_F12 :
  frag_module_order orc_id fi_f12 = frag_module_order (orc_of [("FragA", [1])]) fi_f12 /\
  frag_module_order orc_id fi_f12 = Some (["FragA"; "FragB"; "FragC"], ["FragB"; "FragC"; "FragA"]) /\
  frag_module_order_unsorted orc_id fi_f12 <> frag_module_order_unsorted (orc_of [("FragA", [1])]) fi_f12.
Proof. vm_compute. repeat split; discriminate. Qed.

Theorem C10_unsorted_dfs_only_reordered : forall o1 o2 fi p1 ord1 p2 ord2,
  frag_module_order_unsorted o1 fi = Some (p1, ord1) -> frag_module_order o2 fi = Some (p2, ord2) ->
  p1 = p2 /\ Permutation ord1 ord2.
Proof. exact frag_module_unsorted_same_classes. Qed.

(* isort key tie (fixed by 93e79d6): FooBar / Foobar *)
Example C10_regression_isort_tie :
  op_import_names [] ["FooBar"; "Foobar"] = op_import_names [1] ["FooBar"; "Foobar"] /\
  op_import_names [1] ["FooBar"; "Foobar"] = ["FooBar"; "Foobar"] /\
  op_import_names_unsorted [] ["FooBar"; "Foobar"] <> op_import_names_unsorted [1] ["FooBar"; "Foobar"].
Proof. vm_compute. repeat split; discriminate. Qed.

(* shared import nodes (fixed by be644af): a plain generation after a ClientForwardRefs one *)
Example C10_regression_process_state :
  fst (gen_client_imports false [] (run_history [(true, ["UnsetType"])] st_initial))
    = fst (gen_client_imports false [] st_initial) /\
  fst (gen_client_imports_mutating false [] (snd (gen_client_imports_mutating true ["UnsetType"] st_initial)))
    <> fst (gen_client_imports_mutating false [] st_initial) /\
  fst (gen_client_imports_mutating true ["UnsetType"] (snd (gen_client_imports_mutating true ["UnsetType"] st_initial)))
    <> fst (gen_client_imports_mutating true ["UnsetType"] st_initial).
Proof. vm_compute. repeat split; discriminate. Qed.

(* the __typename literal is stable BECAUSE generate_typename_annotation sorts *)
Example C10_typename_needs_its_sort : exists c1 c2 abs tn ps,
  typename_values_raw c1 abs tn ps <> typename_values_raw c2 abs tn ps.
Proof. exact typename_values_raw_refuted. Qed.

(* ---- non-vacuity ---- *)
Definition fi_diamond : finput :=
  {| fi_defs := ["A"; "L"; "R"; "Z"; "Unused"];
     fi_mix := [("A", ["L"; "R"]); ("L", ["Z"]); ("R", ["Z"]); ("Z", []); ("Unused", [])];
     fi_excl := ["Unused"] |}.
Example C10_model_runs :
  frag_module_order (orc_of [("A", [1])]) fi_diamond = Some (["A"; "L"; "R"; "Z"], ["Z"; "L"; "R"; "A"]) /\
  frag_module_order_unsorted (orc_of [("A", [1])]) fi_diamond = Some (["A"; "L"; "R"; "Z"], ["Z"; "R"; "L"; "A"]) /\
  permute [2; 0; 1] ["a"; "b"; "c"; "d"] = ["c"; "a"; "d"; "b"] /\
  str_sort ["b"; "a"; "B"; "a1"; ""] = [""; "B"; "a"; "a1"; "b"] /\
  isort_names ["zed"; "Foobar"; "FooBar"; "ABC"; "Zed"] = ["ABC"; "Foobar"; "FooBar"; "Zed"; "zed"] /\
  map fst (load_dir [1] [(["b.graphql"], "B"); (["a"; "x.gql"], "AX"); (["a-b.graphql"], "AB"); (["c.txt"], "C")])
    = [["a"; "x.gql"]; ["a-b.graphql"]; ["b.graphql"]] /\
  typename_literal [1] "Node" ["Node"; "Cat"] ["Dog"; "Cat"; "Ant"] = ["Ant"; "Dog"; "Node"] /\
  write_all [("a.py", "1"); ("b.py", "2")] [("stale.py", "x"); ("a.py", "0")]
    = [("stale.py", "x"); ("a.py", "1"); ("b.py", "2")] /\
  fst (gen_client_imports true ["UnsetType"] st_initial)
    = ([("base_model", ["UNSET"]); ("base_model", ["Upload"]); ("async_base_client", ["AsyncBaseClient"])], ["UnsetType"]).
Proof. vm_compute. repeat split. Qed.
