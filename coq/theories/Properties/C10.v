(* C10 — Generation is deterministic and idempotent.
   Property theorems only; proofs live in Base/SortUniq.v and Proofs/NondetP.v. *)
From Coq Require Import List String Ascii Bool Arith Permutation.
From AC Require Import Base.Strs Base.SortUniq Model.Nondet Proofs.NondetP Proofs.NondetDfs.
Import ListNotations.
Local Open Scope string_scope.

(* ---- full statements ---- *)
(* the class order of the fragments module never depends on how sets happen to iterate *)
Definition C10_fragments_module_full : Prop := forall o1 o2 fi,
  frag_module_order false o1 fi = frag_module_order false o2 fi.
(* neither do the names of `from .fragments import ...` in an operation module *)
Definition C10_operation_imports_full : Prop := forall c1 c2 mixins, NoDup mixins ->
  op_import_names false c1 mixins = op_import_names false c2 mixins.
(* every site of the table is oracle-independent *)
Definition C10_sites_full : Prop := forall s, In s site_table ->
  forall l c1 c2 probe, NoDup l ->
  observe (s_sink s) (permute c1 l) probe = observe (s_sink s) (permute c2 l) probe.

(* ---- oracles = permutations (so "for all oracles" is "for all iteration orders") ---- *)
Theorem C10_oracle_sound : forall (o : list nat) (l : list string), Permutation (permute o l) l.
Proof. exact permute_perm. Qed.
Print Assumptions C10_oracle_sound.

Theorem C10_oracle_complete : forall (l l' : list string), Permutation l l' -> exists o, permute o l = l'.
Proof. exact permute_complete. Qed.
Print Assumptions C10_oracle_complete.

(* ---- sort_canonical: the string order of sorted(); the path order of sorted(Path) ---- *)
Theorem C10_sort_canonical : forall l1 l2 : list string,
  sorted str_leb l1 -> sorted str_leb l2 -> Permutation l1 l2 -> l1 = l2.
Proof. exact str_sort_canonical. Qed.
Print Assumptions C10_sort_canonical.

Theorem C10_sorted_is_oracle_independent : forall l1 l2 : list string,
  Permutation l1 l2 -> str_sort l1 = str_sort l2.
Proof. exact str_sort_perm_invariant. Qed.
Print Assumptions C10_sorted_is_oracle_independent.

Theorem C10_sort_by_key_partial : forall l1 l2 : list string,
  NoDup (map isort_key l1) -> Permutation l1 l2 -> isort_names l1 = isort_names l2.
Proof. exact isort_names_perm_invariant. Qed.
Print Assumptions C10_sort_by_key_partial.

(* ---- the fragment DFS ---- *)
Theorem C10_toposort_oracle_independent : forall o1 o2 fi,
  frag_module_order true o1 fi = frag_module_order true o2 fi.
Proof. exact toposort_oracle_independent. Qed.
Print Assumptions C10_toposort_oracle_independent.

Theorem C10_toposort_partial : forall o1 o2 fi, g_c10_dfs fi = true ->
  frag_module_order false o1 fi = frag_module_order false o2 fi.
Proof. exact toposort_unsorted_partial. Qed.
Print Assumptions C10_toposort_partial.

Theorem C10_toposort_refuted : exists o1 o2 fi,
  frag_module_order false o1 fi <> frag_module_order false o2 fi /\
  frag_module_order false o1 fi <> None /\ frag_module_order false o2 fi <> None.
Proof. exact toposort_refuted. Qed.
Print Assumptions C10_toposort_refuted.

Theorem C10_fragments_module_full_refuted : ~ C10_fragments_module_full.
Proof.
  intro H. destruct toposort_refuted as [o1 [o2 [fi [D _]]]]. apply D. apply H.
Qed.

(* what F12 can and cannot do: for ANY two oracles and either form of the DFS, fragments are generated in the
   same order and the module holds the same fragments exactly once each, among them every requested one —
   only the ORDER of the classes is exposed to the oracle *)
Theorem C10_toposort_same_classes : forall sd1 sd2 o1 o2 fi p1 ord1 p2 ord2,
  frag_module_order sd1 o1 fi = Some (p1, ord1) ->
  frag_module_order sd2 o2 fi = Some (p2, ord2) ->
  p1 = p2 /\ Permutation ord1 ord2 /\ NoDup ord1 /\
  (forall x, In x (set_diff (fi_defs fi) (fi_excl fi)) -> In x ord1).
Proof. exact frag_module_same_classes. Qed.
Print Assumptions C10_toposort_same_classes.

Theorem C10_generation_order_independent : forall o1 o2 fi fuel queue names processed,
  work fuel o1 fi queue names processed = work fuel o2 fi queue names processed.
Proof. exact generation_order_independent. Qed.
Print Assumptions C10_generation_order_independent.

(* ---- every sorted(...) site ---- *)
Theorem C10_class_bases_independent : forall c1 c2 frs, class_bases c1 frs = class_bases c2 frs.
Proof. exact class_bases_independent. Qed.
Theorem C10_related_fragments_independent : forall c1 c2 l, related_fragments c1 l = related_fragments c2 l.
Proof. exact related_fragments_independent. Qed.
Theorem C10_typename_literal_independent : forall c1 c2 abs tn ps,
  typename_literal c1 abs tn ps = typename_literal c2 abs tn ps.
Proof. exact typename_literal_independent. Qed.
Print Assumptions C10_typename_literal_independent.
Theorem C10_typename_unsorted_refuted : exists c1 c2 abs tn ps,
  typename_values_raw c1 abs tn ps <> typename_values_raw c2 abs tn ps.
Proof. exact typename_values_raw_refuted. Qed.

(* ---- import names of an operation module ---- *)
Theorem C10_operation_imports_partial : forall c1 c2 mixins, g_c10_imports mixins ->
  op_import_names false c1 mixins = op_import_names false c2 mixins.
Proof. exact op_import_names_partial. Qed.
Print Assumptions C10_operation_imports_partial.

Theorem C10_operation_imports_refuted : exists c1 c2 mixins,
  NoDup mixins /\ op_import_names false c1 mixins <> op_import_names false c2 mixins.
Proof. exact op_import_names_refuted. Qed.
Print Assumptions C10_operation_imports_refuted.

Theorem C10_operation_imports_full_refuted : ~ C10_operation_imports_full.
Proof.
  intro H. destruct op_import_names_refuted as [c1 [c2 [m [N D]]]]. apply D. apply H. exact N.
Qed.

Theorem C10_operation_imports_fixed : forall c1 c2 mixins,
  op_import_names true c1 mixins = op_import_names true c2 mixins.
Proof. exact op_import_names_fixed_independent. Qed.

(* ---- the site table ---- *)
Theorem C10_emission_oracle_independent : forall s, In s site_table -> order_sensitive (s_sink s) = false ->
  forall l c1 c2 probe, observe (s_sink s) (permute c1 l) probe = observe (s_sink s) (permute c2 l) probe.
Proof. exact emission_oracle_independent. Qed.
Print Assumptions C10_emission_oracle_independent.

Theorem C10_emission_isort_partial : forall l c1 c2 probe, NoDup (map isort_key l) ->
  observe SkIsort (permute c1 l) probe = observe SkIsort (permute c2 l) probe.
Proof. exact observe_isort_partial. Qed.

Theorem C10_emission_refuted : forall s, In s site_table -> order_sensitive (s_sink s) = true ->
  exists l c1 c2 probe, NoDup l /\
    observe (s_sink s) (permute c1 l) probe <> observe (s_sink s) (permute c2 l) probe.
Proof. exact emission_refuted. Qed.
Print Assumptions C10_emission_refuted.

Theorem C10_sites_full_refuted : ~ C10_sites_full.
Proof.
  intro H.
  set (s := St "client_generators/fragments.py" "FragmentsGenerator._get_sorted_fragments_names.visit"
               "iter" "dependencies_dict[name]" SkRaw
               "F12: class order of fragments.py follows the iteration order of a set (frag_module_order false)").
  assert (Hin : In s site_table) by (vm_compute; tauto).
  specialize (H s Hin ["a"; "b"] [] [1] "").
  assert (N : NoDup ["a"; "b"]) by (repeat constructor; simpl; intuition discriminate).
  specialize (H N). vm_compute in H. discriminate.
Qed.

(* the order-sensitive rows, computed: the two findings plus the plugin import sites *)
Example C10_sensitive_sites : sensitive_sites =
  [("client_generators/fragments.py", "FragmentsGenerator._get_sorted_fragments_names.visit", "dependencies_dict[name]");
   ("client_generators/result_types.py", "ResultTypesGenerator._add_enums_scalars_fragments_imports", "self._fragments_used_as_mixins");
   ("contrib/client_forward_refs.py", "ClientForwardRefsPlugin._add_forward_ref_imports", "self.input_and_return_types");
   ("contrib/shorter_results.py", "ShorterResultsPlugin.generate_client_module", "self.extended_imports[stmt.module]");
   ("contrib/shorter_results.py", "ShorterResultsPlugin.generate_client_module", "alias")].
Proof. vm_compute. reflexivity. Qed.

(* ---- directory listing; both strategies ---- *)
Theorem C10_load_dir_independent : forall c1 c2 files,
  NoDup (map fst files) -> load_dir c1 files = load_dir c2 files.
Proof. exact load_dir_independent. Qed.
Print Assumptions C10_load_dir_independent.

Theorem C10_strategy_independent_of_listing : forall (X : Type) (generate : string -> X) c1 c2 files,
  NoDup (map fst files) -> generate (load_dir_text c1 files) = generate (load_dir_text c2 files).
Proof. intros X. exact (@strategy_independent_of_listing X). Qed.
Print Assumptions C10_strategy_independent_of_listing.

(* the graphqlschema strategy: no order-sensitive site in its generator package or in the schema loader
   (what it iterates are graphql-core's insertion-ordered maps; the only sets are tested for membership) *)
Example C10_schema_strategy_sites_order_free :
  forallb (fun s => negb (order_sensitive (s_sink s)))
    (filter (fun s => String.prefix "graphql_schema_generators/" (s_file s) || String.eqb (s_file s) "schema.py"
                      || String.eqb (s_file s) "settings.py" || String.eqb (s_file s) "config.py")
            site_table) = true /\
  List.length (filter (fun s => String.prefix "graphql_schema_generators/" (s_file s)) site_table) = 1.
Proof. vm_compute. split; reflexivity. Qed.

(* ---- regeneration ---- *)
Theorem C10_regenerate_idempotent : forall p fs,
  NoDup (map fst p) -> write_all p (write_all p fs) = write_all p fs.
Proof. exact regenerate_idempotent. Qed.
Print Assumptions C10_regenerate_idempotent.

Theorem C10_regenerate_idempotent_lookup : forall p fs m,
  fs_lookup m (write_all p (write_all p fs)) = fs_lookup m (write_all p fs).
Proof. exact regenerate_idempotent_lookup. Qed.

Theorem C10_regenerate_independent_of_previous : forall p fs1 fs2 m,
  In m (map fst p) -> fs_lookup m (write_all p fs1) = fs_lookup m (write_all p fs2).
Proof. exact regenerate_independent_of_previous. Qed.
Print Assumptions C10_regenerate_independent_of_previous.

Theorem C10_regenerate_keeps_other_files : forall p fs m,
  ~ In m (map fst p) -> fs_lookup m (write_all p fs) = fs_lookup m fs.
Proof. exact regenerate_keeps_other_files. Qed.

(* ---- several generations in one interpreter (ClientForwardRefsPlugin mutates shared import nodes) ---- *)
Definition C10_history_independent_full : Prop := forall hist plugin wanted st,
  fst (gen_client_imports false plugin wanted (run_history false hist st)) =
  fst (gen_client_imports false plugin wanted st).

Theorem C10_history_partial : forall hist plugin wanted st,
  forallb (fun h => negb (fst h)) hist = true ->
  fst (gen_client_imports false plugin wanted (run_history false hist st)) =
  fst (gen_client_imports false plugin wanted st).
Proof. exact gen_history_partial. Qed.
Print Assumptions C10_history_partial.

Theorem C10_history_refuted : exists hist plugin wanted st,
  fst (gen_client_imports false plugin wanted (run_history false hist st)) <>
  fst (gen_client_imports false plugin wanted st).
Proof. exact gen_history_refuted. Qed.
Print Assumptions C10_history_refuted.

Theorem C10_history_full_refuted : ~ C10_history_independent_full.
Proof. intro H. destruct gen_history_refuted as [h [p [w [st D]]]]. apply D. apply H. Qed.

Theorem C10_twice_with_plugin_refuted : exists wanted st,
  fst (gen_client_imports false true wanted (snd (gen_client_imports false true wanted st))) <>
  fst (gen_client_imports false true wanted st).
Proof. exact gen_twice_with_plugin_refuted. Qed.

Theorem C10_history_fixed : forall hist plugin wanted st,
  fst (gen_client_imports true plugin wanted (run_history true hist st)) =
  fst (gen_client_imports true plugin wanted st).
Proof. exact gen_fixed_history_independent. Qed.
Print Assumptions C10_history_fixed.

(* ---- non-vacuity ---- *)
Definition fi_diamond : finput :=
  {| fi_defs := ["A"; "L"; "R"; "Z"; "Unused"];
     fi_mix := [("A", ["L"; "R"]); ("L", ["Z"]); ("R", ["Z"]); ("Z", []); ("Unused", [])];
     fi_excl := ["Unused"] |}.
Example C10_model_runs :
  frag_module_order true (orc_of [("A", [1])]) fi_diamond =
    Some (["A"; "L"; "R"; "Z"], ["Z"; "L"; "R"; "A"]) /\
  frag_module_order false (orc_of [("A", [1])]) fi_diamond =
    Some (["A"; "L"; "R"; "Z"], ["Z"; "R"; "L"; "A"]) /\
  g_c10_dfs fi_diamond = false /\
  g_c10_dfs {| fi_defs := ["A"; "B"]; fi_mix := [("A", ["B"]); ("B", [])]; fi_excl := [] |} = true /\
  permute [2; 0; 1] ["a"; "b"; "c"; "d"] = ["c"; "a"; "d"; "b"] /\
  str_sort ["b"; "a"; "B"; "a1"; ""] = [""; "B"; "a"; "a1"; "b"] /\
  isort_names ["zed"; "Foobar"; "FooBar"; "ABC"; "Zed"] = ["ABC"; "Foobar"; "FooBar"; "Zed"; "zed"] /\
  map fst (load_dir [1] [(["b.graphql"], "B"); (["a"; "x.gql"], "AX"); (["a-b.graphql"], "AB"); (["c.txt"], "C")])
    = [["a"; "x.gql"]; ["a-b.graphql"]; ["b.graphql"]] /\
  typename_literal [1] "Node" ["Node"; "Cat"] ["Dog"; "Cat"; "Ant"] = ["Ant"; "Dog"; "Node"] /\
  write_all [("a.py", "1"); ("b.py", "2")] [("stale.py", "x"); ("a.py", "0")]
    = [("stale.py", "x"); ("a.py", "1"); ("b.py", "2")].
Proof. vm_compute. repeat split. Qed.
