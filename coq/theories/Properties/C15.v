(* C15 — Bundled plugins preserve client behaviour apart from their documented change.
   Property theorems only; proofs live in Proofs/PluginsP.v.  Strength labels (see notes/C15.md):
   [full] quantifies over every input of the modelled function; [by-construction+tie] is true of the model by
   the way the model is written and gets its force from the K1/K3 tie; [refuted] is a witness. *)
From Coq Require Import List String Ascii Bool Arith.
From AC Require Import Base.Strs Base.Sexp Model.Names Model.Plugins Proofs.PluginsP.
Import ListNotations.
Local Open Scope string_scope.
Local Open Scope list_scope.

(* ---- several plugins are applied to each hook in configuration order [full] ---- *)
Theorem C15_fold_order : forall ps qs h o,
  apply_hook (ps ++ qs) h o =
  match apply_hook ps h o with
  | None => None
  | Some (ps', o1) => match apply_hook qs h o1 with None => None | Some (qs', o2) => Some (ps' ++ qs', o2) end
  end.
Proof. exact apply_hook_app. Qed.
Print Assumptions C15_fold_order.

(* ---- the configuration route (plugins/explorer.py): class-path and module-path entries are applied in the order of
        the entries [by-construction + tie: c15_source compares the real get_plugins_types, K3 compares packages] ---- *)
Theorem C15_entries_applied_in_order : forall a b h o,
  apply_hook (resolve_entries (a ++ b)) h o =
  match apply_hook (resolve_entries a) h o with
  | None => None
  | Some (ps', o1) => match apply_hook (resolve_entries b) h o1 with None => None | Some (qs', o2) => Some (ps' ++ qs', o2) end
  end.
Proof. exact entries_applied_in_order. Qed.
Print Assumptions C15_entries_applied_in_order.

(* ---- a plugin overriding no hook changes nothing: every hook, every position, whole package
        [full over the model; "no byte" is the K3 byte-identical-tree check] ---- *)
Theorem C15_identity_neutral_hook : forall ps qs h o,
  match apply_hook (ps ++ PIdentity :: qs) h o, apply_hook (ps ++ qs) h o with
  | Some (l1, o1), Some (l2, o2) => o1 = o2 /\ strip l1 = strip l2
  | None, None => True
  | _, _ => False
  end.
Proof. exact identity_neutral_hook. Qed.
Print Assumptions C15_identity_neutral_hook.

Theorem C15_identity_neutral_package : forall ps qs u, generate (ps ++ PIdentity :: qs) u = generate (ps ++ qs) u.
Proof. exact identity_neutral_package. Qed.
Print Assumptions C15_identity_neutral_package.

(* ---- NoReimports only empties __init__ [by-construction+tie] ---- *)
Theorem C15_no_reimports_only_init : forall h o,
  is_init_hook h = false -> step PNoReimports h o = Some (PNoReimports, o).
Proof. exact no_reimports_other_hooks. Qed.
Print Assumptions C15_no_reimports_only_init.

Theorem C15_no_reimports_empties_init : forall i, step PNoReimports HInitModule (OInit i) = Some (PNoReimports, OInit None).
Proof. exact no_reimports_init. Qed.

(* ---- ShorterResults returns exactly the single field [by-construction+tie for the value semantics; the
        side conditions (same parameters, same body but the last statement, annotation = the field's) are full] ---- *)
Theorem C15_shorter_is_projection : forall st m st' m',
  sh_method st m = Some (st', m') ->
  m' = m \/
  exists cls f a e,
    lookup cls (sh_classes st) <> None /\
    (exists c, lookup cls (sh_classes st) = Some c /\
               all_fields (S (List.length (sh_classes st))) (sh_classes st) c = Some [(f, a)]) /\
    result_expr m = Some e /\ result_expr m' = Some (RAttr e f) /\
    (m_returns m' = Some (fst (sh_update a)) \/ m_returns m' = Some (ASub "AsyncIterator" [fst (sh_update a)])) /\
    m_params m' = m_params m /\ m_name m' = m_name m /\
    removelast (m_body m') = removelast (m_body m) /\
    (forall V, eval_r V (RAttr e f) =
               match eval_r V e with Some (VObj attrs) => lookup f attrs | _ => None end).
Proof. exact shorter_is_projection. Qed.
Print Assumptions C15_shorter_is_projection.

(* ---- ExtractOperations: the constant SNAKE_UPPER_GQL holds the operation string [full, under the hypothesis
        that constant names are distinct — implied by the generator's own unique-file-name check] ---- *)
Theorem C15_extract_same_strings : forall m ops n s,
  NoDup (map const_name (map fst ops)) -> In (n, s) ops ->
  lookup (const_name n)
         (ex_operations_module (ex_record_all {| ex_module := m; ex_gqls := []; ex_vars := []; ex_written := false |} ops))
  = Some s.
Proof. exact extract_same_strings. Qed.
Print Assumptions C15_extract_same_strings.

(* ---- the constants of distinct operations are distinct [full]: const_name is injective on snake forms, and operations
        with equal snake forms have equal method / module names, which the generator refuses (duplicated file names).
        This discharges the `NoDup (map const_name …)` hypothesis of C15_extract_same_strings / C15_request_unchanged
        from the distinctness of method names ---- *)
Theorem C15_const_name_injective : forall a b, const_name a = const_name b -> snake (s2l a) = snake (s2l b).
Proof. exact const_name_injective. Qed.
Print Assumptions C15_const_name_injective.

Theorem C15_const_names_distinct : forall names,
  NoDup (map (fun n => snake (s2l n)) names) -> NoDup (map const_name names).
Proof. exact const_names_nodup. Qed.
Print Assumptions C15_const_names_distinct.

Example C15_const_name_collision_candidates :
  map const_name ["userDetails"; "userDetailsGql"; "item"; "itemGql"; "itemGqlGql"; "Gql"]
  = ["USER_DETAILS_GQL"; "USER_DETAILS_GQL_GQL"; "ITEM_GQL"; "ITEM_GQL_GQL"; "ITEM_GQL_GQL_GQL"; "GQL_GQL"].
Proof. vm_compute. reflexivity. Qed.

(* ---- no plugin touches variables, operationName or the document [full per plugin; ExtractOperations on the
        body shape the generator emits (std_body), resolved through the constants table] ---- *)
Theorem C15_request_unchanged_shorter : forall st m st' m' C,
  sh_method st m = Some (st', m') -> request_of C m' = request_of C m.
Proof. exact shorter_request_unchanged. Qed.
Print Assumptions C15_request_unchanged_shorter.

Theorem C15_request_unchanged_forward_refs : forall ic m m' a b C,
  fr_method ic m = Some (m', a, b) -> request_of C m' = request_of C m.
Proof. exact forward_refs_request_unchanged. Qed.
Print Assumptions C15_request_unchanged_forward_refs.

Theorem C15_request_unchanged_extract_partial : forall st opname k m m' C r,
  std_body m = true -> ex_method st opname k m = Some m' ->
  request_of [] m = Some r ->
  (forall c, lookup opname (ex_vars st) = Some c -> lookup c C = Some (fst (fst (fst r)))) ->
  request_of C m' = Some r.
Proof. exact extract_request_unchanged. Qed.
Print Assumptions C15_request_unchanged_extract_partial.

(* ---- ... and composed through the WHOLE pipeline, for every plugin list with ExtractOperations configured at
        most once and freshly constructed: every method of the generated package sends what the unplugged method
        sends, the document being resolved through the operations module that was written
        [full; hypotheses: std_body of the unplugged methods, distinct constant names] ---- *)
Theorem C15_request_unchanged : forall ps u p,
  List.length (estates ps) <= 1 -> init_ok ps ->
  Forall (fun o => std_body (uo_method o) = true) (u_ops u) ->
  NoDup (map const_name (map uo_name (u_ops u))) ->
  generate ps u = Some p ->
  map (request_of (List.concat (pk_operations p))) (cm_methods (pk_client p)) =
  map op_req (u_ops u) ++ map (request_of (List.concat (pk_operations p))) (cm_methods (u_client u)).
Proof. exact request_unchanged_package. Qed.
Print Assumptions C15_request_unchanged.

(* ---- ClientForwardRefs: annotations keep their denotation [full]; only names imported from the package are
        turned into strings [full]; every deferred import names the module the unplugged client imported the name
        from [full] (was refuted on the tree before /repo 7b86743 — finding F24, fixed; regression Examples below) ---- *)
Theorem C15_forward_refs_denotation : forall ic a, denote (fst (fr_ann ic a)) = denote a.
Proof. exact forward_refs_denotation. Qed.
Print Assumptions C15_forward_refs_denotation.

Theorem C15_forward_refs_only_local_names : forall ic a n,
  In n (snd (fr_ann ic a)) -> exists src, lookup n ic = Some src.
Proof. exact fr_ann_names_local. Qed.

Theorem C15_forward_refs_sources : forall imports n from,
  lookup n (fr_imported imports) = Some from ->
  exists i, In i imports /\ In n (i_names i) /\
            (i_level i = 1 -> starts_with_dot (i_module i) = false -> src_of 1 from = src_of (i_level i) (i_module i)).
Proof. exact forward_refs_sources. Qed.
Print Assumptions C15_forward_refs_sources.

Theorem C15_forward_refs_sources_dotted : forall imports n from,
  lookup n (fr_imported imports) = Some from ->
  exists i, In i imports /\ In n (i_names i) /\
            (forall m, i_level i = 0 -> i_module i = ("." ++ m)%string -> starts_with_dot m = false ->
                       src_of 1 from = src_of (i_level i) (i_module i)).
Proof. exact forward_refs_sources_dotted. Qed.
Print Assumptions C15_forward_refs_sources_dotted.

(* ---- ClientForwardRefs keeps every EVALUATED name bound [full; hypothesis: subscript heads are not package imports,
        checked by the tie on every generated client]: names and heads the `def` statements evaluate keep their
        global import, the validated class keeps it or gets the import placed in the method ---- *)
Theorem C15_forward_refs_bound : forall c c',
  fr_client c = Some c' ->
  (forall m h, In m (cm_methods c) -> In h (sig_heads m) -> lookup h (fr_imported (cm_imports c)) = None) ->
  forall m', In m' (cm_methods c') ->
  exists m, In m (cm_methods c) /\
    (forall n, In n (sig_eval m') -> imported (cm_imports c) n -> imported (cm_imports c') n) /\
    (forall cls, fr_last_class (m_body m) = Some cls -> imported (cm_imports c) cls ->
       imported (cm_imports c') cls \/ exists from, In (SImport 1 from cls) (m_body m')).
Proof. exact forward_refs_bound. Qed.
Print Assumptions C15_forward_refs_bound.

(* ---- order dependence as a theorem: on a string annotation ShorterResults is the identity, whatever the class
        dictionary [full] ---- *)
Theorem C15_shorter_noop_after_forward_refs : forall st m,
  (exists s, m_returns m = Some (AConst s)) \/ (exists h s, m_returns m = Some (ASub h [AConst s])) ->
  sh_method st m = Some (st, m).
Proof. exact shorter_noop_on_string_annotations. Qed.
Print Assumptions C15_shorter_noop_after_forward_refs.

(* ---- reserved names (arguments.py loop + ExtractOperations.process_name, /repo edeb7cc) [full]: the names handed
        out are fresh w.r.t. the reserved set and pairwise distinct; with the plugin's hook NO argument is ever named
        like an extracted constant (the former finding C15-extract-constant-shadowed cannot occur); outside that
        class the hook changes no name ---- *)
Theorem C15_reserved_names_fresh : forall hook processed used n,
  In n (assign_names hook used processed) -> mem n used = false.
Proof. exact assign_names_fresh. Qed.
Print Assumptions C15_reserved_names_fresh.

Theorem C15_reserved_names_distinct : forall hook processed used, NoDup (assign_names hook used processed).
Proof. exact assign_names_nodup. Qed.

Theorem C15_arguments_never_named_like_constants : forall st used processed n,
  (forall c, In c (ex_constants st) -> exists op, c = const_name op) ->
  In n (assign_names (ex_process_name st) used processed) -> mem n (ex_constants st) = false.
Proof. exact names_avoid_constants. Qed.
Print Assumptions C15_arguments_never_named_like_constants.

Theorem C15_recorded_constants_are_const_names : forall st op c,
  (forall c0, In c0 (ex_constants st) -> exists o, c0 = const_name o) ->
  In c (ex_constants (ex_record st op)) -> exists o, c = const_name o.
Proof. exact ex_record_constants. Qed.

Theorem C15_process_name_identity_outside_class : forall st used processed,
  (forall p, In p processed -> mem p (ex_constants st) = false) ->
  assign_names (ex_process_name st) used processed = assign_names (fun s => s) used processed.
Proof. intros. eapply process_name_id_outside_class; eauto. Qed.
Print Assumptions C15_process_name_identity_outside_class.

(* regression example of the former finding: query Find($FIND_GQL: String, $other: Int) and a variable gql *)
Example C15_reserved_names_regression :
  assign_names (avoid_all ["FIND_GQL"; "COUNT_GQL"]) ["self"; "kwargs"; "gql"; "UNSET"; "Find"] ["FIND_GQL"; "other"; "gql"; "Find"]
    = ["FIND_GQL_"; "other"; "gql_"; "Find_"] /\
  assign_names (fun s => s) ["self"; "kwargs"; "gql"; "UNSET"; "Find"] ["FIND_GQL"; "other"] = ["FIND_GQL"; "other"].
Proof. vm_compute. split; reflexivity. Qed.

(* ---- a concrete package: witnesses, non-vacuity, order dependence ---- *)
Definition P (n : string) (a : ann) : param := {| p_name := n; p_ann := Some a; p_default := None |}.
Definition mini_method : pmethod :=
  {| m_name := "get_me"; m_async := true; m_params := [P "f" (ASub "Optional" [AName "Filter"])]; m_tail := "**kwargs: Any";
     m_returns := Some (AName "GetMe");
     m_body := [SQuery "query" "query GetMe { me { id } }"; SVars "variables = {}";
                SExec (QVar "query") "GetMe" "response = await self.execute(..)"; SData "data = self.get_data(response)";
                SReturn (RValidate "GetMe")] |}.
Definition mini : upackage :=
  {| u_ops := [{| uo_name := "GetMe"; uo_kind := KQuery; uo_str := "query GetMe { me { id } }";
                  uo_classes := [{| c_name := "GetMe"; c_bases := ["BaseModel"];
                                    c_fields := [("me", ASub "Optional" [AName """GetMeMe"""])] |};
                                 {| c_name := "GetMeMe"; c_bases := ["BaseModel"]; c_fields := [("id", AName "str")] |}];
                  uo_imports := [{| i_level := 0; i_module := "typing"; i_names := ["Optional"] |}];
                  uo_method := mini_method |}];
     u_fragment_classes := [];
     u_client := {| cm_imports := [{| i_level := 0; i_module := "typing"; i_names := ["Any"; "Optional"] |};
                                   {| i_level := 1; i_module := "async_base_client"; i_names := ["AsyncBaseClient"] |};
                                   {| i_level := 1; i_module := "input_types"; i_names := ["Filter"] |};
                                   {| i_level := 1; i_module := "get_me"; i_names := ["GetMe"] |}];
                    cm_tc := []; cm_class := "Client"; cm_bases := ["AsyncBaseClient"]; cm_methods := [] |};
     u_init := {| in_imports := [{| i_level := 1; i_module := "get_me"; i_names := ["GetMe"; "GetMeMe"] |}];
                  in_all := ["GetMe"; "GetMeMe"] |} |}.
Definition S0 := PShorter {| sh_fragments_module := "fragments"; sh_classes := []; sh_imported := []; sh_extended := [] |}.
Definition E0 := PExtract {| ex_module := "operations"; ex_gqls := []; ex_vars := []; ex_written := false |}.

Definition first_method (p : option package) : option pmethod :=
  match p with Some pk => hd_error (cm_methods (pk_client pk)) | None => None end.
Definition consts (p : option package) : list (string * string) :=
  match p with Some pk => List.concat (pk_operations pk) | None => [] end.

(* all four (+ identity) together: the hypotheses of the theorems above are met by a real run of the pipeline,
   the request is the unplugged one, the value is the projection, the import is deferred to the right module *)
Example C15_all_plugins_example :
  let p := generate [S0; E0; PIdentity; PForward; PNoReimports] mini in
  option_map (request_of (consts p)) (first_method p) = Some (request_of [] mini_method) /\
  option_map result_expr (first_method p) = Some (Some (RAttr (RValidate "GetMe") "me")) /\
  option_map m_returns (first_method p) = Some (Some (ASub "Optional" [AConst "GetMeMe"])) /\
  option_map (fun m => hd_error (m_body m)) (first_method p) = Some (Some (SImport 1 "get_me" "GetMe")) /\
  option_map pk_init p = Some None /\
  consts p = [("GET_ME_GQL", "query GetMe { me { id } }")] /\
  std_body mini_method = true.
Proof. vm_compute. repeat split. Qed.

(* the hypotheses of C15_request_unchanged are met by that run *)
Example C15_request_unchanged_hypotheses :
  let ps := [S0; E0; PIdentity; PForward; PNoReimports] in
  List.length (estates ps) = 1 /\ init_ok ps /\
  Forall (fun o => std_body (uo_method o) = true) (u_ops mini) /\
  NoDup (map const_name (map uo_name (u_ops mini))) /\
  (exists p, generate ps mini = Some p) /\
  map op_req (u_ops mini) = [Some ("query GetMe { me { id } }", "GetMe", "response = await self.execute(..)", "variables = {}")].
Proof.
  cbv zeta. split; [reflexivity|].
  split; [intros st0 Hin; vm_compute in Hin; destruct Hin as [<-|[]]; repeat split|].
  split; [repeat constructor|].
  split; [repeat constructor; intros []|].
  split; [eexists; vm_compute; reflexivity|vm_compute; reflexivity].
Qed.

(* regression examples for finding F24 (fixed by /repo 7b86743): the deferred import is `from .get_me import
   GetMe` — one dot — and TYPE_CHECKING is imported from the absolute module `typing` (level 0), both in the
   method body and in the TYPE_CHECKING block *)
Example C15_forward_refs_regression_F24 :
  let p := generate [PForward] mini in
  option_map (fun m => hd_error (m_body m)) (first_method p) = Some (Some (SImport 1 "get_me" "GetMe")) /\
  src_of 1 "get_me" = ".get_me" /\
  option_map (fun pk => existsb (fun i => Nat.eqb (i_level i) 0 && String.eqb (i_module i) "typing"
                                          && mem "TYPE_CHECKING" (i_names i))
                                (cm_imports (pk_client pk))) p = Some true /\
  option_map (fun pk => existsb (fun i => Nat.eqb (i_level i) 1 && String.eqb (i_module i) "typing")
                                (cm_imports (pk_client pk))) p = Some false /\
  option_map (fun pk => map (fun i => src_of (i_level i) (i_module i)) (cm_tc (pk_client pk))) p
    = Some [".input_types"; ".get_me"].
Proof. vm_compute. repeat split. Qed.

(* order matters (documented model behaviour, not a defect): after ClientForwardRefs the return annotation is a
   string constant, so a ShorterResults placed later leaves every method alone *)
Example C15_order_dependence :
  option_map result_expr (first_method (generate [PForward; S0] mini)) = Some (Some (RValidate "GetMe")) /\
  option_map result_expr (first_method (generate [S0; PForward] mini)) = Some (Some (RAttr (RValidate "GetMe") "me")).
Proof. vm_compute. split; reflexivity. Qed.

(* ShorterResults counts a field selected both directly and through a fragment twice: the result object has ONE
   attribute, yet the method is not shortened (the README's "all methods with a single field" is not met) *)
Definition dup_classes : list (string * pclass) :=
  [("QF", {| c_name := "QF"; c_bases := ["BaseModel"]; c_fields := [("me", AName "str")] |});
   ("Dup", {| c_name := "Dup"; c_bases := ["QF"]; c_fields := [("me", AName "str")] |})].
Theorem C15_shorter_completeness_refuted :
  exists st m, sh_method st m = Some (st, m) /\
               option_map (fun fs => dedup (map fst fs))
                          (option_bind (lookup "Dup" (sh_classes st)) (all_fields 3 (sh_classes st))) = Some ["me"].
Proof.
  exists {| sh_fragments_module := "fragments"; sh_classes := dup_classes; sh_imported := []; sh_extended := [] |},
         {| m_name := "dup"; m_async := true; m_params := []; m_tail := ""; m_returns := Some (AName "Dup");
            m_body := [SReturn (RValidate "Dup")] |}.
  vm_compute. split; reflexivity.
Qed.

(* regression example for finding C15-forward-refs-custom-operations (fixed by /repo 91a5368): with
   enable_custom_operations the client has `return self.get_data(response)`; the plugin used to look `self` up among
   the package imports and raise KeyError (generation failed for every input); it now leaves the method alone *)
Definition custom_ops_client : cmodule :=
  {| cm_imports := cm_imports (u_client mini); cm_tc := []; cm_class := "Client"; cm_bases := ["AsyncBaseClient"];
     cm_methods := [{| m_name := "execute_custom_operation"; m_async := true; m_params := []; m_tail := "**kwargs: Any";
                       m_returns := Some (ASub "Dict" [AName "str"; AName "Any"]);
                       m_body := [SOther "response = await self.execute(...)";
                                  SReturn (RCallOn "self" "self.get_data(response)")] |}] |}.
Example C15_forward_refs_regression_custom_operations :
  option_map cm_methods (fr_client custom_ops_client) = Some (cm_methods custom_ops_client) /\
  option_map (fun c => map (fun i => src_of (i_level i) (i_module i)) (cm_imports c)) (fr_client custom_ops_client)
    = Some ["typing"; ".async_base_client"; ".input_types"; ".get_me"].
Proof. vm_compute. split; reflexivity. Qed.

(* the hypothesis of C15_forward_refs_bound holds for the example client (heads Optional are imported from typing) *)
Example C15_forward_refs_bound_hypothesis :
  let c := with_imports_methods (u_client mini) (cm_imports (u_client mini)) [mini_method] in
  forallb (fun m => forallb (fun h => match lookup h (fr_imported (cm_imports c)) with None => true | Some _ => false end)
                            (sig_heads m)) (cm_methods c) = true /\
  sig_heads mini_method = ["Optional"] /\ fr_client c <> None.
Proof. vm_compute. repeat split. discriminate. Qed.

(* regression example for finding C15-forward-refs-empty-type-checking-block (fixed by /repo c4f3669): ShorterResults
   turns every return annotation into a builtin (`int`), ClientForwardRefs has no name to put under TYPE_CHECKING; it
   used to emit the block without a body (generation crashed in the formatter), now it emits neither the block nor
   the TYPE_CHECKING import.  One operation `query item { item }` on `item: Int`. *)
Definition scalar_only : upackage :=
  {| u_ops := [{| uo_name := "item"; uo_kind := KQuery; uo_str := "query item { item }";
                  uo_classes := [{| c_name := "Item"; c_bases := ["BaseModel"]; c_fields := [("item", ASub "Optional" [AName "int"])] |}];
                  uo_imports := [{| i_level := 0; i_module := "typing"; i_names := ["Optional"] |}];
                  uo_method := {| m_name := "item"; m_async := true; m_params := []; m_tail := "**kwargs: Any";
                                  m_returns := Some (AName "Item");
                                  m_body := [SQuery "query" "query item { item }"; SVars "variables = {}";
                                             SExec (QVar "query") "item" "response = await self.execute(..)";
                                             SData "data = self.get_data(response)"; SReturn (RValidate "Item")] |} |}];
     u_fragment_classes := [];
     u_client := {| cm_imports := [{| i_level := 0; i_module := "typing"; i_names := ["Any"; "Optional"] |};
                                   {| i_level := 1; i_module := "async_base_client"; i_names := ["AsyncBaseClient"] |};
                                   {| i_level := 1; i_module := "item"; i_names := ["Item"] |}];
                    cm_tc := []; cm_class := "Client"; cm_bases := ["AsyncBaseClient"]; cm_methods := [] |};
     u_init := {| in_imports := []; in_all := [] |} |}.
Example C15_forward_refs_regression_empty_block :
  option_map (fun p => cm_tc (pk_client p)) (generate [S0; PForward] scalar_only) = Some [] /\
  option_map (fun p => existsb (fun i => mem "TYPE_CHECKING" (i_names i)) (cm_imports (pk_client p)))
             (generate [S0; PForward] scalar_only) = Some false /\
  option_map (fun p => map m_returns (cm_methods (pk_client p))) (generate [S0; PForward] scalar_only)
    = Some [Some (ASub "Optional" [AName "int"])] /\
  generate [PForward] scalar_only <> None /\ generate [S0] scalar_only <> None.
Proof. vm_compute. repeat split; discriminate. Qed.
