(* C01 — Result models accept and preserve every conformant response.  Property theorems only. *)
From Coq Require Import List String Ascii Bool ZArith.
From AC Require Import Base.Strs Base.Sexp Base.Json Gql.Schema Gql.Exec Py.Ann Py.Pydantic
     Model.Names Model.Results Proofs.ResultsP.
Import ListNotations.
Local Open Scope string_scope.
Local Open Scope list_scope.

(* ---- full statements: sels/frs are the document the client SENDS ---- *)
Definition C01_accepts_full : Prop :=
  forall fuel C S frs kind name mixins sels root cls j,
    root_type_name S kind = Ok root ->
    all_classes fuel C S frs (DOp kind name mixins sels) = Ok cls ->
    conf_op fuel S frs root sels j = true ->
    accepts fuel cls (schema_enums S) (AClass (pascal_s name)) j = true.

Definition C01_preserves_full : Prop :=
  forall fuel C S frs kind name mixins sels root cls j,
    root_type_name S kind = Ok root ->
    all_classes fuel C S frs (DOp kind name mixins sels) = Ok cls ->
    conf_op fuel S frs root sels j = true ->
    covers fuel cls (AClass (pascal_s name)) j = true.

(* ---- proved: every nullability / list wrapper, at any depth ---- *)
Theorem C01_wrappers_accept :
  forall clsacc enums leaf,
    (forall n a, leaf n = Some a -> acc_ann clsacc enums a JNull = false) ->
    forall t a j, wf_gtype t = true -> image_of leaf t = Some a ->
      conf clsacc enums leaf t j -> acc_ann clsacc enums a j = true.
Proof. intros c e l H t a j Hw Hi Hc. apply (wrap_accepts c e l H t a j Hw Hi). exact Hc. Qed.
Print Assumptions C01_wrappers_accept.

(* ---- proved: at an abstract position every runtime type is in the typename literal of exactly
        one generated class ---- *)
Theorem C01_typename_partition :
  forall S rel a,
    find (fun n => match lookup_type S n with Some d => is_abstract d | None => false end)
         (map r_type rel) = Some a ->
    ~ In a (possible_types S a) ->
    forall rt, In rt (possible_types S a) ->
      (exists tn, In tn (map r_type rel) /\ In rt (typename_values S rel tn)) /\
      (forall t1 t2, In t1 (map r_type rel) -> In t2 (map r_type rel) ->
         In rt (typename_values S rel t1) -> In rt (typename_values S rel t2) -> t1 = t2).
Proof. exact typename_partition. Qed.
Print Assumptions C01_typename_partition.

(* ---- refutations on the faithful model: the witnesses are the examples of known_findings/C01.json ---- *)
Definition C0 : cfg := {| cf_snake := true; cf_scalars := [] |}.
Definition std := [("Int", DScalar); ("String", DScalar); ("ID", DScalar); ("Boolean", DScalar)].

(* F3: @include on an inline fragment leaves its fields required *)
Definition S3 : schema :=
  {| s_types := [("Query", DObject [] [("a", TNamed "A")]); ("A", DObject [] [("x", TNonNull (TNamed "Int"))])] ++ std;
     s_query := Some "Query"; s_mutation := None; s_subscription := None |}.
Theorem C01_accepts_refuted_conditional_fragment : ~ C01_accepts_full.
Proof.
  intro H.
  specialize (H 30 C0 S3 [] "query" "Q" []
                [SField None "a" false [] (Some [SInline (Some "A") true [SField None "x" false [] None]])]
                "Query" _ (JObj [("a", JObj [])]) eq_refl eq_refl eq_refl).
  vm_compute in H. discriminate.
Qed.
Print Assumptions C01_accepts_refuted_conditional_fragment.

(* F27: a composite field selected directly and through a mixin fragment is not merged *)
Definition S27 : schema :=
  {| s_types := [("Query", DObject [] [("b", TNamed "B")]); ("B", DObject [] [("a", TNamed "A")]);
                 ("A", DObject [] [("x", TNamed "Int"); ("y", TNamed "Int")])] ++ std;
     s_query := Some "Query"; s_mutation := None; s_subscription := None |}.
Definition F27 : fragdef :=
  {| fr_name := "F"; fr_on := "B"; fr_mixins := [];
     fr_sel := [SField None "a" false [] (Some [SField None "y" false [] None])] |}.
Theorem C01_preserves_refuted_unmerged_field : ~ C01_preserves_full.
Proof.
  intro H.
  specialize (H 30 C0 S27 [F27] "query" "Q" []
                [SField None "b" false [] (Some [SField None "a" false [] (Some [SField None "x" false [] None]);
                                                 SSpread "F" false])]
                "Query" _ (JObj [("b", JObj [("a", JObj [("x", JInt 1); ("y", JInt 2)])])]) eq_refl eq_refl eq_refl).
  vm_compute in H. discriminate.
Qed.
Print Assumptions C01_preserves_refuted_unmerged_field.

(* F4: a type condition on another interface at an abstract position is dropped *)
Definition S4 : schema :=
  {| s_types := [("Query", DObject [] [("node", TNamed "Node")]);
                 ("Node", DInterface [] [("id", TNonNull (TNamed "ID"))]);
                 ("Animal", DInterface [] [("name", TNamed "String")]);
                 ("Dog", DObject ["Node"; "Animal"] [("id", TNonNull (TNamed "ID")); ("name", TNamed "String")])] ++ std;
     s_query := Some "Query"; s_mutation := None; s_subscription := None |}.
Theorem C01_preserves_refuted_foreign_condition : ~ C01_preserves_full.
Proof.
  intro H.
  specialize (H 30 C0 S4 [] "query" "Q" []
                [SField None "node" false []
                   (Some [SField None "__typename" false [] None;
                          SInline (Some "Animal") false [SField None "name" false [] None]])]
                "Query" _
                (JObj [("node", JObj [("__typename", JStr "Dog"); ("name", JStr "Rex")])])
                eq_refl eq_refl eq_refl).
  vm_compute in H. discriminate.
Qed.
Print Assumptions C01_preserves_refuted_foreign_condition.

(* ---- non-vacuity: a nested, aliased, abstract selection that IS accepted and covered ---- *)
Example C01_full_hypotheses_satisfiable :
  exists cls,
    all_classes 30 C0 S4 [] (DOp "query" "Q" []
       [SField (Some "n") "node" false []
          (Some [SField None "__typename" false [] None; SField None "id" false [] None;
                 SInline (Some "Dog") false [SField (Some "petName") "name" false [] None]])]) = Ok cls /\
    let j := JObj [("n", JObj [("__typename", JStr "Dog"); ("id", JStr "1"); ("petName", JStr "Rex")])] in
    conf_op 30 S4 [] "Query"
       [SField (Some "n") "node" false []
          (Some [SField None "__typename" false [] None; SField None "id" false [] None;
                 SInline (Some "Dog") false [SField (Some "petName") "name" false [] None]])] j = true /\
    accepts 30 cls (schema_enums S4) (AClass "Q") j = true /\ covers 30 cls (AClass "Q") j = true.
Proof. eexists. split; [vm_compute; reflexivity|]. vm_compute. repeat split. Qed.
