(* C01 — Result models accept and preserve every conformant response.  Property theorems only. *)
From Coq Require Import List String Ascii Bool ZArith.
From AC Require Import Base.Strs Base.Sexp Base.Json Gql.Schema Gql.Exec Py.Ann Py.Pydantic
     Model.Names Model.Results Proofs.ResultsP Proofs.ResultsRunP Proofs.ResultsAbsP Proofs.ResultsObjP Proofs.ResultsMixP Proofs.ResultsMixCovP.
Import ListNotations.
Local Open Scope string_scope.
Local Open Scope list_scope.

(* ---- full statements: sels/frs are the document the client SENDS ---- *)
Definition C01_accepts_full : Prop :=
  forall fuel C S frs kind name mixins sels root cls j,
    root_type_name S kind = Ok root ->
    all_classes fuel C S frs (DOp kind name mixins sels) = Ok cls ->
    conf_op fuel S frs root sels j = true ->
    accepts fuel cls (schema_enums S) (AClass (pascal_s name)) j = true.

Definition C01_preserves_full : Prop :=
  forall fuel C S frs kind name mixins sels root cls j,
    root_type_name S kind = Ok root ->
    all_classes fuel C S frs (DOp kind name mixins sels) = Ok cls ->
    conf_op fuel S frs root sels j = true ->
    covers fuel cls (AClass (pascal_s name)) j = true.

(* ---- proved (object-level refinement, sub-language op_ok): selection sets of fields (aliases,
        @skip/@include flags, __typename), unconditional inline fragments and unpacked fragment spreads
        whose type condition is the object type itself or one of its interfaces / unions (exactly those
        that resolve and collect flatten alike: flatten, C01_flattenings_agree), leaf fields of scalar /
        enum type, composite fields of OBJECT type and (with cov = true) of INTERFACE / UNION type (abs_ok:
        __typename selected directly, inline fragments only, every possible runtime type's variant again
        in the sub-language) nested to any depth, any list / non-null wrappers;
        pairwise distinct response keys per flattened selection set — for acceptance alone (cov = false,
        keys_okD) a key may REPEAT among leaf selections of one field, directly or through fragments: the
        generator does not merge, the class body's last definition wins and all of them carry the same
        annotation (C01_repeated_leaf_key_accepted; a repeated COMPOSITE key is finding F27) —; no Python field name (when it differs from its response key) equal to another
        response key of the same set.  Ghost-output guards: no class skipped by the _public_names check
        (third component of op_parse = false), no generated class called BaseModel.
        The classes are all_classes' (operation module + fragments module).
        @mixin directives (on the operation and on fields with a sub-selection) put extra base classes after
        BaseModel; mx lists their names, none of which may be a class of the table (mx_ok: such a base
        contributes no pydantic field the model knows of).  mx = [] and mixins = [] is the case without @mixin.
        Fuel: conformance at ANY fuel fc; validation at every fuel n >= fuel + 2 (the generator's fuel). ---- *)
Theorem C01_accepts_partial :
  forall C S frs fuel kind name mixins sels root own pub' cls g cov mx fc j n,
    root_type_name S kind = Ok root ->
    op_parse fuel C S frs kind name mixins sels = Ok (own, pub', false) ->
    all_classes fuel C S frs (DOp kind name mixins sels) = Ok cls ->
    op_ok g cov C S frs mx mixins root sels = true -> mx_ok cls mx = true -> no_basemodel own = true ->
    conf_op fc S frs root sels j = true ->
    n >= fuel + 2 ->
    accepts n cls (schema_enums S) (AClass (pascal_s name)) j = true.
Proof. exact op_accepts. Qed.
Print Assumptions C01_accepts_partial.

(* preservation: additionally pairwise distinct Python field names per selection set (op_ok _ true) and
   a payload in which no object repeats a key (jwf; true of every parsed JSON document) *)
Theorem C01_preserves_partial :
  forall C S frs fuel kind name mixins sels root own pub' cls g mx fc j n,
    root_type_name S kind = Ok root ->
    op_parse fuel C S frs kind name mixins sels = Ok (own, pub', false) ->
    all_classes fuel C S frs (DOp kind name mixins sels) = Ok cls ->
    op_ok g true C S frs mx mixins root sels = true -> mx_ok cls mx = true -> no_basemodel own = true ->
    conf_op fc S frs root sels j = true -> jwf j = true ->
    n >= fuel + 2 ->
    covers n cls (AClass (pascal_s name)) j = true.
Proof. exact op_covers. Qed.
Print Assumptions C01_preserves_partial.

(* ---- proved: acceptance with fragment spreads used as MIXIN base classes (sub-language op_okM =
        op_ok + spreads the generator turns into base classes: unconditional, fragment on the same type,
        the fragment's @mixin names in mx, the fragment's own selection set again in the sub-language, mixins of
        mixins to any depth; the response keys of the whole object — own fields and all inherited ones —
        pairwise distinct and disjoint from the aliased Python names).  Ghost-output guards on all_classes'
        table: class names pairwise distinct, none called BaseModel, no skip in the operation's and in any
        fragment's generation.  Validation fuel n >= F + g + 2 (F: generator fuel, g: the guard's fuel, which
        bounds nesting and mixin depth). ---- *)
Theorem C01_accepts_partial_mixins :
  forall C S frs F kind name mixins sels root own pub' cls g cov mx fc j n,
    root_type_name S kind = Ok root ->
    op_parse F C S frs kind name mixins sels = Ok (own, pub', false) ->
    all_classes F C S frs (DOp kind name mixins sels) = Ok cls ->
    op_okM g cov C S frs mx mixins root sels = true -> mx_ok cls mx = true ->
    nodupb (map c_name cls) = true -> no_basemodel cls = true -> frag_no_skip F C S frs = true ->
    conf_op fc S frs root sels j = true ->
    n >= F + g + 2 ->
    accepts n cls (schema_enums S) (AClass (pascal_s name)) j = true.
Proof. exact op_accepts_mix. Qed.
Print Assumptions C01_accepts_partial_mixins.

(* preservation with mixin base classes: cov = true (pairwise distinct Python names over the whole
   object), a payload without repeated keys; op_okM contains reach_ok: every resolved mixin is a listed
   base or inherited through a listed one (what _remove_inherited_fragments relies on; true of every
   document whose fragments do not spread each other cyclically) *)
Theorem C01_preserves_partial_mixins :
  forall C S frs F kind name mixins sels root own pub' cls g mx fc j n,
    root_type_name S kind = Ok root ->
    op_parse F C S frs kind name mixins sels = Ok (own, pub', false) ->
    all_classes F C S frs (DOp kind name mixins sels) = Ok cls ->
    op_okM g true C S frs mx mixins root sels = true -> mx_ok cls mx = true ->
    nodupb (map c_name cls) = true -> no_basemodel cls = true -> frag_no_skip F C S frs = true ->
    conf_op fc S frs root sels j = true -> jwf j = true ->
    n >= F + g + 2 ->
    covers n cls (AClass (pascal_s name)) j = true.
Proof. exact op_covers_mix. Qed.
Print Assumptions C01_preserves_partial_mixins.

(* per class, with everything it inherits (mro_fields) *)
Theorem C01_class_with_mixins_accepts :
  forall C S frs F cls cov mx,
    mx_ok cls mx = true -> NoDup (map c_name cls) -> no_basemodel cls = true ->
    (forall fm, In fm frs -> unpack_fragment S fm None = false ->
       exists out pub', parse_type_def F C S frs [] (pascal_s (fr_name fm)) (fr_on fm) (fr_sel fm) false
                                        (fr_mixins fm) None = Ok (out, pub', false) /\ incl out cls) ->
    forall g fuel pub cn rt r sels at_ eb tv top out pub' k l N kv fc,
      fuel <= F -> parse_type_def fuel C S frs pub cn r sels at_ eb tv = Ok (out, pub', false) ->
      sels_okM g cov C S frs mx top at_ rt r sels = true -> tv_ok rt tv ->
      (at_ = true -> has_typename sels = true) -> table_ok cls out -> harmless cls eb ->
      collect k S frs rt false sels = Some l -> incl l N -> amb C S frs N rt kv fc ->
      class_good S F cls g cn kv.
Proof. exact mix_main. Qed.
Print Assumptions C01_class_with_mixins_accepts.

(* the same at the level of one generated class (any nesting depth below it), for any class table that
   resolves the generated names to the generated classes *)
Theorem C01_object_accepts :
  forall C S frs fuel g cov mx pub cn rt r sels at_ eb tv out pub' cs fc kv n,
    parse_type_def fuel C S frs pub cn r sels at_ eb tv = Ok (out, pub', false) ->
    sels_ok g cov C S frs mx at_ rt r sels = true -> tv_ok rt tv ->
    (at_ = true -> has_typename sels = true) -> table_ok cs out ->
    mx_ok cs mx = true -> harmless cs eb ->
    conf_obj_with (conf_val fc S frs) S rt (collect_scopes fc S frs rt [(false, sels)]) kv = true ->
    n >= fuel + 2 ->
    accepts n cs (schema_enums S) (AClass cn) (JObj kv) = true.
Proof. exact obj_accepts. Qed.
Print Assumptions C01_object_accepts.

Theorem C01_object_covers :
  forall C S frs fuel g mx pub cn rt r sels at_ eb tv out pub' cs fc kv n,
    parse_type_def fuel C S frs pub cn r sels at_ eb tv = Ok (out, pub', false) ->
    sels_ok g true C S frs mx at_ rt r sels = true -> tv_ok rt tv ->
    (at_ = true -> has_typename sels = true) -> table_ok cs out ->
    mx_ok cs mx = true -> harmless cs eb ->
    conf_obj_with (conf_val fc S frs) S rt (collect_scopes fc S frs rt [(false, sels)]) kv = true ->
    jwf (JObj kv) = true ->
    n >= fuel + 2 ->
    covers n cs (AClass cn) (JObj kv) = true.
Proof. exact obj_covers. Qed.
Print Assumptions C01_object_covers.

(* the ingredient for abstract positions: among the classes generated for the related types of an
   interface / union typed field, the discriminated union picks the class of the variant of the runtime
   type (the one related type whose typename literal contains it) *)
Theorem C01_variant_literal :
  forall S base sub rel rt,
    (exists ifs fs, lookup_type S base = Some (DInterface ifs fs)) \/
    (exists ms, lookup_type S base = Some (DUnion ms) /\ forallb (is_object S) ms = true) ->
    mem base (possible_types S base) = false ->
    map r_type rel = abs_names S base sub ->
    In rt (possible_types S base) ->
    let t0 := variant (abs_names S base sub) base rt in
    In t0 (abs_names S base sub) /\ In rt (typename_values S rel t0) /\
    (forall t, In t (abs_names S base sub) -> In rt (typename_values S rel t) -> t = t0).
Proof. exact tv_variant. Qed.
Print Assumptions C01_variant_literal.

Theorem C01_union_picks_variant :
  forall (mro : string -> option (list pfield)) (cname : string -> string)
         (tvs : string -> list string) names rt t0,
    In t0 names -> In rt (tvs t0) ->
    (forall t, In t names -> In rt (tvs t) -> t = t0) ->
    (forall t, In t names -> exists pfl, mro (cname t) = Some pfl /\
         forall pf vs, In pf pfl -> p_ann pf = ALit vs -> vs = sort_strings (tvs t)) ->
    (exists pfl0, mro (cname t0) = Some pfl0 /\
         typename_literal (last_wins pfl0) = Some (sort_strings (tvs t0))) ->
    union_pick mro (map (fun t => AClass (cname t)) names) rt = Some (AClass (cname t0)).
Proof. exact union_pick_variant. Qed.
Print Assumptions C01_union_picks_variant.

(* without a skipped class the generated class names are pairwise distinct (so the class table of the
   module resolves every generated name to the class generated for it) *)
Theorem C01_class_names_distinct :
  forall C S frs fuel cn tn sels at_ eb tv out pub',
    parse_type_def fuel C S frs [] cn tn sels at_ eb tv = Ok (out, pub', false) ->
    pub' = map c_name out /\ NoDup (map c_name out).
Proof.
  intros C S frs fuel cn tn sels at_ eb tv out pub' H. apply ptd_names in H. destruct H as [H1 H2].
  simpl in H1. split; [exact H1 | rewrite <- H1; apply H2; constructor].
Qed.
Print Assumptions C01_class_names_distinct.

(* the generator's _resolve_selection_set (against root r) and the executor's CollectFields (runtime
   object type rt) flatten a selection set accepted by [flatten] to the same field list, with no mixin *)
Theorem C01_flattenings_agree :
  forall S frs rt g r sels fns,
    flatten g S frs rt r sels = Some fns ->
    forall f, f >= g ->
      resolve f S frs false sels r = Ok (fns, []) /\
      collect f S frs rt false sels = Some (map (node_of_fnode false) fns).
Proof. exact flatten_both_ex. Qed.
Print Assumptions C01_flattenings_agree.

(* ---- proved: every nullability / list wrapper, at any depth ---- *)
Theorem C01_wrappers_accept :
  forall clsacc enums leaf,
    (forall n a, leaf n = Some a -> acc_ann clsacc enums a JNull = false) ->
    forall t a j, wf_gtype t = true -> image_of leaf t = Some a ->
      conf clsacc enums leaf t j -> acc_ann clsacc enums a j = true.
Proof. intros c e l H t a j Hw Hi Hc. apply (wrap_accepts c e l H t a j Hw Hi). exact Hc. Qed.
Print Assumptions C01_wrappers_accept.

(* ---- proved: at an abstract position every runtime type is in the typename literal of exactly
        one generated class ---- *)
Theorem C01_typename_partition :
  forall S rel a,
    find (fun n => match lookup_type S n with Some d => is_abstract d | None => false end)
         (map r_type rel) = Some a ->
    ~ In a (possible_types S a) ->
    forall rt, In rt (possible_types S a) ->
      (exists tn, In tn (map r_type rel) /\ In rt (typename_values S rel tn)) /\
      (forall t1 t2, In t1 (map r_type rel) -> In t2 (map r_type rel) ->
         In rt (typename_values S rel t1) -> In rt (typename_values S rel t2) -> t1 = t2).
Proof. exact typename_partition. Qed.
Print Assumptions C01_typename_partition.

(* ---- refutations on the faithful model: the witnesses are the examples of known_findings/C01.json.
        C01_accepts_full itself is still refuted: a conditional __typename at an ABSTRACT position stays a
        required Literal (C01_accepts_refuted_conditional_typename) ---- *)
Definition C0 : cfg := {| cf_snake := true; cf_scalars := [] |}.
Definition std := [("Int", DScalar); ("String", DScalar); ("ID", DScalar); ("Boolean", DScalar)].

(* F3 (repaired in /repo, fixes/C01-conditional-fragments.diff): @include on an inline fragment used to leave
   its fields required; now fields collected under a conditional fragment come out conditional, and the
   former refutation witness is a regression example: the response without the fragment is accepted and
   covered *)
Definition S3 : schema :=
  {| s_types := [("Query", DObject [] [("a", TNamed "A")]); ("A", DObject [] [("x", TNonNull (TNamed "Int"))])] ++ std;
     s_query := Some "Query"; s_mutation := None; s_subscription := None |}.
Example C01_conditional_fragment_regression :
  exists cls,
    all_classes 30 C0 S3 [] (DOp "query" "Q" []
       [SField None "a" false [] (Some [SInline (Some "A") true [SField None "x" false [] None]])]) = Ok cls /\
    conf_op 30 S3 [] "Query"
       [SField None "a" false [] (Some [SInline (Some "A") true [SField None "x" false [] None]])]
       (JObj [("a", JObj [])]) = true /\
    accepts 30 cls (schema_enums S3) (AClass "Q") (JObj [("a", JObj [])]) = true /\
    covers 30 cls (AClass "Q") (JObj [("a", JObj [])]) = true /\
    accepts 30 cls (schema_enums S3) (AClass "Q") (JObj [("a", JObj [("x", JInt 1)])]) = true.
Proof. eexists. split; [vm_compute; reflexivity|]. vm_compute. repeat split. Qed.

(* a conditional spread of a fragment that would otherwise be a mixin base class is unpacked (its fields
   become optional fields of the class), while an unconditional spread of the same fragment elsewhere
   still uses the base class *)
Definition FC : list fragdef :=
  [{| fr_name := "AX"; fr_on := "A"; fr_mixins := []; fr_sel := [SField None "x" false [] None] |}].
Definition S3b : schema :=
  {| s_types := [("Query", DObject [] [("a", TNamed "A"); ("b", TNamed "A")]);
                 ("A", DObject [] [("x", TNonNull (TNamed "Int"))])] ++ std;
     s_query := Some "Query"; s_mutation := None; s_subscription := None |}.
Example C01_conditional_spread_regression :
  exists cls,
    all_classes 30 C0 S3b FC (DOp "query" "Q" []
       [SField None "a" false [] (Some [SSpread "AX" true]);
        SField None "b" false [] (Some [SSpread "AX" false])]) = Ok cls /\
    map c_bases cls = [["BaseModel"]; ["BaseModel"]; ["AX"]; ["BaseModel"]] /\
    accepts 30 cls (schema_enums S3b) (AClass "Q") (JObj [("a", JObj []); ("b", JObj [("x", JInt 1)])]) = true /\
    accepts 30 cls (schema_enums S3b) (AClass "Q") (JObj [("a", JObj []); ("b", JObj [])]) = false.
Proof. eexists. split; [vm_compute; reflexivity|]. vm_compute. repeat split. Qed.

(* F27: a composite field selected directly and through a mixin fragment is not merged *)
Definition S27 : schema :=
  {| s_types := [("Query", DObject [] [("b", TNamed "B")]); ("B", DObject [] [("a", TNamed "A")]);
                 ("A", DObject [] [("x", TNamed "Int"); ("y", TNamed "Int")])] ++ std;
     s_query := Some "Query"; s_mutation := None; s_subscription := None |}.
Definition F27 : fragdef :=
  {| fr_name := "F"; fr_on := "B"; fr_mixins := [];
     fr_sel := [SField None "a" false [] (Some [SField None "y" false [] None])] |}.
Theorem C01_preserves_refuted_unmerged_field : ~ C01_preserves_full.
Proof.
  intro H.
  specialize (H 30 C0 S27 [F27] "query" "Q" []
                [SField None "b" false [] (Some [SField None "a" false [] (Some [SField None "x" false [] None]);
                                                 SSpread "F" false])]
                "Query" _ (JObj [("b", JObj [("a", JObj [("x", JInt 1); ("y", JInt 2)])])]) eq_refl eq_refl eq_refl).
  vm_compute in H. discriminate.
Qed.
Print Assumptions C01_preserves_refuted_unmerged_field.

(* F4: a type condition on another interface at an abstract position is dropped *)
Definition S4 : schema :=
  {| s_types := [("Query", DObject [] [("node", TNamed "Node")]);
                 ("Node", DInterface [] [("id", TNonNull (TNamed "ID"))]);
                 ("Animal", DInterface [] [("name", TNamed "String")]);
                 ("Dog", DObject ["Node"; "Animal"] [("id", TNonNull (TNamed "ID")); ("name", TNamed "String")])] ++ std;
     s_query := Some "Query"; s_mutation := None; s_subscription := None |}.
Theorem C01_preserves_refuted_foreign_condition : ~ C01_preserves_full.
Proof.
  intro H.
  specialize (H 30 C0 S4 [] "query" "Q" []
                [SField None "node" false []
                   (Some [SField None "__typename" false [] None;
                          SInline (Some "Animal") false [SField None "name" false [] None]])]
                "Query" _
                (JObj [("node", JObj [("__typename", JStr "Dog"); ("name", JStr "Rex")])])
                eq_refl eq_refl eq_refl).
  vm_compute in H. discriminate.
Qed.
Print Assumptions C01_preserves_refuted_foreign_condition.

(* F30: a fragment on an interface that itself spreads a fragment on a sub type: the nested spread yields
   neither a variant class nor a field of the base class, so its keys are not covered (but accepted) *)
Definition S30 : schema :=
  {| s_types := [("Query", DObject [] [("named", TNamed "Named")]);
                 ("Named", DInterface [] [("name", TNamed "String")]);
                 ("A", DObject ["Named"] [("name", TNamed "String"); ("x", TNamed "Int")])] ++ std;
     s_query := Some "Query"; s_mutation := None; s_subscription := None |}.
Definition F30 : list fragdef :=
  [{| fr_name := "NF"; fr_on := "Named"; fr_mixins := [];
      fr_sel := [SField None "name" false [] None; SSpread "AF" false] |};
   {| fr_name := "AF"; fr_on := "A"; fr_mixins := []; fr_sel := [SField None "x" false [] None] |}].
Theorem C01_preserves_refuted_subtype_spread : ~ C01_preserves_full.
Proof.
  intro H.
  specialize (H 30 C0 S30 F30 "query" "Q" []
                [SField None "named" false []
                   (Some [SField None "__typename" false [] None; SSpread "NF" false])]
                "Query" _
                (JObj [("named", JObj [("__typename", JStr "A"); ("name", JStr "n"); ("x", JInt 1)])])
                eq_refl eq_refl eq_refl).
  vm_compute in H. discriminate.
Qed.
Print Assumptions C01_preserves_refuted_subtype_spread.

(* the same input IS accepted: only preservation fails *)
Example C01_F30_accepted :
  exists cls,
    all_classes 30 C0 S30 F30 (DOp "query" "Q" []
       [SField None "named" false []
          (Some [SField None "__typename" false [] None; SSpread "NF" false])]) = Ok cls /\
    accepts 30 cls (schema_enums S30) (AClass "Q")
            (JObj [("named", JObj [("__typename", JStr "A"); ("name", JStr "n"); ("x", JInt 1)])]) = true.
Proof. eexists. split; [vm_compute; reflexivity|]. vm_compute. reflexivity. Qed.

(* F31 (repair proposed in fixes/C01-conditional-typename.diff): a __typename under @skip/@include in the
   class of an OBJECT-typed field is Optional with default None like any other conditional field; the
   former witness is a regression example *)
Example C01_conditional_typename_regression :
  exists cls,
    all_classes 30 C0 S3 [] (DOp "query" "Q" []
       [SField None "a" false [] (Some [SField None "__typename" true [] None; SField None "x" false [] None])]) = Ok cls /\
    accepts 30 cls (schema_enums S3) (AClass "Q") (JObj [("a", JObj [("x", JInt 1)])]) = true /\
    covers 30 cls (AClass "Q") (JObj [("a", JObj [("x", JInt 1)])]) = true /\
    accepts 30 cls (schema_enums S3) (AClass "Q") (JObj [("a", JObj [("__typename", JStr "A"); ("x", JInt 1)])]) = true /\
    accepts 30 cls (schema_enums S3) (AClass "Q") (JObj [("a", JObj [("__typename", JStr "B"); ("x", JInt 1)])]) = false.
Proof. eexists. split; [vm_compute; reflexivity|]. vm_compute. repeat split. Qed.

(* what remains of F31: where __typename discriminates (abstract position) it stays a required Literal
   even under @skip/@include — pydantic demands a plain Literal for a discriminator *)
Theorem C01_accepts_refuted_conditional_typename : ~ C01_accepts_full.
Proof.
  intro H.
  specialize (H 30 C0 S30 [] "query" "Q" []
                [SField None "named" false [] (Some [SField None "__typename" true [] None; SField None "name" false [] None])]
                "Query" _ (JObj [("named", JObj [("name", JStr "n")])]) eq_refl eq_refl eq_refl).
  vm_compute in H. discriminate.
Qed.
Print Assumptions C01_accepts_refuted_conditional_typename.

(* F23 (C04, repaired in /repo 568dfd8): at a position of interface type Animal (which implements Node) a
   fragment `... on Node` used to become a variant class for "Node" and its fields were lost for the
   objects; now it is no variant and its fields go into every class.  The selection is inside op_ok. *)
Definition S23 : schema :=
  {| s_types := [("Query", DObject [] [("animal", TNamed "Animal")]);
                 ("Node", DInterface [] [("id", TNonNull (TNamed "ID"))]);
                 ("Animal", DInterface ["Node"] [("id", TNonNull (TNamed "ID")); ("name", TNamed "String")]);
                 ("Dog", DObject ["Node"; "Animal"] [("id", TNonNull (TNamed "ID")); ("name", TNamed "String")])] ++ std;
     s_query := Some "Query"; s_mutation := None; s_subscription := None |}.
Definition sels23 : list sel :=
  [SField None "animal" false []
     (Some [SField None "__typename" false [] None;
            SInline (Some "Node") false [SField None "id" false [] None];
            SField None "name" false [] None])].
Example C01_super_interface_condition_regression :
  exists own pub' cls,
    op_parse 10 C0 S23 [] "query" "Q" [] sels23 = Ok (own, pub', false) /\
    all_classes 10 C0 S23 [] (DOp "query" "Q" [] sels23) = Ok cls /\
    op_ok 10 true C0 S23 [] [] [] "Query" sels23 = true /\ no_basemodel own = true /\
    map c_name cls = ["Q"; "QAnimalAnimal"] /\
    (let j := JObj [("animal", JObj [("__typename", JStr "Dog"); ("id", JStr "1"); ("name", JStr "Rex")])] in
     conf_op 10 S23 [] "Query" sels23 j = true /\
     accepts 12 cls (schema_enums S23) (AClass "Q") j = true /\ covers 12 cls (AClass "Q") j = true).
Proof.
  do 3 eexists.
  split; [vm_compute; reflexivity|].
  split; [vm_compute; reflexivity|].
  vm_compute. repeat split.
Qed.

(* ---- non-vacuity: a nested, aliased, abstract selection that IS accepted and covered ---- *)
Example C01_full_hypotheses_satisfiable :
  exists cls,
    all_classes 30 C0 S4 [] (DOp "query" "Q" []
       [SField (Some "n") "node" false []
          (Some [SField None "__typename" false [] None; SField None "id" false [] None;
                 SInline (Some "Dog") false [SField (Some "petName") "name" false [] None]])]) = Ok cls /\
    let j := JObj [("n", JObj [("__typename", JStr "Dog"); ("id", JStr "1"); ("petName", JStr "Rex")])] in
    conf_op 30 S4 [] "Query"
       [SField (Some "n") "node" false []
          (Some [SField None "__typename" false [] None; SField None "id" false [] None;
                 SInline (Some "Dog") false [SField (Some "petName") "name" false [] None]])] j = true /\
    accepts 30 cls (schema_enums S4) (AClass "Q") j = true /\ covers 30 cls (AClass "Q") j = true.
Proof. eexists. split; [vm_compute; reflexivity|]. vm_compute. repeat split. Qed.

(* ---- non-vacuity of the partial theorems: nested (two levels of objects), aliased, list-wrapped,
        conditional fields, enum, __typename literal, a spread of a fragment on an interface and nested
        inline fragments under @include (flattened, their fields conditional), an interface-typed field with a variant (Node: base class + User class)
        and a union-typed field (Hit = User | Bot) ---- *)
Definition SX : schema :=
  {| s_types := [("Query", DObject [] [("user", TNamed "User");
                                       ("users", TNonNull (TList (TNonNull (TNamed "User"))));
                                       ("nodes", TList (TNamed "Node"));
                                       ("found", TNamed "Hit")]);
                 ("Bot", DObject ["Node"] [("id", TNonNull (TNamed "ID")); ("version", TNamed "Int")]);
                 ("Hit", DUnion ["User"; "Bot"]);
                 ("Node", DInterface [] [("id", TNonNull (TNamed "ID"))]);
                 ("User", DObject ["Node"] [("id", TNonNull (TNamed "ID")); ("fullName", TNamed "String");
                                      ("role", TNonNull (TNamed "Role")); ("address", TNamed "Address");
                                      ("tags", TList (TNamed "String"))]);
                 ("Address", DObject [] [("city", TNonNull (TNamed "String")); ("zip", TNamed "Int")]);
                 ("Role", DEnum ["ADMIN"; "USER"])] ++ std;
     s_query := Some "Query"; s_mutation := None; s_subscription := None |}.
Definition selsX : list sel :=
  [SField (Some "people") "users" false []
     (Some [SField None "__typename" false [] None; SSpread "NodeBits" false;
            SInline (Some "User") true
              [SField (Some "name") "fullName" false [] None;
               SInline (Some "Node") false [SField (Some "nick") "fullName" false [] None]];
            SField None "role" false [] None;
            SField (Some "homeAddress") "address" false []
              (Some [SField None "city" false [] None; SField None "zip" true [] None]);
            SField None "tags" false [] None]);
   SField None "user" true [] (Some [SField None "id" false [] None]);
   SField None "nodes" false []
     (Some [SField None "__typename" false [] None; SField None "id" false [] None;
            SInline (Some "User") false [SField None "role" false [] None]]);
   SField None "found" false []
     (Some [SField None "__typename" false [] None;
            SInline (Some "Bot") false [SField (Some "v") "version" false [] None];
            SInline (Some "User") false [SField None "id" false [] None]])].
Definition frsX : list fragdef :=
  [{| fr_name := "NodeBits"; fr_on := "Node"; fr_mixins := [];
      fr_sel := [SField None "id" false [] None] |}].
Definition jX : json :=
  JObj [("people", JArr [JObj [("__typename", JStr "User"); ("id", JStr "1"); ("role", JStr "ADMIN");
                               ("homeAddress", JObj [("city", JStr "X")]);
                               ("tags", JArr [JStr "a"; JNull])];
                         JObj [("__typename", JStr "User"); ("id", JStr "2"); ("name", JNull);
                               ("role", JStr "USER"); ("homeAddress", JNull); ("tags", JNull)]]);
        ("nodes", JArr [JObj [("__typename", JStr "Bot"); ("id", JStr "b1")];
                        JObj [("__typename", JStr "User"); ("id", JStr "u1"); ("role", JStr "USER")]; JNull]);
        ("found", JObj [("__typename", JStr "Bot"); ("v", JInt 3)])].

Example C01_partial_hypotheses_satisfiable :
  exists own pub' cls,
    root_type_name SX "query" = Ok "Query" /\
    op_parse 10 C0 SX frsX "query" "GetPeople" [] selsX = Ok (own, pub', false) /\
    all_classes 10 C0 SX frsX (DOp "query" "GetPeople" [] selsX) = Ok cls /\
    op_ok 10 true C0 SX frsX [] [] "Query" selsX = true /\ mx_ok cls [] = true /\ no_basemodel own = true /\
    conf_op 10 SX frsX "Query" selsX jX = true /\ jwf jX = true /\
    List.length own = 8 /\
    accepts 11 cls (schema_enums SX) (AClass (pascal_s "GetPeople")) jX = true /\
    covers 11 cls (AClass (pascal_s "GetPeople")) jX = true.
Proof.
  do 3 eexists.
  split; [reflexivity|].
  split; [vm_compute; reflexivity|].      (* instantiates own, pub' *)
  split; [vm_compute; reflexivity|].      (* instantiates cls *)
  vm_compute. repeat split.
Qed.

(* ---- non-vacuity of C01_accepts_partial_mixins: a mixin whose fragment spreads another mixin and
        contains a nested object ---- *)
Definition frsM : list fragdef :=
  [{| fr_name := "UserBits"; fr_on := "User"; fr_mixins := [];
      fr_sel := [SField None "fullName" true [] None; SSpread "UserMore" false] |};
   {| fr_name := "UserMore"; fr_on := "User"; fr_mixins := [];
      fr_sel := [SField (Some "homeAddress") "address" false [] (Some [SField None "city" false [] None])] |}].
Definition selsM : list sel :=
  [SField None "users" false []
     (Some [SField None "__typename" false [] None; SField None "id" false [] None;
            SSpread "UserBits" false; SField None "role" false [] None])].
Definition jM : json :=
  JObj [("users", JArr [JObj [("__typename", JStr "User"); ("id", JStr "1"); ("fullName", JStr "A");
                              ("homeAddress", JObj [("city", JStr "X")]); ("role", JStr "ADMIN")];
                        JObj [("__typename", JStr "User"); ("id", JStr "2");
                              ("homeAddress", JNull); ("role", JStr "USER")]])].

Example C01_mixins_hypotheses_satisfiable :
  exists own pub' cls,
    root_type_name SX "query" = Ok "Query" /\
    op_parse 10 C0 SX frsM "query" "GetUsers" [] selsM = Ok (own, pub', false) /\
    all_classes 10 C0 SX frsM (DOp "query" "GetUsers" [] selsM) = Ok cls /\
    op_okM 10 true C0 SX frsM [] [] "Query" selsM = true /\ mx_ok cls [] = true /\
    nodupb (map c_name cls) = true /\ no_basemodel cls = true /\ frag_no_skip 10 C0 SX frsM = true /\
    conf_op 10 SX frsM "Query" selsM jM = true /\
    map c_bases cls = [["BaseModel"]; ["UserBits"]; ["UserMore"]; ["BaseModel"]; ["BaseModel"]] /\
    jwf jM = true /\
    accepts 22 cls (schema_enums SX) (AClass (pascal_s "GetUsers")) jM = true /\
    covers 22 cls (AClass (pascal_s "GetUsers")) jM = true.
Proof.
  do 3 eexists.
  split; [reflexivity|].
  split; [vm_compute; reflexivity|].
  split; [vm_compute; reflexivity|].
  vm_compute. repeat split.
Qed.

(* ---- non-vacuity with @mixin: on the operation, on a field with a sub-selection and on a fragment that is
        itself used as a mixin base class; none of the three names is a generated class ---- *)
Definition frsMx : list fragdef :=
  [{| fr_name := "UserBits"; fr_on := "User"; fr_mixins := ["FragMixin"];
      fr_sel := [SField None "fullName" true [] None] |}].
Definition selsMx : list sel :=
  [SField None "users" false ["RowMixin"]
     (Some [SField None "id" false [] None; SSpread "UserBits" false;
            SField (Some "homeAddress") "address" false ["AddrMixin"] (Some [SField None "city" false [] None])])].
Definition jMx : json :=
  JObj [("users", JArr [JObj [("id", JStr "1"); ("fullName", JStr "A"); ("homeAddress", JObj [("city", JStr "X")])];
                        JObj [("id", JStr "2"); ("homeAddress", JNull)]])].
Definition mxMx : list string := ["OpMixin"; "RowMixin"; "AddrMixin"; "FragMixin"].

Example C01_at_mixin_hypotheses_satisfiable :
  exists own pub' cls,
    root_type_name SX "query" = Ok "Query" /\
    op_parse 10 C0 SX frsMx "query" "GetUsers" ["OpMixin"] selsMx = Ok (own, pub', false) /\
    all_classes 10 C0 SX frsMx (DOp "query" "GetUsers" ["OpMixin"] selsMx) = Ok cls /\
    op_okM 10 true C0 SX frsMx mxMx ["OpMixin"] "Query" selsMx = true /\ mx_ok cls mxMx = true /\
    nodupb (map c_name cls) = true /\ no_basemodel cls = true /\ frag_no_skip 10 C0 SX frsMx = true /\
    conf_op 10 SX frsMx "Query" selsMx jMx = true /\
    map c_bases cls = [["BaseModel"; "OpMixin"]; ["UserBits"; "RowMixin"]; ["BaseModel"; "AddrMixin"];
                       ["BaseModel"; "FragMixin"]] /\
    jwf jMx = true /\
    accepts 22 cls (schema_enums SX) (AClass (pascal_s "GetUsers")) jMx = true /\
    covers 22 cls (AClass (pascal_s "GetUsers")) jMx = true.
Proof.
  do 3 eexists.
  split; [reflexivity|].
  split; [vm_compute; reflexivity|].
  split; [vm_compute; reflexivity|].
  vm_compute. repeat split.
Qed.

(* ---- a repeated leaf key (directly, through an inline fragment and through an unpacked spread, with
        different @include flags) is inside C01_accepts_partial with cov = false; with cov = true (what
        preservation and strictness demand) it is not ---- *)
Definition selsD : list sel :=
  [SField None "user" false []
     (Some [SField None "id" false [] None;
            SInline (Some "Node") false [SField None "id" false [] None];
            SSpread "NodeBits" true;
            SField (Some "n") "fullName" true [] None; SField (Some "n") "fullName" false [] None])].
Example C01_repeated_leaf_key_accepted :
  exists own pub' cls,
    root_type_name SX "query" = Ok "Query" /\
    op_parse 10 C0 SX frsX "query" "GetUser" [] selsD = Ok (own, pub', false) /\
    all_classes 10 C0 SX frsX (DOp "query" "GetUser" [] selsD) = Ok cls /\
    op_ok 10 false C0 SX frsX [] [] "Query" selsD = true /\ op_ok 10 true C0 SX frsX [] [] "Query" selsD = false /\
    mx_ok cls [] = true /\ no_basemodel own = true /\
    (let j := JObj [("user", JObj [("id", JStr "1"); ("n", JStr "A")])] in
     conf_op 10 SX frsX "Query" selsD j = true /\
     accepts 12 cls (schema_enums SX) (AClass (pascal_s "GetUser")) j = true) /\
    conf_op 10 SX frsX "Query" selsD (JObj [("user", JObj [("id", JStr "1")])]) = false /\
    accepts 12 cls (schema_enums SX) (AClass (pascal_s "GetUser")) (JObj [("user", JObj [("id", JStr "1")])]) = false.
Proof.
  do 3 eexists.
  split; [reflexivity|].
  split; [vm_compute; reflexivity|].
  split; [vm_compute; reflexivity|].
  vm_compute. repeat split.
Qed.
