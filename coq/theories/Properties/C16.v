(* C16 — The graphqlschema strategy reproduces the schema.
   Property theorems only; proofs live in Proofs/PyReprP.v and Proofs/SchemaGenP.v. *)
From Coq Require Import List String Ascii Bool ZArith.
From AC Require Import Base.Strs Model.PyRepr Proofs.PyReprP.
Import ListNotations.
Local Open Scope string_scope.

(* repr -> literal_eval round trip at character level, every finite Python value of the fragment *)
Theorem C16_repr_roundtrip : forall v, wf_val v = true -> py_literal_eval (py_repr v) = Some v.
Proof. exact repr_roundtrip. Qed.
Print Assumptions C16_repr_roundtrip.
