(* C16 — The graphqlschema strategy reproduces the schema.
   Property theorems only; proofs live in Proofs/PyReprP.v and Proofs/SchemaGenP.v. *)
From Coq Require Import List String Ascii Bool ZArith.
From AC Require Import Base.Strs Model.PyRepr Proofs.PyReprP Model.SchemaGen Proofs.SchemaGenP Proofs.SchemaGenClosedP.
Import ListNotations.
Local Open Scope string_scope.

(* ---- full statements ---- *)
(* every value CPython can hold (py_val) survives repr -> literal_eval *)
Definition C16_repr_roundtrip_full : Prop :=
  forall v, py_val v = true -> py_literal_eval (py_repr v) = Some v.
(* every valid schema (wf_gen dv_val: what graphql-core can build from SDL / introspection) and every
   configuration the settings accept: whatever the strategy writes evaluates back to the schema *)
Definition C16_schema_roundtrip_full : Prop :=
  forall S tm sn m, wf_gen dv_val S = true -> strategy_py S tm sn = Some m ->
  eval_module m = Some (strip_std S).

(* ---- proved ---- *)
(* character level: quote choice, backslash / quote / n / r / t / xNN escapes, nested lists and dicts, ints,
   float lexemes;
   every FINITE value (wf_val = py_val minus inf/-inf/nan); strings are arbitrary byte lists *)
Theorem C16_repr_roundtrip_partial : forall v, wf_val v = true -> py_literal_eval (py_repr v) = Some v.
Proof. exact repr_roundtrip. Qed.
Print Assumptions C16_repr_roundtrip_partial.

Theorem C16_repr_roundtrip_finite : forall v, py_val v = true -> has_nonfinite v = false ->
  py_literal_eval (py_repr v) = Some v.
Proof. intros v A B. apply repr_roundtrip. apply wf_of_py; assumption. Qed.
Print Assumptions C16_repr_roundtrip_finite.

(* the same inside a longer text (a constant embedded in a call) *)
Theorem C16_repr_roundtrip_in_context : forall v rest n, wf_val v = true -> vsize v <= n ->
  stop numch rest = true -> pval n (List.app (py_repr v) rest) = Some (v, rest).
Proof. exact repr_roundtrip_ctx. Qed.
Print Assumptions C16_repr_roundtrip_in_context.

(* defaults are emitted as displays (fix 060db67): every default value graphql-core can build from an SDL or
   introspection literal, +-inf included, evaluates back to itself *)
Theorem C16_default_value_roundtrip : forall v, dv_val v = true -> ev_val (gen_dv v) = Some v.
Proof. exact ev_val_gen_dv. Qed.
Print Assumptions C16_default_value_roundtrip.

(* THE round trip, full statement: no guard left.  The refusal of names that shadow an import (fix 18e873d)
   is part of the model: strategy_py answers None exactly when settings_ok (mirror of
   GraphQLSchemaSettings.__post_init__: identifier, not keyword, not an import of the module, distinct) fails. *)
Theorem C16_schema_roundtrip : C16_schema_roundtrip_full.
Proof. intros S tm sn m W H. eapply strategy_roundtrip; eassumption. Qed.
Print Assumptions C16_schema_roundtrip.

Theorem C16_schema_roundtrip_accepted : forall S tm sn,
  settings_ok tm sn = true -> wf_gen dv_val S = true ->
  eval_module (gen_module S tm sn) = Some (strip_std S).
Proof. exact schema_roundtrip_settings. Qed.
Print Assumptions C16_schema_roundtrip_accepted.

(* histories of runs into the same target: the output is a function of schema + settings only, never of
   what the target held before (nor of its age); tied by the multi-step histories of the check *)
Theorem C16_step_ignores_target : forall old1 old2 x, settings_ok (st_tm x) (st_sn x) = true ->
  graphql_schema_step old1 x = graphql_schema_step old2 x.
Proof. exact step_ignores_target. Qed.
Print Assumptions C16_step_ignores_target.

Theorem C16_history_is_last_step : forall old h x, settings_ok (st_tm x) (st_sn x) = true ->
  run_history old (h ++ [x]) = Some (fresh_output x).
Proof. exact history_is_last_step. Qed.

Theorem C16_history_refused_keeps : forall old h x, settings_ok (st_tm x) (st_sn x) = false ->
  run_history old (h ++ [x]) = run_history old h.
Proof. exact history_refused_keeps. Qed.

Theorem C16_history_roundtrip : forall old h x, settings_ok (st_tm x) (st_sn x) = true -> st_format x = FPy ->
  wf_gen dv_val (st_schema x) = true ->
  exists m, run_history old (h ++ [x]) = Some (CModule m) /\ eval_module m = Some (strip_std (st_schema x)).
Proof. exact history_roundtrip. Qed.
Print Assumptions C16_history_roundtrip.

(* several strategies in one process: client() runs in between are not inputs of graphql_schema() *)
Theorem C16_process_ignores_clients : forall h old, run_process old h = run_history old (schema_steps h).
Proof. exact process_ignores_clients. Qed.
Theorem C16_process_is_last_step : forall old h x h', settings_ok (st_tm x) (st_sn x) = true ->
  schema_steps h' = [] -> run_process old (h ++ EvSchema x :: h') = Some (fresh_output x).
Proof. exact process_is_last_step. Qed.
Print Assumptions C16_process_is_last_step.

(* nothing of the schema is lost in the module *)
Theorem C16_gen_injective : forall S1 S2 tm sn,
  settings_ok tm sn = true -> wf_gen dv_val S1 = true -> wf_gen dv_val S2 = true ->
  gen_module S1 tm sn = gen_module S2 tm sn -> strip_std S1 = strip_std S2.
Proof. exact gen_injective. Qed.
Print Assumptions C16_gen_injective.

(* importable: every global name the module reads (annotations included) is the type-map variable or is
   bound by an import that survives the unused-import pruning; for EVERY schema record and every names *)
Theorem C16_module_closed : forall S tm sn n,
  In n (reads (gen_module S tm sn)) -> n = tm \/ In n (imported (gen_module S tm sn)).
Proof. exact module_closed. Qed.
Print Assumptions C16_module_closed.

(* and the pruning is exact: every import kept is read, or is one of the two variables (pyflakes reports a
   rebound import as a redefinition, autoflake keeps it) *)
Theorem C16_imports_all_used : forall S tm sn n,
  In n (imported (gen_module S tm sn)) -> In n (tm :: sn :: reads (gen_module S tm sn)).
Proof. exact imports_all_used. Qed.
Print Assumptions C16_imports_all_used.

Theorem C16_guard_is_valid : forall S, wf_gen dv_val S = true -> valid_fschema S = true.
Proof. exact guard_is_valid. Qed.

(* name resolution: every non-standard name of the source type map is a key of the emitted map, bound to
   an object of that name whose class is the one written in the cast; filtering the standard types out
   loses no other name *)
Theorem C16_lookup_resolves : forall S n t, user_type (s_types S) n = Some t ->
  assoc n (env_of (user_types S)) = Some (class_of (t_def t), n).
Proof. exact user_type_env. Qed.
Print Assumptions C16_lookup_resolves.

Theorem C16_filter_keeps_user_types : forall A n, is_standard n = false ->
  find_type (filter (fun t => negb (is_standard (t_name t))) A) n = find_type A n.
Proof. exact find_type_filter. Qed.

Theorem C16_type_reference_roundtrip : forall S tm t, mem_chars tm BUILTIN_NAMES = false ->
  resolves (s_types S) (named_of t) = true ->
  ev_type true tm (env_of (user_types S)) (gen_type (s_types S) tm t) = Some t.
Proof. intros S tm t F. apply ev_type_ok. apply fresh_of_mem. exact F. Qed.
Print Assumptions C16_type_reference_roundtrip.

(* by construction of gen_module (its force is K1): the configured names are the assignment targets *)
Theorem C16_names_used : forall S tm sn, assign_targets (gen_module S tm sn) = [tm; sn].
Proof. exact names_used. Qed.

(* ---- refutations ---- *)
(* a fact about repr (CPython) that stays true; since 060db67 the generator no longer relies on it for
   nested values *)
Theorem C16_repr_roundtrip_refuted_nonfinite : ~ C16_repr_roundtrip_full.
Proof.
  intro H. specialize (H (PList [PFloat (s2l "inf")]) eq_refl). vm_compute in H. discriminate.
Qed.
Print Assumptions C16_repr_roundtrip_refuted_nonfinite.

Definition c := s2l.
(* regression witness of the FIXED finding C16-nonfinite-float-nested: now inside the theorem *)
Definition S_inf : fschema := {|
  s_types := [ {| t_name := c "J"; t_desc := None; t_def := DScalar None |};
               {| t_name := c "Query"; t_desc := None;
                  t_def := DObject [] [ {| f_name := c "f"; f_type := TNamed (c "Int");
                    f_args := [ {| a_name := c "a"; a_type := TNamed (c "J");
                                   a_default := Some (PList [PFloat (c "inf"); PDict [(c "k", PFloat (c "-inf"))]]);
                                   a_desc := None; a_depr := None |} ];
                    f_desc := None; f_depr := None |} ] |} ];
  s_query := Some (c "Query"); s_mutation := None; s_subscription := None;
  s_directives := []; s_desc := None |}.

Example C16_nonfinite_regression :
  wf_gen dv_val S_inf = true /\
  eval_module (gen_module S_inf (c "type_map") (c "schema")) = Some (strip_std S_inf).
Proof. vm_compute. auto. Qed.

Definition S_min : fschema := {|
  s_types := [ {| t_name := c "Query"; t_desc := None;
                  t_def := DObject [] [ {| f_name := c "f"; f_type := TNamed (c "Query"); f_args := [];
                                           f_desc := None; f_depr := None |} ] |} ];
  s_query := Some (c "Query"); s_mutation := None; s_subscription := None;
  s_directives := []; s_desc := None |}.

(* regression witness of the FIXED finding C16-typemap-name-shadows-import: the settings now refuse the
   name (nothing is generated); without the refusal the module would not evaluate *)
Example C16_shadow_regression :
  settings_ok (c "cast") (c "schema") = false /\ strategy_py S_min (c "cast") (c "schema") = None /\
  wf_gen dv_val S_min = true /\ eval_module (gen_module S_min (c "cast") (c "schema")) = None.
Proof. vm_compute. auto. Qed.

Example C16_settings_table :
  settings_ok (c "type_map") (c "schema") = true /\ settings_ok (c "t") (c "t") = false /\
  settings_ok (c "class") (c "schema") = false /\ settings_ok (c "type_map") (c "List") = false /\
  settings_ok (c "1x") (c "schema") = false /\ settings_ok (c "match") (c "_") = true.
Proof. vm_compute. repeat split. Qed.

(* shadowing is about names USED after the type map is bound: a class name only called while the
   map is being built is harmless (the model follows Python's evaluation order) *)
Example C16_shadow_harmless_when_only_eager :
  eval_module (gen_module S_min (c "GraphQLObjectType") (c "schema")) = Some (strip_std S_min).
Proof. vm_compute. reflexivity. Qed.

(* ---- non-vacuity: the hypotheses are met by a schema using every kind of named type ---- *)
Definition arg n t d := {| a_name := c n; a_type := t; a_default := d; a_desc := Some (c "it's"); a_depr := None |}.
Definition fld n t a := {| f_name := c n; f_type := t; f_args := a; f_desc := None; f_depr := Some (c "no
more") |}.
Definition S_rich : fschema := {|
  s_types := [
    {| t_name := c "RootQ"; t_desc := None;
       t_def := DObject [c "Node"] [fld "a" (TNonNull (TList (TNamed (c "Int"))))
                  [arg "x" (TNamed (c "In")) (Some (PDict [(c "k", PList [PInt (-1); PStr (c "q'\"); PFloat (c "1.5e+300"); PNone])]))];
                                    fld "n" (TNamed (c "Node")) []] |};
    {| t_name := c "Int"; t_desc := None; t_def := DScalar None |};
    {| t_name := c "__Type"; t_desc := None; t_def := DObject [] [] |};
    {| t_name := c "Node"; t_desc := Some (c "iface"); t_def := DInterface [] [fld "id" (TNamed (c "ID")) []] |};
    {| t_name := c "U"; t_desc := None; t_def := DUnion [c "RootQ"] |};
    {| t_name := c "E"; t_desc := None;
       t_def := DEnum [{| ev_name := c "A"; ev_value := PStr (c "A"); ev_desc := None; ev_depr := Some (c "x") |}] |};
    {| t_name := c "In"; t_desc := None; t_def := DInput [arg "k" (TList (TNamed (c "E"))) None] |};
    {| t_name := c "Dt"; t_desc := None; t_def := DScalar (Some (c "http://x")) |}];
  s_query := Some (c "RootQ"); s_mutation := None; s_subscription := None;
  s_directives := [{| d_name := c "tag"; d_desc := None; d_rep := true; d_locs := [c "QUERY"; c "FIELD"];
                      d_args := [arg "n" (TNamed (c "String")) (Some (PStr (c "x'y""z")))] |}];
  s_desc := Some (c "multi
line") |}.

Example C16_guard_satisfiable :
  wf_gen dv_val S_rich = true /\ settings_ok (c "type_map") (c "schema") = true /\
  List.length (user_types S_rich) = 6 /\
  eval_module (gen_module S_rich (c "type_map") (c "schema")) = Some (strip_std S_rich).
Proof. vm_compute. repeat split. Qed.
