(* C14 — the custom operation builder emits valid, faithful, history-free documents.
   Property theorems only; proofs live in Proofs/BuilderP.v, the model in Model/Builder.v
   (the model describes /repo AFTER the seven builder fixes 54e286b..0e87b8b). *)
From Coq Require Import List String Ascii Bool ZArith.
From AC Require Import Base.Json Model.Builder Proofs.BuilderP.
Import ListNotations.
Local Open Scope string_scope.

(* ---- full statements -------------------------------------------------------------------- *)
(* doc_valid + values_bound, with NO guard: whenever the operation [es] can be built after the
   history [hist], its request — every $variable replaced by (declared type, bound value) — IS the
   request the expression stands for *)
Definition C14_faithful_full : Prop := forall ct fuel hist es b,
  faithful_on ct fuel hist es = Some b -> b = true.
(* history_free: the request of an expression is the same from every reachable store *)
Definition C14_history_free_full : Prop := forall ct fuel hist st es,
  run_hist ct fuel (store0 ct) hist = Some st ->
  option_map snd (run_op ct fuel st es) = option_map snd (run_op ct fuel (store0 ct) es).

(* ---- the generated class table (every schema, every configuration) ---------------------- *)
(* names_graphql: every generated field object is constructed with its GraphQL name *)
Theorem C14_names_graphql : forall c s owner f,
  fm_emit (field_meta c s owner f) = fd_name f /\ fm_emit (root_field_meta c s f) = fd_name f.
Proof.
  intros. split; [|reflexivity]. unfold field_meta.
  destruct (kind_of s (final_name (fd_type f))); reflexivity.
Qed.
Print Assumptions C14_names_graphql.
(* type_exact: the "type" string of every argument is its exact GraphQL type, wrappers included *)
Theorem C14_type_exact : forall c a, am_type (arg_meta c a) = exact_string (a_type a).
Proof. reflexivity. Qed.
Theorem C14_class_table_wf : forall c s q m, wf_ct (gen_classes c s q m).
Proof. exact gen_classes_wf. Qed.
Print Assumptions C14_class_table_wf.
(* the generated serialize expression (one call per occurrence, lists item by item, None guards on
   nullable positions) computes the specified element-wise serialisation EXACTLY on the values of the
   argument's type (nn_ok: arrays at list positions, no None at a non-null item position); on every
   other value it raises (None) or serialises a None — so the precondition g_conform of
   C14_doc_valid is not wider than necessary *)
Theorem C14_serialize_exact : forall t top v,
  ser_t top t v = Some (ser_spec t v) <-> nn_ok top t v = true.
Proof.
  intros. split.
  - intro H. destruct (nn_ok top t v) eqn:E; [reflexivity|]. exfalso. exact (ser_t_tight _ _ _ E H).
  - apply ser_t_spec.
Qed.
Print Assumptions C14_serialize_exact.
(* none_omitted + values_bound + type_exact for one classmethod call: the variables put on the
   object are the ideal ones (exact type, caller's value serialised element-wise, None omitted) *)
Theorem C14_call_exact : forall c l args, args_conform (map (arg_meta c) l) args = true ->
  call_vars (map (arg_meta c) l) args = ideal_vars (map (arg_meta c) l) args.
Proof. intros. apply call_vars_exact; [apply arg_metas_wf | assumption]. Qed.
Print Assumptions C14_call_exact.

(* ---- variable names ---------------------------------------------------------------------- *)
Theorem C14_fresh_name_total : forall idx v used, exists u, format_variable_name idx v used = Some u.
Proof. exact format_variable_name_total. Qed.
Print Assumptions C14_fresh_name_total.
Theorem C14_fresh_name : forall idx v used u, format_variable_name idx v used = Some u -> ~ In u used.
Proof. exact format_variable_name_fresh. Qed.
Print Assumptions C14_fresh_name.
(* unique ACROSS all top-level fields of an operation, for ANY object graph and store (shared
   objects included): the variable names occurring in the document are pairwise distinct *)
Theorem C14_unique_var_names_operation : forall fuel st ns st' sns,
  build_sels fuel 0 st ns = Some (st', sns) -> NoDup (op_vars sns).
Proof. exact unique_var_names_operation. Qed.
Print Assumptions C14_unique_var_names_operation.

(* ---- the composed theorem --------------------------------------------------------------- *)
(* For every schema and configuration, every history and every operation in which alias()/on() is
   never applied to a class-level shared object (g_shared — the one open finding class) and whose
   argument values have no None at a non-null item position of a serialised scalar (g_conform — a
   well-typedness precondition on the caller's values), whenever the operation builds and the
   expression denotes a request at all:
   (1) the request resolves to the ideal request: GraphQL field and argument names, every variable
       declared with the argument's exact type and bound to the caller's (serialised) value, None
       arguments omitted, at every depth;
   (2) no variable is declared twice; (3) the declared variables are exactly the variables used in
       the document, in document order; (4) exactly the declared variables are bound. *)
Theorem C14_doc_valid : forall c s q m fuel f2 hist st es st' rq idl,
  let ct := gen_classes c s q m in
  Forall (fun es => forallb g_shared es = true) hist -> forallb g_shared es = true ->
  forallb (g_conform ct) es = true ->
  run_hist ct fuel (store0 ct) hist = Some st ->
  run_op ct fuel st es = Some (st', rq) -> ideal_sels ct f2 es = Some idl ->
  resolves (look_req rq) (r_sels rq) = Some idl /\
  NoDup (keys (r_vardefs rq)) /\
  keys (r_vardefs rq) = flat_map sel_vars (r_sels rq) /\
  keys (r_values rq) = keys (r_vardefs rq).
Proof. intros. eapply doc_valid; eauto. apply gen_classes_wf. Qed.
Print Assumptions C14_doc_valid.

(* NO EXCEPTION + the composed statement, unconditional in the builder's result: if the expression
   denotes a request at all (its ideal exists within depth f), then after any history free of shared
   mutations the operation BUILDS with recursion depth f+1, leaves the shared objects untouched, and
   its request is the ideal one *)
Theorem C14_doc_valid_total : forall c s q m f hist st es idl,
  let ct := gen_classes c s q m in
  Forall (fun es => forallb g_shared es = true) hist -> forallb g_shared es = true ->
  forallb (g_conform ct) es = true ->
  run_hist ct (S f) (store0 ct) hist = Some st ->
  ideal_sels ct f es = Some idl ->
  exists rq, run_op ct (S f) st es = Some (st, rq) /\
    resolves (look_req rq) (r_sels rq) = Some idl /\
    NoDup (keys (r_vardefs rq)) /\
    keys (r_vardefs rq) = flat_map sel_vars (r_sels rq) /\
    keys (r_values rq) = keys (r_vardefs rq).
Proof.
  intros c s q m f hist st es idl ct Hh Hg Hc Hr Hi.
  rewrite (safe_history_keeps_store _ _ _ _ Hh Hr).
  apply doc_valid_total; auto. apply gen_classes_wf.
Qed.
Print Assumptions C14_doc_valid_total.

(* history freedom: after ANY history free of shared mutations every operation — guarded or not —
   yields the request it yields right after import *)
Theorem C14_history_free_partial : forall ct fuel hist st es,
  Forall (fun es => forallb g_shared es = true) hist ->
  run_hist ct fuel (store0 ct) hist = Some st ->
  run_op ct fuel st es = run_op ct fuel (store0 ct) es.
Proof. exact history_free_safe. Qed.
Print Assumptions C14_history_free_partial.

(* ---- what stays refuted: F15-shared-mutation -------------------------------------------- *)
(* alias() on the class-level object PersonFields.id persists into the next operation *)
Theorem C14_history_free_refuted_alias : exists st,
  run_hist Demo.ct 64 (store0 Demo.ct) Demo.h_alias = Some st /\
  option_map snd (run_op Demo.ct 64 st [Demo.e_plain]) <>
  option_map snd (run_op Demo.ct 64 (store0 Demo.ct) [Demo.e_plain]) /\
  faithful_on Demo.ct 64 Demo.h_alias [Demo.e_plain] = Some false /\
  faithful_on Demo.ct 64 [] [Demo.e_plain] = Some true.
Proof.
  eexists. split; [vm_compute; reflexivity|]. split; [|split; vm_compute; reflexivity].
  vm_compute. discriminate.
Qed.
(* on() on the class-level union object PersonFields.favourite persists as well *)
Theorem C14_history_free_refuted_on : exists st,
  run_hist Demo.ct 64 (store0 Demo.ct) Demo.h_on = Some st /\
  option_map snd (run_op Demo.ct 64 st [Demo.e_on]) <>
  option_map snd (run_op Demo.ct 64 (store0 Demo.ct) [Demo.e_on]).
Proof. eexists. split; [vm_compute; reflexivity|]. vm_compute. discriminate. Qed.
Theorem C14_history_free_full_refuted : ~ C14_history_free_full.
Proof.
  intro H. destruct C14_history_free_refuted_alias as [st [Hr [Hne _]]].
  apply Hne. apply (H _ _ _ _ _ Hr).
Qed.
Theorem C14_faithful_full_refuted : ~ C14_faithful_full.
Proof.
  intro H. specialize (H Demo.ct 64 Demo.h_alias [Demo.e_plain] false).
  assert (false = true) by (apply H; vm_compute; reflexivity). discriminate.
Qed.
Print Assumptions C14_faithful_full_refuted.

(* ---- non-vacuity and regression cases ---------------------------------------------------- *)
(* the witnesses of the seven repaired classes are faithful now *)
Example C14_repaired_witnesses :
  map (fun e => faithful_on Demo.ct 64 [] [e]) [Demo.e_types; Demo.e_names; Demo.e_depth; Demo.e_ser]
  = [Some true; Some true; Some true; Some true] /\
  faithful_on Demo.ct 64 [] Demo.es_collide = Some true.
Proof. vm_compute. split; reflexivity. Qed.
(* regression for fix 3032a3a: [Instant!] and [Instant] arguments are serialised item by item, a None
   item of the nullable item type stays None; declared with the exact list types; faithful *)
Example C14_serialize_list_regression :
  option_map (fun r => (r_vardefs (snd r), r_values (snd r)))
             (run_op Demo.ct 64 (store0 Demo.ct) [Demo.e_serlist])
  = Some ([("at_0", "[Instant!]"); ("opt_0", "[Instant]")],
          [("at_0", JArr [ser (JStr "a"); ser (JStr "b")]); ("opt_0", JArr [JNull; ser (JStr "c")])]) /\
  faithful_on Demo.ct 64 [] [Demo.e_serlist] = Some true /\
  g_conform Demo.ct Demo.e_serlist = true /\
  (* the unguarded non-null item position: where the precondition fails the code calls serialize(None) *)
  ser_t true (TList (TNonNull (TNamed "Instant"))) (JArr [JNull]) = Some (JArr [ser JNull]) /\
  ser_t true (TList (TNamed "Instant")) (JStr "not a list") = None /\
  ser_spec (TList (TNonNull (TNamed "Instant"))) (JArr [JNull]) = JArr [JNull].
Proof. vm_compute. repeat split. Qed.
(* the hypotheses of C14_doc_valid are met by a two-field operation with aliases, a serialised
   scalar, sub-selections and five variables, also after itself as history *)
Example C14_doc_valid_hypotheses_satisfiable :
  forallb g_shared Demo.es_good = true /\ forallb (g_conform Demo.ct) Demo.es_good = true /\
  faithful_on Demo.ct 64 [Demo.es_good; Demo.es_good] Demo.es_good = Some true /\
  option_map (fun r => List.length (r_vardefs (snd r))) (run_op Demo.ct 64 (store0 Demo.ct) Demo.es_good) = Some 5 /\
  (exists l, ideal_sels Demo.ct 64 Demo.es_good = Some l).
Proof. vm_compute. repeat split. eexists. reflexivity. Qed.
(* the loop really renames, and the one used-names set spans the fields: a_0_1 is taken when field 1
   asks for a_0 + "_1" *)
Example C14_name_loop_example :
  format_variable_name 0 "a" ["a_0"] = Some "a_0_1" /\
  format_variable_name 1 "a_0" ["a_0_1"; "a_0"] = Some "a_0_1_1".
Proof. vm_compute. split; reflexivity. Qed.
