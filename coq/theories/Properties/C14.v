(* C14 — the custom operation builder emits valid, faithful, history-free documents.
   Property theorems only; proofs live in Proofs/BuilderP.v, the model in Model/Builder.v. *)
From Coq Require Import List String Ascii Bool ZArith.
From AC Require Import Base.Json Model.Builder Proofs.BuilderP.
Import ListNotations.
Local Open Scope string_scope.

(* ---- full statements ------------------------------------------------------------------- *)
(* doc_valid + values_bound: whenever the operation [es] can be built after the history [hist],
   its request — every $variable replaced by (declared type, bound value) — IS the request the
   expression stands for: GraphQL field/argument names, every variable declared with the
   argument's exact type and bound to the caller's (serialised) value, None arguments omitted. *)
Definition C14_faithful_full : Prop := forall ct fuel hist es b,
  faithful_on ct fuel hist es = Some b -> b = true.
(* history_free: the request of an expression is the same from every reachable store *)
Definition C14_history_free_full : Prop := forall ct fuel hist st es,
  run_hist ct fuel (store0 ct) hist = Some st ->
  option_map snd (run_op ct fuel st es) = option_map snd (run_op ct fuel (store0 ct) es).
(* every variable name of the whole operation (all top-level fields) is handed out once *)
Definition C14_unique_across_fields_full : Prop := forall fuel st ns st' sns,
  build_sels fuel 0 st ns = Some (st', sns) ->
  NoDup (flat_map (fun r : sel string * node => sel_vars (fst r)) sns).

(* ---- proved at full strength ------------------------------------------------------------ *)
(* _format_variable_name: the while loop ends (within |used|+1 rounds) with an unused name *)
Theorem C14_fresh_name_total : forall idx v used, exists u, format_variable_name idx v used = Some u.
Proof. exact format_variable_name_total. Qed.
Print Assumptions C14_fresh_name_total.
Theorem C14_fresh_name : forall idx v used u, format_variable_name idx v used = Some u -> ~ In u used.
Proof. exact format_variable_name_fresh. Qed.
Print Assumptions C14_fresh_name.

(* to_ast of one top-level field, ANY object graph, any store (shared objects included): the
   variable names occurring in the AST are pairwise distinct — the used-names set as invariant *)
Theorem C14_unique_var_names : forall fuel idx st n s' sl n',
  to_ast fuel idx (st, []) n = Some (s', (sl, n')) -> NoDup (sel_vars sl).
Proof. exact unique_var_names. Qed.
Print Assumptions C14_unique_var_names.

(* ---- proved under guards (guards = complements of the finding classes) ------------------- *)
(* history freedom: after ANY history in which alias()/on() was never applied to a class-level
   shared object (g_shared), every operation — guarded or not — yields the request it yields
   right after import *)
Theorem C14_history_free_partial : forall ct fuel hist st es,
  Forall (fun es => forallb g_shared es = true) hist ->
  run_hist ct fuel (store0 ct) hist = Some st ->
  run_op ct fuel st es = run_op ct fuel (store0 ct) es.
Proof. exact history_free_safe. Qed.
Print Assumptions C14_history_free_partial.

(* one classmethod call: if every argument passed has a type string equal to its exact type
   (g_types) and no None reaches serialize() (g_ser), the variables put on the object are exactly
   the ideal ones: exact type, caller's serialised value, None omitted *)
Theorem C14_call_exact_partial : forall args ams,
  forallb (arg_ok args) ams = true -> call_vars ams args = ideal_vars ams args.
Proof. exact call_vars_exact. Qed.
Print Assumptions C14_call_exact_partial.

(* ---- refutations on the faithful model: one witness per defect class; on each witness every
   OTHER guard holds, so the classes are independent -------------------------------------- *)
Definition guards5 (e : bexpr) :=
  (g_shared e, g_names Demo.ct e, g_types Demo.ct e, g_ser Demo.ct e, g_depth Demo.ct 2 e).

(* [ID!]! declared as ID!  (list wrappers dropped from the "type" string) *)
Theorem C14_type_exact_refuted :
  faithful_on Demo.ct 64 [] [Demo.e_types] = Some false /\
  guards5 Demo.e_types = (true, true, false, true, true).
Proof. vm_compute. split; reflexivity. Qed.

(* best_friend emitted for bestFriend  (Python name passed to the constructor of method fields) *)
Theorem C14_names_graphql_refuted :
  faithful_on Demo.ct 64 [] [Demo.e_names] = Some false /\
  guards5 Demo.e_names = (true, false, true, true, true).
Proof. vm_compute. split; reflexivity. Qed.

(* $a_0 used at depth 4, never declared  (get_formatted_variables discards the recursive result) *)
Theorem C14_vars_collected_refuted :
  faithful_on Demo.ct 64 [] [Demo.e_depth] = Some false /\
  guards5 Demo.e_depth = (true, true, true, true, false).
Proof. vm_compute. split; reflexivity. Qed.

(* friend(since: None) is sent as since: serialize(None)  (cleared_arguments tests the wrapped value) *)
Theorem C14_none_omitted_refuted :
  faithful_on Demo.ct 64 [] [Demo.e_ser] = Some false /\
  guards5 Demo.e_ser = (true, true, true, false, true).
Proof. vm_compute. split; reflexivity. Qed.

(* two top-level fields: $a_0_1 handed out twice (field 0: second `a`; field 1: `a_0`), x(a: 5)
   is bound to 3; all five per-expression guards hold *)
Theorem C14_values_bound_refuted :
  faithful_on Demo.ct 64 [] Demo.es_collide = Some false /\
  map guards5 Demo.es_collide = [(true, true, true, true, true); (true, true, true, true, true)].
Proof. vm_compute. split; reflexivity. Qed.
Theorem C14_unique_across_fields_refuted_witness : exists st' sns,
  build_sels 64 0 (store0 Demo.ct) Demo.ns_collide = Some (st', sns) /\
  nodupb (flat_map (fun r : sel string * node => sel_vars (fst r)) sns) = false.
Proof. eexists. eexists. split; vm_compute; reflexivity. Qed.
Theorem C14_unique_across_fields_refuted : ~ C14_unique_across_fields_full.
Proof.
  intro H. destruct C14_unique_across_fields_refuted_witness as [st' [sns [Hb Hn]]].
  apply H in Hb. apply NoDup_nodupb in Hb. congruence.
Qed.

(* alias() on the class-level object PersonFields.id persists into the next operation *)
Theorem C14_history_free_refuted_alias : exists st,
  run_hist Demo.ct 64 (store0 Demo.ct) Demo.h_alias = Some st /\
  option_map snd (run_op Demo.ct 64 st [Demo.e_plain]) <>
  option_map snd (run_op Demo.ct 64 (store0 Demo.ct) [Demo.e_plain]) /\
  faithful_on Demo.ct 64 Demo.h_alias [Demo.e_plain] = Some false /\
  faithful_on Demo.ct 64 [] [Demo.e_plain] = Some true.
Proof.
  eexists. split; [vm_compute; reflexivity|]. split; [|split; vm_compute; reflexivity].
  vm_compute. discriminate.
Qed.
(* on() on the class-level union object PersonFields.favourite persists as well *)
Theorem C14_history_free_refuted_on : exists st,
  run_hist Demo.ct 64 (store0 Demo.ct) Demo.h_on = Some st /\
  option_map snd (run_op Demo.ct 64 st [Demo.e_on]) <>
  option_map snd (run_op Demo.ct 64 (store0 Demo.ct) [Demo.e_on]).
Proof. eexists. split; [vm_compute; reflexivity|]. vm_compute. discriminate. Qed.

Theorem C14_history_free_full_refuted : ~ C14_history_free_full.
Proof.
  intro H. destruct C14_history_free_refuted_alias as [st [Hr [Hne _]]].
  apply Hne. apply (H _ _ _ _ _ Hr).
Qed.
Theorem C14_faithful_full_refuted : ~ C14_faithful_full.
Proof.
  intro H. specialize (H Demo.ct 64 [] [Demo.e_types] false).
  assert (false = true) by (apply H; vm_compute; reflexivity). discriminate.
Qed.
Print Assumptions C14_faithful_full_refuted.

(* ---- non-vacuity ------------------------------------------------------------------------ *)
(* a two-field operation with aliases, a serialised scalar, sub-selections and five variables on
   which every guard holds: it is faithful, also after itself as history *)
Example C14_guards_satisfiable :
  map guards5 Demo.es_good = [(true, true, true, true, true); (true, true, true, true, true)] /\
  faithful_on Demo.ct 64 [Demo.es_good; Demo.es_good] Demo.es_good = Some true /\
  option_map (fun r => List.length (r_vardefs (snd r))) (run_op Demo.ct 64 (store0 Demo.ct) Demo.es_good) = Some 5.
Proof. vm_compute. repeat split. Qed.
(* the loop really renames: the second `a` of field 0 becomes a_0_1 *)
Example C14_name_loop_example :
  format_variable_name 0 "a" ["a_0"] = Some "a_0_1" /\
  format_variable_name 0 "a" ["a_0_1"; "a_0"] = Some "a_0_2".
Proof. vm_compute. split; reflexivity. Qed.
