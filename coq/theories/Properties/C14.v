(* C14 — the custom operation builder emits valid, faithful, history-free documents.
   Property theorems only; proofs live in Proofs/BuilderP.v, the model in Model/Builder.v
   (the model describes /repo after the builder fixes 54e286b..0e87b8b, 3032a3a and 5c467bf). *)
From Coq Require Import List String Ascii Bool ZArith.
From AC Require Import Base.Json Model.Builder Proofs.BuilderP.
Import ListNotations.
Local Open Scope string_scope.

(* ---- the generated class table (every schema, every configuration) ---------------------- *)
(* names_graphql: every generated field object is constructed with its GraphQL name *)
Theorem C14_names_graphql : forall c s owner f,
  fm_emit (field_meta c s owner f) = fd_name f /\ fm_emit (root_field_meta c s f) = fd_name f.
Proof.
  intros. split; [|reflexivity]. unfold field_meta.
  destruct (kind_of s (final_name (fd_type f))); reflexivity.
Qed.
Print Assumptions C14_names_graphql.
(* type_exact: the "type" string of every argument is its exact GraphQL type, wrappers included *)
Theorem C14_type_exact : forall c a, am_type (arg_meta c a) = exact_string (a_type a).
Proof. reflexivity. Qed.
Theorem C14_class_table_wf : forall c s q m, wf_ct (gen_classes c s q m).
Proof. exact gen_classes_wf. Qed.
Print Assumptions C14_class_table_wf.

(* ---- argument values --------------------------------------------------------------------- *)
(* the generated serialize expression computes the specified element-wise serialisation EXACTLY on
   the values of the argument's type (nn_ok: arrays at list positions, no None at a non-null item
   position); on every other value it raises (None) or serialises a None — the precondition
   g_conform below is not wider than necessary *)
Theorem C14_serialize_exact : forall t top v,
  ser_t top t v = Some (ser_spec t v) <-> nn_ok top t v = true.
Proof.
  intros. split.
  - intro H. destruct (nn_ok top t v) eqn:E; [reflexivity|]. exfalso. exact (ser_t_tight _ _ _ E H).
  - apply ser_t_spec.
Qed.
Print Assumptions C14_serialize_exact.
(* none_omitted + values_bound + type_exact for one classmethod call *)
Theorem C14_call_exact : forall c l args, args_conform (map (arg_meta c) l) args = true ->
  call_vars (map (arg_meta c) l) args = ideal_vars (map (arg_meta c) l) args.
Proof. intros. apply call_vars_exact; [apply arg_metas_wf | assumption]. Qed.
Print Assumptions C14_call_exact.
(* ... and for whole expressions: what the builder calls construct IS the object tree the expression
   stands for (GraphQL names, exact types, caller's serialised values, None omitted), failure cases
   included; attribute access yields a fresh object, so alias()/on() on it stay local *)
Theorem C14_eval_is_ideal : forall c s q m e,
  let ct := gen_classes c s q m in g_conform ct e = true -> eval ct e = ideal ct e.
Proof. intros. apply eval_ideal; [apply gen_classes_wf | assumption]. Qed.
Print Assumptions C14_eval_is_ideal.

(* ---- variable names ---------------------------------------------------------------------- *)
Theorem C14_fresh_name_total : forall idx v used, exists u, format_variable_name idx v used = Some u.
Proof. exact format_variable_name_total. Qed.
Print Assumptions C14_fresh_name_total.
Theorem C14_fresh_name : forall idx v used u, format_variable_name idx v used = Some u -> ~ In u used.
Proof. exact format_variable_name_fresh. Qed.
Print Assumptions C14_fresh_name.
(* unique ACROSS all top-level fields of an operation, for ANY object trees *)
Theorem C14_unique_var_names_operation : forall fuel ns sns,
  build_sels fuel ns = Some sns -> NoDup (op_vars sns).
Proof. exact unique_var_names_operation. Qed.
Print Assumptions C14_unique_var_names_operation.

(* ---- the composed theorem --------------------------------------------------------------- *)
(* For every schema and configuration and EVERY operation whose argument values are values of the
   argument types (g_conform, exact by C14_serialize_exact), whenever the operation builds and the
   expression denotes a request:
   (1) the request resolves to the ideal request: GraphQL field and argument names, every variable
       declared with the argument's exact type and bound to the caller's (element-wise serialised)
       value, None arguments omitted, at every depth;
   (2) no variable is declared twice; (3) the declared variables are exactly the variables used in
       the document, in document order; (4) exactly the declared variables are bound.
   No guard for shared objects is left: class attributes hand out fresh objects (fix 5c467bf). *)
Theorem C14_doc_valid : forall c s q m fuel f2 es rq idl,
  let ct := gen_classes c s q m in
  forallb (g_conform ct) es = true ->
  run_op ct fuel es = Some rq -> ideal_sels ct f2 es = Some idl ->
  resolves (look_req rq) (r_sels rq) = Some idl /\
  NoDup (keys (r_vardefs rq)) /\
  keys (r_vardefs rq) = flat_map sel_vars (r_sels rq) /\
  keys (r_values rq) = keys (r_vardefs rq).
Proof. intros. eapply doc_valid; eauto. apply gen_classes_wf. Qed.
Print Assumptions C14_doc_valid.

(* NO EXCEPTION + the composed statement: if the expression denotes a request at all (its ideal
   exists within depth f) the operation BUILDS with recursion depth f and its request is the ideal *)
Theorem C14_doc_valid_total : forall c s q m f es idl,
  let ct := gen_classes c s q m in
  forallb (g_conform ct) es = true -> ideal_sels ct f es = Some idl ->
  exists rq, run_op ct f es = Some rq /\
    resolves (look_req rq) (r_sels rq) = Some idl /\
    NoDup (keys (r_vardefs rq)) /\
    keys (r_vardefs rq) = flat_map sel_vars (r_sels rq) /\
    keys (r_values rq) = keys (r_vardefs rq).
Proof. intros. apply doc_valid_total; auto. apply gen_classes_wf. Qed.
Print Assumptions C14_doc_valid_total.

(* ---- history freedom --------------------------------------------------------------------- *)
(* The request is a function of the expressions alone (run_op takes no state): no builder operation
   can reach a class-level object any more, so "never on builder objects used in earlier operations"
   is by construction in the model and is established for the real code by the tie (histories vs a
   fresh process).  What remains to PROVE is re-use of the field objects themselves: objects that
   already went through an operation (their formatted_variables rewritten by to_ast) build the same
   request again, at any later position. *)
Theorem C14_reuse_request : forall fuel ns sns,
  build_sels fuel ns = Some sns ->
  build_request fuel (map (fun r => snd r) sns) = build_request fuel ns.
Proof. exact reuse_request. Qed.
Print Assumptions C14_reuse_request.
Theorem C14_reuse_field : forall f idx u n u' sl n',
  to_ast f idx u n = Some (u', (sl, n')) -> forall i2 u2, to_ast f i2 u2 n' = to_ast f i2 u2 n.
Proof. exact reuseB_all. Qed.

(* ---- regression cases (each replayed on the real client by the harness) ------------------ *)
Definition me := Call "Query" "me" [].
(* the former F15-shared-mutation witnesses: alias()/on() on a class attribute stay local, also
   inside ONE operation (aliased and plain use of PersonFields.id side by side) *)
Example C14_former_shared_mutation_witnesses :
  map (fun es => faithful_on Demo.ct 64 es)
      (Demo.h_alias ++ [[Demo.e_plain]] ++ Demo.h_on ++ [[Demo.e_on]] ++
       [[Fields me [Alias Demo.pid "n1"; Demo.pid]]])
  = [Some true; Some true; Some true; Some true; Some true] /\
  option_map r_sels (run_op Demo.ct 64 [Fields me [Alias Demo.pid "n1"; Demo.pid]])
  = Some [SF None "me" [] (Some [SF (Some "n1") "id" [] None; SF None "id" [] None])].
Proof. vm_compute. split; reflexivity. Qed.
(* the witnesses of the seven classes repaired earlier *)
Example C14_repaired_witnesses :
  map (fun e => faithful_on Demo.ct 64 [e]) [Demo.e_types; Demo.e_names; Demo.e_depth; Demo.e_ser]
  = [Some true; Some true; Some true; Some true] /\
  faithful_on Demo.ct 64 Demo.es_collide = Some true.
Proof. vm_compute. split; reflexivity. Qed.
(* fix 3032a3a: [Instant!] and [Instant] arguments are serialised item by item *)
Example C14_serialize_list_regression :
  option_map (fun r => (r_vardefs r, r_values r)) (run_op Demo.ct 64 [Demo.e_serlist])
  = Some ([("at_0", "[Instant!]"); ("opt_0", "[Instant]")],
          [("at_0", JArr [ser (JStr "a"); ser (JStr "b")]); ("opt_0", JArr [JNull; ser (JStr "c")])]) /\
  faithful_on Demo.ct 64 [Demo.e_serlist] = Some true /\
  g_conform Demo.ct Demo.e_serlist = true /\
  ser_t true (TList (TNonNull (TNamed "Instant"))) (JArr [JNull]) = Some (JArr [ser JNull]) /\
  ser_t true (TList (TNamed "Instant")) (JStr "not a list") = None /\
  ser_spec (TList (TNonNull (TNamed "Instant"))) (JArr [JNull]) = JArr [JNull].
Proof. vm_compute. repeat split. Qed.
(* the hypotheses of C14_doc_valid_total are met by a two-field operation with aliases, a serialised
   scalar, sub-selections and five variables *)
Example C14_doc_valid_hypotheses_satisfiable :
  forallb (g_conform Demo.ct) Demo.es_good = true /\
  faithful_on Demo.ct 64 Demo.es_good = Some true /\
  option_map (fun r => List.length (r_vardefs r)) (run_op Demo.ct 64 Demo.es_good) = Some 5 /\
  (exists l, ideal_sels Demo.ct 64 Demo.es_good = Some l).
Proof. vm_compute. repeat split. eexists. reflexivity. Qed.
Example C14_name_loop_example :
  format_variable_name 0 "a" ["a_0"] = Some "a_0_1" /\
  format_variable_name 1 "a_0" ["a_0_1"; "a_0"] = Some "a_0_1_1".
Proof. vm_compute. split; reflexivity. Qed.
