(* C12 — Every HTTP response is classified into exactly one documented outcome.
   Property theorems only; proofs live in Proofs/GetDataP.v.  All statements quantify over every
   integer status and every JSON body (or None = body is not JSON); none is guarded except where
   the property text itself restricts to spec-shaped errors (spec_body / spec_error). *)
From Coq Require Import List String Ascii ZArith Bool.
From AC Require Import Base.Json Model.GetData Proofs.GetDataP Proofs.GetDataOpP.
From AC Require Py.Ann Py.Pydantic Model.Results Proofs.ResultsRunP Proofs.ResultsObjP Gql.Schema Gql.Exec Properties.C01.
Import ListNotations.
Local Open Scope string_scope.

Theorem C12_non2xx_http_error : forall st b, (st < 200 \/ 299 < st)%Z ->
  get_data st b = OHttpError st.
Proof. exact non2xx_http_error. Qed.
Print Assumptions C12_non2xx_http_error.

Theorem C12_not_json_invalid : forall st, (200 <= st <= 299)%Z -> get_data st None = OInvalid.
Proof. exact not_json_invalid. Qed.
Print Assumptions C12_not_json_invalid.

Theorem C12_not_object_invalid : forall st j, (200 <= st <= 299)%Z -> (forall kv, j <> JObj kv) ->
  get_data st (Some j) = OInvalid.
Proof. exact not_object_invalid. Qed.
Print Assumptions C12_not_object_invalid.

Theorem C12_neither_key_invalid : forall st kv, (200 <= st <= 299)%Z ->
  jlookup "data" kv = None -> jlookup "errors" kv = None ->
  get_data st (Some (JObj kv)) = OInvalid.
Proof. exact neither_key_invalid. Qed.
Print Assumptions C12_neither_key_invalid.

(* a non-empty list of spec-shaped errors: the multi-error carries one error object per list
   element, in order (Forall2), each with message/locations/path/extensions/original read off
   that element (error_carried), and the partial data (None when there is no data member) *)
Theorem C12_errors_nonempty_multi : forall st kv e l, (200 <= st <= 299)%Z ->
  jlookup "errors" kv = Some (JArr (e :: l)) -> forallb spec_error (e :: l) = true ->
  exists gs, get_data st (Some (JObj kv)) = OMulti gs (jget "data" kv) /\
             Forall2 error_carried (e :: l) gs.
Proof. exact errors_nonempty_multi. Qed.
Print Assumptions C12_errors_nonempty_multi.

Theorem C12_otherwise_data_unchanged : forall st kv d, (200 <= st <= 299)%Z ->
  jlookup "data" kv = Some d ->
  (jlookup "errors" kv = None \/ jlookup "errors" kv = Some (JArr [])) ->
  get_data st (Some (JObj kv)) = OData d.
Proof. exact data_member_returned. Qed.
Print Assumptions C12_otherwise_data_unchanged.

(* the general form: any falsy errors member (absent, null, [], {}, 0, "", false) *)
Theorem C12_otherwise_data_unchanged_general : forall st kv, (200 <= st <= 299)%Z ->
  jhas "data" kv = true \/ jhas "errors" kv = true ->
  py_truthy (jget "errors" kv) = false ->
  get_data st (Some (JObj kv)) = OData (jget "data" kv).
Proof. exact otherwise_data_unchanged. Qed.
Print Assumptions C12_otherwise_data_unchanged_general.

Theorem C12_never_data_with_errors : forall st kv e l d,
  jlookup "errors" kv = Some (JArr (e :: l)) -> get_data st (Some (JObj kv)) <> OData d.
Proof. exact never_data_with_errors. Qed.
Print Assumptions C12_never_data_with_errors.

Theorem C12_data_inversion : forall st b d, get_data st b = OData d ->
  (200 <= st <= 299)%Z /\ exists kv, b = Some (JObj kv) /\ d = jget "data" kv /\
    (jhas "data" kv = true \/ jhas "errors" kv = true) /\
    py_truthy (jget "errors" kv) = false.
Proof. exact data_inversion. Qed.
Print Assumptions C12_data_inversion.

(* totality + mutual exclusion: the four hypotheses of the property text (booleans over the
   input only) partition Z x option json, and each one decides the outcome *)
Theorem C12_outcome_total_unique : forall st b,
  b2n (h_http st b) + b2n (h_invalid st b) + b2n (h_errors st b) + b2n (h_data st b) = 1 /\
  (h_http st b = true -> get_data st b = OHttpError st) /\
  (h_invalid st b = true -> get_data st b = OInvalid) /\
  (h_errors st b = true -> spec_body b = true ->
     exists kv e gs, b = Some (JObj kv) /\ jlookup "errors" kv = Some e /\
       from_errors_dicts e = inr gs /\ get_data st b = OMulti gs (jget "data" kv)) /\
  (h_data st b = true -> exists kv, b = Some (JObj kv) /\ get_data st b = OData (jget "data" kv)).
Proof.
  intros st b. split; [apply hyps_partition|].
  split; [apply h_http_decides|]. split; [apply h_invalid_decides|].
  split; [apply h_errors_spec_decides | apply h_data_decides].
Qed.
Print Assumptions C12_outcome_total_unique.

(* "no other exception type escapes", under the property's own restriction *)
Theorem C12_no_other_exception : forall st b x, spec_body b = true -> get_data st b <> OCrash x.
Proof. exact no_other_exception. Qed.
Print Assumptions C12_no_other_exception.

(* outside that restriction the code does let TypeError/KeyError escape — exactly there *)
Theorem C12_other_exception_outside_spec : forall st b, h_errors st b = true -> spec_body b = false ->
  exists x, get_data st b = OCrash x.
Proof. exact h_errors_bad_decides. Qed.
Print Assumptions C12_other_exception_outside_spec.

(* the generated method returns the validated model of exactly that data (validate = any
   validation function: by construction of client_method; its force is the tie through a
   generated client) *)
Theorem C12_method_returns_validated : forall (V : Type) (validate : json -> option V) st b v,
  client_method validate st b = MReturn v <->
  exists d, get_data st b = OData d /\ validate d = Some v.
Proof. exact method_returns_validated. Qed.
Print Assumptions C12_method_returns_validated.

Theorem C12_method_raises : forall (V : Type) (validate : json -> option V) st b o,
  client_method validate st b = MRaise o <-> get_data st b = o /\ forall d, o <> OData d.
Proof. exact method_raises. Qed.
Print Assumptions C12_method_raises.

(* ---- composed with C01 (classes generated by Model/Results.v, sub-language op_ok; mx: the @mixin names used,
   none of them a generated class - mx_ok): a 2xx response
   whose data member conforms to the operation (Exec.conf_op) and that reports no errors is RETURNED by the
   generated method, as the validated result model of exactly that data; nothing is returned when the
   server reported errors or the status is not 2xx, whatever the validation function ---- *)
Theorem C12_method_returns_conformant_data : forall C S frs fuel kind name mixins sels root own pub' cls g cov mx fc d n st kv,
  Results.root_type_name S kind = Results.Ok root ->
  Results.op_parse fuel C S frs kind name mixins sels = Results.Ok (own, pub', false) ->
  Results.all_classes fuel C S frs (Results.DOp kind name mixins sels) = Results.Ok cls ->
  ResultsObjP.op_ok g cov C S frs mx mixins root sels = true -> ResultsRunP.mx_ok cls mx = true ->
  ResultsRunP.no_basemodel own = true ->
  n >= fuel + 2 ->
  (200 <= st <= 299)%Z -> jlookup "data" kv = Some d ->
  (jlookup "errors" kv = None \/ jlookup "errors" kv = Some (JArr [])) ->
  Exec.conf_op fc S frs root sels d = true ->
  client_method (result_validate n cls (Results.schema_enums S) (Results.pascal_s name)) st (Some (JObj kv))
  = MReturn d.
Proof. exact method_returns_conformant. Qed.
Print Assumptions C12_method_returns_conformant_data.

Theorem C12_method_returns_nothing_with_errors : forall (V : Type) (validate : json -> option V) st kv e l v,
  jlookup "errors" kv = Some (JArr (e :: l)) ->
  client_method validate st (Some (JObj kv)) <> MReturn v.
Proof. exact method_returns_nothing_with_errors. Qed.
Print Assumptions C12_method_returns_nothing_with_errors.

Theorem C12_method_returns_nothing_non2xx : forall (V : Type) (validate : json -> option V) st b v,
  (st < 200 \/ 299 < st)%Z -> client_method validate st b <> MReturn v.
Proof. exact method_returns_nothing_non2xx. Qed.
Print Assumptions C12_method_returns_nothing_non2xx.

(* the hypotheses are met by C01's non-trivial operation GetPeople (nested, aliased, abstract, enum, lists) *)
Example C12_method_conformant_satisfiable :
  exists cls,
    Results.all_classes 10 C01.C0 C01.SX C01.frsX (Results.DOp "query" "GetPeople" [] C01.selsX) = Results.Ok cls /\
    client_method (result_validate 12 cls (Results.schema_enums C01.SX) (Results.pascal_s "GetPeople")) 200
      (Some (JObj [("data", C01.jX); ("extensions", JObj [])])) = MReturn C01.jX /\
    client_method (result_validate 12 cls (Results.schema_enums C01.SX) (Results.pascal_s "GetPeople")) 200
      (Some (JObj [("data", JObj [("people", JNull)])])) = MValidationError.
Proof. eexists. split; [vm_compute; reflexivity|]. vm_compute. split; reflexivity. Qed.

(* str(exception): the multi-error's text lists the message of every error of the response, in order,
   joined by "; " (None when some message is not a string: str() raises TypeError); the HTTP error's text
   carries the status *)
Theorem C12_multi_str_lists_every_message : forall st kv e l, (200 <= st <= 299)%Z ->
  jlookup "errors" kv = Some (JArr (e :: l)) -> forallb spec_error (e :: l) = true ->
  outcome_str (get_data st (Some (JObj kv))) = join_opt (map msg_of (e :: l)).
Proof. exact multi_str. Qed.
Print Assumptions C12_multi_str_lists_every_message.

Theorem C12_http_str_carries_status : forall st b, (st < 200 \/ 299 < st)%Z ->
  outcome_str (get_data st b) = Some (http_error_text ++ Base.Sexp.z_to_string st)%string.
Proof. exact http_str. Qed.
Print Assumptions C12_http_str_carries_status.

(* ---- non-vacuity / behaviour pinned on concrete inputs ---- *)
Definition err1 := JObj [("message", JStr "boom"); ("path", JArr [JStr "a"; JInt 0])].
Example C12_examples :
  get_data 200 (Some (JObj [("data", JObj [("a", JInt 1)])])) = OData (JObj [("a", JInt 1)]) /\
  get_data 200 (Some (JObj [("errors", JArr [])])) = OData JNull /\
  get_data 500 (Some (JObj [("data", JNull); ("errors", JArr [err1])])) = OHttpError 500 /\
  get_data 204 None = OInvalid /\
  get_data 200 (Some (JObj [("extensions", JObj [])])) = OInvalid /\
  get_data 200 (Some (JObj [("data", JObj [("a", JNull)]); ("errors", JArr [err1])])) =
    OMulti [mk_gerror (JStr "boom") JNull (JArr [JStr "a"; JInt 0]) JNull err1] (JObj [("a", JNull)]) /\
  spec_body (Some (JObj [("errors", JArr [err1])])) = true /\
  h_errors 200 (Some (JObj [("errors", JArr [err1])])) = true /\
  get_data 200 (Some (JObj [("errors", JStr "boom")])) = OCrash TypeError /\
  get_data 200 (Some (JObj [("errors", JArr [JObj [("msg", JStr "x")]])])) = OCrash KeyError.
Proof. vm_compute. repeat split. Qed.
