(* C06 — Input models accept exactly the schema's input values, with its defaults.
   Property theorems only; proofs live in Proofs/InputsP.v, Proofs/AcceptsP.v, Proofs/DefaultsP.v. *)
From Coq Require Import List String Ascii ZArith Bool Lia.
From AC Require Import Base.Json Base.Strs Gql.InSchema Gql.InCoerce Model.Names Model.Defaults Model.Inputs
  Py.PyEval Proofs.InputsP Proofs.FreshP Proofs.AcceptsP Proofs.DefaultsP Proofs.ValidateP Proofs.ByNameP Proofs.ReshapeP Proofs.ChainP Proofs.ConverseP.
Import ListNotations.
Local Open Scope string_scope.

(* ================= annotation = image of the GraphQL type ================= *)
(* full statement, unguarded since the list-item fix 1ef155d (was: partial under g21 + refuted by [String]!) *)
Theorem C06_input_ann_is_image : forall s cs t nb,
  fst (parse_input_field_type s cs t nb) = image s cs t nb.
Proof. exact ann_is_image. Qed.
Print Assumptions C06_input_ann_is_image.

(* regression of the former F21 witness: nullable items under a non-null list are Optional now *)
Example C06_nullable_items_under_nonnull_list :
  fst (parse_input_field_type [] [] (TNonNull (TList (TNamed "String"))) true) = AList (AOpt AStr) /\
  fst (parse_input_field_type [] [] (TList (TNonNull (TList (TNamed "Int")))) true)
    = AOpt (AList (AList (AOpt AInt))).
Proof. vm_compute. auto. Qed.

(* ================= required iff non-null without schema default; wire name kept ================= *)
Theorem C06_required_iff : forall s cs snake fs f,
  rhs_default (p_value (gen_field s cs snake fs f)) = DRequired <->
  (is_nonnull (i_type f) = true /\ i_default f = None).
Proof. exact required_iff. Qed.
Print Assumptions C06_required_iff.

Theorem C06_wire_name_kept : forall s cs snake fs f,
  match rhs_alias (p_value (gen_field s cs snake fs f)) with
  | Some a => a | None => p_name (gen_field s cs snake fs f) end = i_name f.
Proof. exact gen_field_wire. Qed.
Print Assumptions C06_wire_name_kept.

Theorem C06_rebuild_complete : forall cl c, In c cl -> has_forward_refs c = true ->
  In (c_name c) (rebuild_calls cl).
Proof. exact rebuild_complete. Qed.
Print Assumptions C06_rebuild_complete.

(* ================= every value the schema's coercion accepts builds the model ================= *)
Definition C06_accepts_full : Prop := forall s cs snake n t j cv,
  coerce_input n s t j = Some cv ->
  accepts n (env_of s cs snake) (fst (parse_input_field_type s cs t true)) j = true.

(* proved for values keyed by GraphQL names (the alias side of populate_by_name), at every fuel the
   coercion succeeds with, under the guard schema_ok = no input type with colliding field names (F18) and no
   scalar named Upload.  No exclusion for list shapes any more (F21 fixed by 1ef155d). *)
Theorem C06_input_accepts : forall s cs snake, schema_ok snake s = true ->
  forall n t j cv, coerce_input n s t j = Some cv ->
  accepts n (env_of s cs snake) (fst (parse_input_field_type s cs t true)) j = true.
Proof.
  intros s cs snake OK n t j cv C.
  apply (accepts_complete s cs snake OK n t true j cv); [discriminate | exact C].
Qed.
Print Assumptions C06_input_accepts.

(* the same value with every object key replaced, at every nesting level, by the generated Python field name
   (what a user writes with keyword arguments) is accepted too: populate_by_name *)
Theorem C06_input_accepts_by_name : forall s cs snake, schema_ok snake s = true ->
  forall n t j cv, coerce_input n s t j = Some cv ->
  accepts n (env_of s cs snake) (fst (parse_input_field_type s cs t true)) (rename n s snake t j) = true.
Proof.
  intros s cs snake OK n t j cv C.
  apply (accepts_by_name s cs snake OK n t true j cv); [discriminate | exact C].
Qed.
Print Assumptions C06_input_accepts_by_name.

Definition S21 : schema := [("In", DInput [{| i_name := "a"; i_type := TNonNull (TList (TNamed "String")); i_default := None |}])].
Definition V21 : json := JObj [("a", JArr [JNull])].

(* the former F21 witness is accepted now (kept as a regression case; K3 replays it on the real classes) *)
Example C06_nullable_item_accepted :
  coerce_input 5 S21 (TNonNull (TNamed "In")) V21 = Some (CObj [("a", CList [CNull])]) /\
  accepts 5 (env_of S21 [] true) (fst (parse_input_field_type S21 [] (TNonNull (TNamed "In")) true)) V21 = true.
Proof. vm_compute. auto. Qed.

(* regression of the former F18 witness (fix bec4417): fooBar / foo_bar stay two fields, the later one is
   foo_bar_ with alias fooBar; the guard holds and the value is accepted *)
Definition S18 : schema :=
  [("In", DInput [{| i_name := "foo_bar"; i_type := TNamed "String"; i_default := None |};
                  {| i_name := "fooBar"; i_type := TNamed "Int"; i_default := None |}])].
Example C06_collision_kept_apart :
  schema_ok true S18 = true /\
  map p_name (c_fields (gen_class S18 [] true "In" [{| i_name := "foo_bar"; i_type := TNamed "String"; i_default := None |};
                                                     {| i_name := "fooBar"; i_type := TNamed "Int"; i_default := None |}]))
    = ["foo_bar"; "foo_bar_"] /\
  accepts 5 (env_of S18 [] true) (fst (parse_input_field_type S18 [] (TNonNull (TNamed "In")) true))
          (JObj [("foo_bar", JStr "x")]) = true.
Proof. vm_compute. auto. Qed.

(* Python names of one input type are pairwise distinct by construction (the de-duplication loop) *)
Theorem C06_python_names_distinct : forall snake fs, NoDup (map i_name fs) ->
  NoDup (map (fun f => fname snake fs (i_name f)) fs).
Proof. exact fname_nodup. Qed.
Print Assumptions C06_python_names_distinct.

(* the Python name of a field is never the GraphQL name of a DIFFERENT field (fix a4347c6): populate_by_name
   cannot read another field's value *)
Theorem C06_python_name_not_other : forall snake fs f g, In f fs -> In g fs -> i_name f <> i_name g ->
  fname snake fs (i_name f) <> i_name g.
Proof. exact fname_not_other. Qed.
Print Assumptions C06_python_name_not_other.

(* hence population by alias and by Python name agree: from an object keyed by GraphQL names the field reads the
   value under its own GraphQL name, and from the same object keyed by Python names the same value (renamed) *)
Theorem C06_population_agrees : forall s cs snake fs ren kv f,
  names_ok_fields snake fs = true -> known_keys fs kv = true -> In f fs ->
  field_input (gen_field s cs snake fs f) kv = jlookup (i_name f) kv /\
  field_input (gen_field s cs snake fs f) (map (rename_entry ren snake fs) kv)
    = option_map (ren (i_type f)) (jlookup (i_name f) kv).
Proof.
  intros s cs snake fs ren kv f N K Hf. split.
  - apply (field_input_gen s cs snake fs kv f N K Hf).
  - apply (field_input_by_name s cs snake fs ren kv f N K Hf).
Qed.
Print Assumptions C06_population_agrees.

(* regression of the former F18b witness: class -> class__ (class_ is the GraphQL name of the other field) *)
Definition S18b : schema :=
  [("In", DInput [{| i_name := "class"; i_type := TNamed "Int"; i_default := None |};
                  {| i_name := "class_"; i_type := TNamed "String"; i_default := None |}])].
Example C06_cross_read_gone :
  schema_ok true S18b = true /\
  map p_name (c_fields (gen_class S18b [] true "In" [{| i_name := "class"; i_type := TNamed "Int"; i_default := None |};
                                                      {| i_name := "class_"; i_type := TNamed "String"; i_default := None |}]))
    = ["class__"; "class_"] /\
  accepts 5 (env_of S18b [] true) (fst (parse_input_field_type S18b [] (TNonNull (TNamed "In")) true))
          (JObj [("class_", JStr "x")]) = true.
Proof. vm_compute. auto. Qed.

(* what is left of schema_ok: GraphQL field names unique (schema validity) and no scalar named Upload.  The full
   statement is still false for the latter — inherently: Upload is an arbitrary Python class, no JSON value is an
   instance of it, while the schema's coercion of a custom scalar accepts any value.  Not a finding. *)
Theorem C06_accepts_full_refuted : ~ C06_accepts_full.
Proof.
  intro H.
  specialize (H [("Upload", DScalar); ("In", DInput [{| i_name := "u"; i_type := TNamed "Upload"; i_default := None |}])]
                [] true 5 (TNonNull (TNamed "In")) (JObj [("u", JStr "x")]) (CObj [("u", CStr "x")]) eq_refl).
  vm_compute in H. discriminate.
Qed.
Print Assumptions C06_accepts_full_refuted.

(* a value lacking a field the schema requires is refused (the key is absent under both names) *)
Theorem C06_refuses_missing_required : forall s cs snake nm fs f kv n,
  kind_of s nm = KInput fs -> names_ok_fields snake fs = true -> In f fs ->
  is_nonnull (i_type f) = true -> i_default f = None ->
  jlookup (i_name f) kv = None -> jlookup (fname snake fs (i_name f)) kv = None ->
  accepts n (env_of s cs snake) (AClass nm) (JObj kv) = false.
Proof. exact refuses_missing_required. Qed.
Print Assumptions C06_refuses_missing_required.

(* ================= validate (builds the instance, calls defaults) vs accepts (shape) ================= *)
(* full: the complete validation succeeds only on values of accepted shape *)
Theorem C06_validate_implies_accepts : forall E n a j v, validate n E a j = Ok v -> accepts n E a j = true.
Proof. exact validate_accepts. Qed.
Print Assumptions C06_validate_implies_accepts.

(* partial: an accepted value builds, provided the default expressions evaluate at every fuel below n
   (defaults_ok; satisfiable exactly when no default is an object literal, whose model_validate needs fuel:
   those are covered by K2/K3 and by Example C06_object_default_ok) *)
Theorem C06_accepts_implies_validate_partial : forall E n, defaults_ok n E ->
  forall a j, accepts n E a j = true -> exists v, validate n E a j = Ok v.
Proof. exact accepts_validate. Qed.
Print Assumptions C06_accepts_implies_validate_partial.

(* composition: every value the schema's coercion accepts builds the real instance *)
Theorem C06_input_builds_partial : forall s cs snake, schema_ok snake s = true ->
  forall n, defaults_ok n (env_of s cs snake) ->
  forall t j cv, coerce_input n s t j = Some cv ->
  exists v, validate n (env_of s cs snake) (fst (parse_input_field_type s cs t true)) j = Ok v.
Proof.
  intros s cs snake OK n D t j cv C. apply (accepts_validate _ n D).
  apply (accepts_complete s cs snake OK n t true j cv); [discriminate | exact C].
Qed.
Print Assumptions C06_input_builds_partial.

Definition SV : schema :=
  [("Kind", DEnum ["A"; "class"]);
   ("In", DInput [{| i_name := "k"; i_type := TNamed "Kind"; i_default := Some (CEnum "class") |};
                  {| i_name := "l"; i_type := TList (TNamed "Int"); i_default := Some (CList [CInt 1; CNull]) |};
                  {| i_name := "fooBar"; i_type := TNonNull (TNamed "Int"); i_default := None |};
                  {| i_name := "self"; i_type := TNamed "In"; i_default := None |}])].
Example C06_defaults_ok_satisfiable : schema_ok true SV = true /\ defaults_ok 7 (env_of SV [] true).
Proof.
  split; [vm_compute; reflexivity|].
  intros m cl f e _ Hcl Hf He. simpl in Hcl. destruct Hcl as [<-|[]].
  vm_compute in Hf.
  repeat (destruct Hf as [<-|Hf]; [vm_compute in He; destruct He as [He|He]; inversion He; subst;
                                   destruct m; vm_compute; eauto|]).
  contradiction.
Qed.

(* the converse (accepted by the model => accepted by the schema) is NOT claimed: pydantic ignores unknown
   keys, converts "12" to int, and Any accepts null for a non-null custom scalar *)
Theorem C06_converse_refuted : exists s cs snake n t j,
  accepts n (env_of s cs snake) (fst (parse_input_field_type s cs t true)) j = true /\
  coerce_input n s t j = None.
Proof.
  exists [("DT", DScalar); ("In", DInput [{| i_name := "d"; i_type := TNonNull (TNamed "DT"); i_default := None |}])],
         [], true, 5, (TNonNull (TNamed "In")), (JObj [("d", JNull)]). vm_compute. auto.
Qed.

(* ================= defaults ================= *)
Definition C06_default_full : Prop := forall s cs snake fs f lit n cv k,
  i_default f = Some lit -> coerced_default n s (i_type f) lit = Some cv -> n < k ->
  exists b v jd, default_body (rhs_default (p_value (gen_field s cs snake fs f))) = Some b /\
                 eval k (env_of s cs snake) b = Ok v /\ dump v = Some jd /\
                 strip_nulls jd = strip_nulls (json_of_cvalue cv).

(* proved for literals in good_default, by induction on the literal, at every fuel above the one the coercion
   succeeds with: scalars of the type's own kind, enum values (keyword-named included), null, (nested) lists of
   those, and — since fixes 9710ea3 / bef1df4 — object literals that spell out every field of their input type
   (good_value: enums, lists, nested objects inside), alone or as items of (nested) list defaults.
   schema_ok (no colliding field names, F18) is needed for the object shapes only. *)
Theorem C06_default_roundtrip_partial : forall s cs snake, schema_ok snake s = true ->
  forall fs f lit n cv k,
  emitted_default s f = Some lit -> good_default s lit (i_type f) = true ->
  coerced_default n s (i_type f) lit = Some cv -> n < k ->
  exists b v, default_body (rhs_default (p_value (gen_field s cs snake fs f))) = Some b /\
              eval k (env_of s cs snake) b = Ok v /\ dump v = Some (json_of_cvalue cv).
Proof. exact default_roundtrip. Qed.
Print Assumptions C06_default_roundtrip_partial.

(* object defaults that OMIT fields (the omitted ones nullable without default, or with an object-free default of a
   proved shape): the instance equals the coerced schema default modulo absent == null (strip_nulls removes
   null-valued object keys on both sides) — what the server sees.  Narrows the guard of the exact theorem. *)
Theorem C06_default_roundtrip_modulo_null : forall s cs snake, schema_ok snake s = true ->
  forall fs f lit n cv k,
  emitted_default s f = Some lit -> good_default_w s lit (i_type f) = true ->
  coerced_default n s (i_type f) lit = Some cv -> n < k ->
  exists b v jd, default_body (rhs_default (p_value (gen_field s cs snake fs f))) = Some b /\
                 eval k (env_of s cs snake) b = Ok v /\ dump v = Some jd /\
                 strip_nulls jd = strip_nulls (json_of_cvalue cv).
Proof. exact default_roundtrip_modulo_null. Qed.
Print Assumptions C06_default_roundtrip_modulo_null.

(* the guard of accepts => validate, made checkable: if every schema default is of a proved, object-free shape
   and a valid literal, defaults evaluate at every fuel; hence every coercible value BUILDS the instance *)
Theorem C06_simple_defaults_ok : forall s cs snake, schema_ok snake s = true -> simple_defaults s = true ->
  forall n, defaults_ok n (env_of s cs snake).
Proof. exact simple_defaults_ok. Qed.
Print Assumptions C06_simple_defaults_ok.

Theorem C06_input_builds : forall s cs snake, schema_ok snake s = true -> simple_defaults s = true ->
  forall n t j cv, coerce_input n s t j = Some cv ->
  exists v, validate n (env_of s cs snake) (fst (parse_input_field_type s cs t true)) j = Ok v.
Proof.
  intros s cs snake OK SDf n t j cv C.
  apply (C06_input_builds_partial s cs snake OK n (simple_defaults_ok s cs snake OK SDf n) t j cv C).
Qed.
Print Assumptions C06_input_builds.

Example C06_simple_defaults_satisfiable : schema_ok true SV = true /\ simple_defaults SV = true.
Proof. vm_compute. auto. Qed.

(* what an object default means: model_validate applied to the literal read as a value (any literal) *)
Theorem C06_object_default_denotes_literal : forall E ft lit m,
  exists v, eval m E (const_value_node ft lit true true) = Ok v /\ json_of_pyval v = Some (json_of_cvalue lit).
Proof. exact dict_expr_denotes. Qed.
Print Assumptions C06_object_default_denotes_literal.

(* model_validate on a literal (value mode) yields the coerced default *)
Theorem C06_validate_roundtrip : forall s cs snake, schema_ok snake s = true ->
  forall lit t nb n cv k, n <= k -> good_value s lit t = true -> (nb = false -> lit <> CNull) ->
  coerced_default n s t lit = Some cv ->
  exists v, validate k (env_of s cs snake) (fst (parse_input_field_type s cs t nb)) (json_of_cvalue lit) = Ok v /\
            dump v = Some (json_of_cvalue cv).
Proof. exact validate_roundtrip. Qed.
Print Assumptions C06_validate_roundtrip.

(* --- witnesses: literal shapes the faithful model gets wrong (finding F9) --- *)
Definition SD : schema :=
  [("Kind", DEnum ["A"; "B"; "class"]);
   ("Sub", DInput [{| i_name := "k"; i_type := TNamed "Kind"; i_default := None |};
                   {| i_name := "n"; i_type := TNamed "Int"; i_default := Some (CInt 3) |};
                   {| i_name := "s"; i_type := TList (TNamed "String"); i_default := None |}])].
Definition fld (t : gtype) (d : cvalue) : ifdef := {| i_name := "f"; i_type := t; i_default := Some d |}.
Definition EV (f : ifdef) : option (res pyval) :=
  option_map (eval 9 (env_of (SD ++ [("In", DInput [f])])%list [] true))
             (default_body (rhs_default (p_value (gen_field (SD ++ [("In", DInput [f])])%list [] true [f] f)))).
Definition CD (f : ifdef) : option cvalue :=
  match i_default f with Some d => coerced_default 9 (SD ++ [("In", DInput [f])])%list (i_type f) d | None => None end.

(* regression of the former F9a witness: an enum inside an object default is a plain string that
   model_validate resolves; omitted fields take the class defaults (n = 3) / None *)
Example C06_default_obj_enum_ok :
  let f := fld (TNamed "Sub") (CObj [("k", CEnum "B")]) in
  CD f = Some (CObj [("k", CEnum "B"); ("n", CInt 3)]) /\
  option_map (fun r => match r with Ok v => dump v | Err _ => None end) (EV f)
    = Some (Some (JObj [("k", JStr "B"); ("n", JInt 3); ("s", JNull)])).
Proof. vm_compute. auto. Qed.

(* regression of the former F9b witness: objects inside a list default are model instances *)
Example C06_default_list_obj_ok :
  let f := fld (TList (TNonNull (TNamed "Sub"))) (CList [CObj [("n", CInt 1)]]) in
  CD f = Some (CList [CObj [("n", CInt 1)]]) /\
  option_map (fun r => match r with Ok v => dump v | Err _ => None end) (EV f)
    = Some (Some (JArr [JObj [("k", JNull); ("n", JInt 1); ("s", JNull)]])).
Proof. vm_compute. auto. Qed.

(* the shapes covered by the theorem: every field spelled out, enum and nested list inside, list of objects *)
Example C06_good_object_shapes :
  good_default SD (CObj [("k", CEnum "class"); ("n", CInt 1); ("s", CList [CStr "x"; CNull])]) (TNamed "Sub") = true /\
  good_default SD (CList [CObj [("s", CNull); ("k", CEnum "A"); ("n", CInt 2)]; CNull]) (TNonNull (TList (TNamed "Sub"))) = true /\
  good_default SD (CObj [("k", CEnum "B")]) (TNamed "Sub") = false.
Proof. vm_compute. auto. Qed.

(* regression of the former F9c witness: a keyword-named enum value refers to the renamed member class_ *)
Example C06_default_kw_enum_ok :
  let f := fld (TNamed "Kind") (CEnum "class") in
  CD f = Some (CEnum "class") /\ EV f = Some (Ok (VEnum "Kind" "class")) /\
  good_default SD (CEnum "class") (TNamed "Kind") = true.
Proof. vm_compute. auto. Qed.

(* regression of the former F9d witnesses (fix e1f804e): the literal is given the shape of its type before it is
   emitted — [7] and "5" — and is then inside good_default; the coerced default is unchanged by the reshaping *)
Example C06_default_single_item_ok :
  let f := fld (TList (TNamed "Int")) (CInt 7) in
  emitted_default SD f = Some (CList [CInt 7]) /\ good_default SD (CList [CInt 7]) (TList (TNamed "Int")) = true /\
  CD f = Some (CList [CInt 7]) /\ coerced_default 9 SD (TList (TNamed "Int")) (CList [CInt 7]) = CD f /\
  EV f = Some (Ok (VList [VInt 7])).
Proof. vm_compute. auto. Qed.

Example C06_default_int_id_ok :
  let f := fld (TNamed "ID") (CInt 5) in
  emitted_default SD f = Some (CStr "5") /\ good_default SD (CStr "5") (TNamed "ID") = true /\
  CD f = Some (CStr "5") /\ EV f = Some (Ok (VStr "5")).
Proof. vm_compute. auto. Qed.

Example C06_default_scalar_in_object_ok :
  let f := fld (TNamed "Sub") (CObj [("s", CStr "q")]) in
  emitted_default SD f = Some (CObj [("s", CList [CStr "q"])]) /\
  good_default_w SD (CObj [("s", CList [CStr "q"])]) (TNamed "Sub") = true /\
  CD f = Some (CObj [("n", CInt 3); ("s", CList [CStr "q"])]).
Proof. vm_compute. auto. Qed.

(* literals of a proved object-free shape are left alone by the reshaping *)
Theorem C06_reshaping_identity_on_good : forall s lit t, good_default s lit t = true -> no_obj lit = true ->
  coerce_lit s lit t = lit.
Proof. exact coerce_lit_simple. Qed.
Print Assumptions C06_reshaping_identity_on_good.

(* regression of the former F18b witness inside an object default *)
Definition SDb : schema :=
  [("Sub", DInput [{| i_name := "class"; i_type := TNamed "Int"; i_default := None |};
                   {| i_name := "class_"; i_type := TNamed "Int"; i_default := None |}]);
   ("In", DInput [{| i_name := "f"; i_type := TNamed "Sub"; i_default := Some (CObj [("class_", CInt 1)]) |}])].
Example C06_default_cross_read_gone :
  option_map (fun b => match eval 10 (env_of SDb [] true) b with Ok v => option_map strip_nulls (dump v) | Err _ => None end)
    (default_body (rhs_default (p_value (gen_field SDb [] true
       [{| i_name := "f"; i_type := TNamed "Sub"; i_default := Some (CObj [("class_", CInt 1)]) |}]
       {| i_name := "f"; i_type := TNamed "Sub"; i_default := Some (CObj [("class_", CInt 1)]) |}))))
  = Some (Some (JObj [("class_", JInt 1)])).
Proof. vm_compute. reflexivity. Qed.

(* The full statement is neither proved nor refuted by a defect any more.  As STATED (JSON equality in the model,
   floats as opaque lexemes) it still fails on a representation artefact: an Int literal for a Float field inside an
   object default reads back 1.0 where the coerced default is 1 — numerically equal, and K3 compares numerically on
   the real code.  Beyond the proved guards (good_default_w) the open part is default chains through object
   defaults of omitted fields; it is exercised by K3 only. *)
Theorem C06_default_full_fails_only_on_float_repr : ~ C06_default_full.
Proof.
  intro H.
  pose (SF := [("Sub", DInput [{| i_name := "x"; i_type := TNamed "Float"; i_default := None |}])]).
  pose (f0 := {| i_name := "f"; i_type := TNamed "Sub"; i_default := Some (CObj [("x", CInt 1)]) |}).
  destruct (H (SF ++ [("In", DInput [f0])])%list [] true [f0] f0
              (CObj [("x", CInt 1)]) 9 (CObj [("x", CInt 1)]) 10 eq_refl eq_refl ltac:(repeat constructor))
    as [b [v [jd [H1 [H2 [H3 H4]]]]]].
  vm_compute in H1. inversion H1; subst b. vm_compute in H2. inversion H2; subst v.
  vm_compute in H3. inversion H3; subst jd. vm_compute in H4. discriminate.
Qed.
Print Assumptions C06_default_full_fails_only_on_float_repr.

(* ================= reshaping of default literals (fix e1f804e) preserves their coerced value ================= *)
Theorem C06_coerced_default_mono : forall s n m t lit cv, n <= m ->
  coerced_default n s t lit = Some cv -> coerced_default m s t lit = Some cv.
Proof. exact coerced_default_mono. Qed.
Print Assumptions C06_coerced_default_mono.

(* for EVERY literal (hypothesis: the GraphQL field names of each input type are unique = schema validity) *)
Theorem C06_reshape_preserves : forall s,
  (forall nm fs, kind_of s nm = KInput fs -> names_ok_fields true fs = true) ->
  forall lit t n cv, coerced_default n s t lit = Some cv ->
  exists m, coerced_default m s t (coerce_lit s lit t) = Some cv.
Proof. exact reshape_preserves. Qed.
Print Assumptions C06_reshape_preserves.

Lemma names_ok_snake a b fs : names_ok_fields a fs = names_ok_fields b fs.
Proof. induction fs as [|f r IH]; simpl; [reflexivity|]. rewrite IH. reflexivity. Qed.

(* the default theorem on the ORIGINAL schema literal d: if the reshaped literal is of a proved shape, the generated
   default equals (modulo absent == null) the coerced value of d itself *)
Theorem C06_default_roundtrip_original_literal : forall s cs snake, schema_ok snake s = true ->
  forall fs f d n cv,
  i_default f = Some d -> good_default_w s (coerce_lit s d (i_type f)) (i_type f) = true ->
  coerced_default n s (i_type f) d = Some cv ->
  exists k b v jd, default_body (rhs_default (p_value (gen_field s cs snake fs f))) = Some b /\
                   eval k (env_of s cs snake) b = Ok v /\ dump v = Some jd /\
                   strip_nulls jd = strip_nulls (json_of_cvalue cv).
Proof.
  intros s cs snake OK fs f d n cv D G C.
  assert (WF : forall nm fs0, kind_of s nm = KInput fs0 -> names_ok_fields true fs0 = true).
  { intros nm fs0 K. pose proof (kind_of_lookup s nm) as KL. rewrite K in KL.
    rewrite (names_ok_snake true snake). apply (schema_ok_input snake s nm fs0 OK KL). }
  destruct (reshape_preserves s WF d (i_type f) n cv C) as [m Hm].
  assert (ED : emitted_default s f = Some (coerce_lit s d (i_type f))) by (unfold emitted_default; rewrite D; reflexivity).
  destruct (default_roundtrip_modulo_null s cs snake OK fs f _ m cv (S m) ED G Hm ltac:(lia)) as [b [v [jd H]]].
  exists (S m), b, v, jd. exact H.
Qed.
Print Assumptions C06_default_roundtrip_original_literal.

(* ================= default chains through object defaults of omitted fields ================= *)
(* Guard on the schema (boolean): every schema default is of a covered shape — scalars, enums, null, lists, objects
   that may omit ANY defaulted or nullable field — and already has the shape of its type.  Fuel accounting is
   explicit: one unit of the specification's fuel per nesting level costs at most two on the Python side
   (validate -> default factory -> model_validate), hence 2n < k. *)
Theorem C06_default_roundtrip_chain : forall s cs snake, schema_ok snake s = true -> defaults_good s = true ->
  forall fs f lit n cv k,
  emitted_default s f = Some lit -> good_default_c s lit (i_type f) = true ->
  coerced_default n s (i_type f) lit = Some cv -> 2 * n < k ->
  exists b v jd, default_body (rhs_default (p_value (gen_field s cs snake fs f))) = Some b /\
                 eval k (env_of s cs snake) b = Ok v /\ dump v = Some jd /\
                 strip_nulls jd = strip_nulls (json_of_cvalue cv).
Proof.
  intros s cs snake OK DG. apply (default_roundtrip_chain s cs snake OK (defaults_good_spec s DG)).
Qed.
Print Assumptions C06_default_roundtrip_chain.

(* model_validate of a literal whose omitted fields chain through object defaults *)
Theorem C06_validate_roundtrip_chain : forall s cs snake, schema_ok snake s = true -> defaults_good s = true ->
  forall n lit t nb cv k, 2 * n <= k -> good_value_c s lit t = true -> (nb = false -> lit <> CNull) ->
  coerced_default n s t lit = Some cv ->
  exists v jd, validate k (env_of s cs snake) (fst (parse_input_field_type s cs t nb)) (json_of_cvalue lit) = Ok v /\
               dump v = Some jd /\ strip_nulls jd = strip_nulls (json_of_cvalue cv).
Proof.
  intros s cs snake OK DG n. apply (proj1 (chain_roundtrip s cs snake OK (defaults_good_spec s DG) n)).
Qed.
Print Assumptions C06_validate_roundtrip_chain.

Definition SCH : schema :=
  [("Kind", DEnum ["A"; "class"]);
   ("C", DInput [{| i_name := "x"; i_type := TNamed "Int"; i_default := None |};
                 {| i_name := "k"; i_type := TNamed "Kind"; i_default := Some (CEnum "class") |}]);
   ("B", DInput [{| i_name := "c"; i_type := TNamed "C"; i_default := Some (CObj [("x", CInt 1)]) |};
                 {| i_name := "y"; i_type := TNonNull (TNamed "Int"); i_default := Some (CInt 2) |};
                 {| i_name := "cs"; i_type := TList (TNonNull (TNamed "C")); i_default := Some (CList [CObj []]) |}]);
   ("A", DInput [{| i_name := "b"; i_type := TNamed "B"; i_default := Some (CObj []) |}])].
Example C06_chain_hypotheses_satisfiable :
  schema_ok true SCH = true /\ defaults_good SCH = true /\
  good_default_c SCH (CObj []) (TNamed "B") = true /\ good_default_w SCH (CObj []) (TNamed "B") = false /\
  coerced_default 4 SCH (TNamed "B") (CObj []) =
    Some (CObj [("c", CObj [("x", CInt 1); ("k", CEnum "class")]); ("y", CInt 2);
                ("cs", CList [CObj [("k", CEnum "class")]])]) /\
  match eval 9 (env_of SCH [] true) (const_value_node "B" (CObj []) true false) with
  | Ok v => option_map strip_nulls (dump v)
  | Err _ => None
  end = Some (JObj [("c", JObj [("x", JInt 1); ("k", JStr "class")]); ("y", JInt 2);
                    ("cs", JArr [JObj [("k", JStr "class")]])]).
Proof. vm_compute. repeat split; reflexivity. Qed.

(* ================= non-vacuity ================= *)
Definition SX : schema :=
  [("Kind", DEnum ["A"; "B"; "class"]);
   ("Sub", DInput [{| i_name := "k"; i_type := TNamed "Kind"; i_default := Some (CEnum "A") |};
                   {| i_name := "fooBar"; i_type := TNonNull (TNamed "Int"); i_default := None |};
                   {| i_name := "tags"; i_type := TList (TList (TNonNull (TNamed "String"))); i_default := Some (CList [CList [CStr "x"]; CNull]) |}]);
   ("In", DInput [{| i_name := "class"; i_type := TNonNull (TList (TNonNull (TNamed "Sub"))); i_default := None |};
                  {| i_name := "self"; i_type := TNamed "In"; i_default := None |};
                  {| i_name := "sub"; i_type := TNamed "Sub"; i_default := Some (CObj [("fooBar", CInt 4)]) |}])].
Definition JX : json :=
  JObj [("class", JArr [JObj [("fooBar", JInt 1); ("tags", JArr [JNull; JArr [JStr "t"]])]]);
        ("self", JObj [("class", JArr [])])].

Example C06_hypotheses_satisfiable :
  schema_ok true SX = true /\
  (exists cv, coerce_input 6 SX (TNonNull (TNamed "In")) JX = Some cv) /\
  accepts 6 (env_of SX [] true) (fst (parse_input_field_type SX [] (TNonNull (TNamed "In")) true)) JX = true /\
  good_default SX (CList [CList [CStr "x"]; CNull]) (TList (TList (TNonNull (TNamed "String")))) = true /\
  good_default SX (CEnum "A") (TNamed "Kind") = true /\ good_default SX (CEnum "class") (TNamed "Kind") = true.
Proof. vm_compute. repeat split; eauto. Qed.

Example C06_rename_nontrivial :
  rename 6 SX true (TNonNull (TNamed "In")) JX =
  JObj [("class_", JArr [JObj [("foo_bar", JInt 1); ("tags", JArr [JNull; JArr [JStr "t"]])]]);
        ("self", JObj [("class_", JArr [])])].
Proof. vm_compute. reflexivity. Qed.

(* an object default of scalars works in the model: instance with only required fields, dumped by alias *)
Example C06_object_default_ok :
  match validate 9 (env_of SX [] true) (AClass "In") (JObj [("class", JArr [])]) with
  | Ok v => dump v
  | Err _ => None
  end = Some (JObj [("class", JArr []); ("self", JNull);
                    ("sub", JObj [("k", JStr "A"); ("fooBar", JInt 4);
                                  ("tags", JArr [JArr [JStr "x"]; JNull])])]).
Proof. vm_compute. reflexivity. Qed.

(* the former F9a / F9b witnesses are inside the wider guard (they were outside good_default) *)
Example C06_good_default_w_witnesses :
  good_default_w SD (CObj [("k", CEnum "B")]) (TNamed "Sub") = true /\
  good_default SD (CObj [("k", CEnum "B")]) (TNamed "Sub") = false /\
  good_default_w SD (CList [CObj [("n", CInt 1)]]) (TList (TNonNull (TNamed "Sub"))) = true /\
  strip_nulls (JObj [("k", JStr "B"); ("n", JInt 3); ("s", JNull)]) = JObj [("k", JStr "B"); ("n", JInt 3)].
Proof. vm_compute. auto. Qed.

(* ================= the "refuses" half: accepted by the model => accepted by the schema ================= *)
(* On values in canonical form (canon: leaves of the JSON kind of their type, Int in 32 bits, only known keys,
   no null for a non-null custom scalar — exactly the places where pydantic's lax mode / Any / extra=ignore are
   more liberal than GraphQL, see C06_converse_refuted) a value the generated model accepts is accepted by the
   schema's coercion at some fuel.  Hypotheses: schema_ok and "every schema default is a valid literal" (schema
   validity).  Contrapositive: the model refuses null at non-null positions, missing required fields, unknown enum
   values and list/object/scalar shape mismatches at least as strictly as the schema. *)
Theorem C06_input_accepts_only : forall s cs snake, schema_ok snake s = true ->
  (forall nm fs f d, kind_of s nm = KInput fs -> In f fs -> i_default f = Some d ->
     exists m cv, coerced_default m s (i_type f) d = Some cv) ->
  forall n t nb j, canon s j t = true ->
  accepts n (env_of s cs snake) (fst (parse_input_field_type s cs t nb)) j = true ->
  exists m cv, coerce_input m s t j = Some cv.
Proof. exact accepts_sound. Qed.
Print Assumptions C06_input_accepts_only.

Theorem C06_refuses_what_the_schema_refuses : forall s cs snake, schema_ok snake s = true ->
  (forall nm fs f d, kind_of s nm = KInput fs -> In f fs -> i_default f = Some d ->
     exists m cv, coerced_default m s (i_type f) d = Some cv) ->
  forall n t nb j, canon s j t = true -> (forall m, coerce_input m s t j = None) ->
  accepts n (env_of s cs snake) (fst (parse_input_field_type s cs t nb)) j = false.
Proof.
  intros s cs snake OK VD n t nb j Cn R. apply not_true_iff_false. intro A.
  destruct (accepts_sound s cs snake OK VD n t nb j Cn A) as [m [cv H]]. rewrite R in H. discriminate.
Qed.
Print Assumptions C06_refuses_what_the_schema_refuses.

Theorem C06_coerce_input_mono : forall s n m t j cv, n <= m ->
  coerce_input n s t j = Some cv -> coerce_input m s t j = Some cv.
Proof. exact coerce_input_mono. Qed.
Print Assumptions C06_coerce_input_mono.

Example C06_canon_examples :
  canon SX JX (TNonNull (TNamed "In")) = true /\
  canon SX (JObj [("class", JArr [JObj [("fooBar", JStr "1")]])]) (TNonNull (TNamed "In")) = false /\
  canon SX (JObj [("class", JNull)]) (TNonNull (TNamed "In")) = true /\
  accepts 6 (env_of SX [] true) (fst (parse_input_field_type SX [] (TNonNull (TNamed "In")) true))
          (JObj [("class", JNull)]) = false /\
  accepts 6 (env_of SX [] true) (fst (parse_input_field_type SX [] (TNonNull (TNamed "In")) true))
          (JObj [("class", JArr [JObj [("fooBar", JInt 1); ("k", JStr "NOPE")]])]) = false.
Proof. vm_compute. auto. Qed.
