(* C06 — Input models accept exactly the schema's input values, with its defaults.
   Property theorems only; proofs live in Proofs/InputsP.v, Proofs/AcceptsP.v, Proofs/DefaultsP.v. *)
From Coq Require Import List String Ascii ZArith Bool.
From AC Require Import Base.Json Base.Strs Gql.InSchema Gql.InCoerce Model.Names Model.Defaults Model.Inputs
  Py.PyEval Proofs.InputsP Proofs.AcceptsP Proofs.DefaultsP.
Import ListNotations.
Local Open Scope string_scope.

(* ================= annotation = image of the GraphQL type ================= *)
Definition C06_ann_image_full : Prop := forall s cs t,
  fst (parse_input_field_type s cs t true) = image s cs t true.

(* proved outside finding class F21 (g21: no nullable item type under a list whose own flag is non-null) *)
Theorem C06_input_ann_is_image_partial : forall s cs t nb, g21 t nb = true ->
  fst (parse_input_field_type s cs t nb) = image s cs t nb.
Proof. exact ann_is_image. Qed.
Print Assumptions C06_input_ann_is_image_partial.

Theorem C06_ann_image_refuted : ~ C06_ann_image_full.
Proof.
  intro H. specialize (H [] [] (TNonNull (TList (TNamed "String")))). vm_compute in H. discriminate.
Qed.
Print Assumptions C06_ann_image_refuted.

(* ================= required iff non-null without schema default; wire name kept ================= *)
Theorem C06_required_iff : forall s cs snake f,
  rhs_default (p_value (gen_field s cs snake f)) = DRequired <->
  (is_nonnull (i_type f) = true /\ i_default f = None).
Proof. exact required_iff. Qed.
Print Assumptions C06_required_iff.

Theorem C06_wire_name_kept : forall s cs snake f,
  match rhs_alias (p_value (gen_field s cs snake f)) with
  | Some a => a | None => p_name (gen_field s cs snake f) end = i_name f.
Proof. exact gen_field_wire. Qed.
Print Assumptions C06_wire_name_kept.

Theorem C06_rebuild_complete : forall cl c, In c cl -> has_forward_refs c = true ->
  In (c_name c) (rebuild_calls cl).
Proof. exact rebuild_complete. Qed.
Print Assumptions C06_rebuild_complete.

(* ================= every value the schema's coercion accepts builds the model ================= *)
Definition C06_accepts_full : Prop := forall s cs snake n t j cv,
  coerce_input n s t j = Some cv ->
  accepts n (env_of s cs snake) (fst (parse_input_field_type s cs t true)) j = true.

(* proved for values keyed by GraphQL names (the alias side of populate_by_name), at every fuel the
   coercion succeeds with, under the guards: schema_ok = no input type with colliding field names (F18),
   no field type in class F21, no scalar named Upload; g21 for the top-level type *)
Theorem C06_input_accepts_partial : forall s cs snake, schema_ok snake s = true ->
  forall n t j cv, g21 t true = true -> coerce_input n s t j = Some cv ->
  accepts n (env_of s cs snake) (fst (parse_input_field_type s cs t true)) j = true.
Proof.
  intros s cs snake OK n t j cv G C.
  apply (accepts_complete s cs snake OK n t true j cv G); [discriminate | exact C].
Qed.
Print Assumptions C06_input_accepts_partial.

Definition S21 : schema := [("In", DInput [{| i_name := "a"; i_type := TNonNull (TList (TNamed "String")); i_default := None |}])].
Definition V21 : json := JObj [("a", JArr [JNull])].

Theorem C06_accepts_refuted_nullable_item : exists s cs snake n t j cv,
  coerce_input n s t j = Some cv /\
  accepts n (env_of s cs snake) (fst (parse_input_field_type s cs t true)) j = false.
Proof.
  exists S21, [], true, 5, (TNonNull (TNamed "In")), V21, (CObj [("a", CList [CNull])]). vm_compute. auto.
Qed.
Print Assumptions C06_accepts_refuted_nullable_item.

Theorem C06_accepts_full_refuted : ~ C06_accepts_full.
Proof.
  intro H. specialize (H S21 [] true 5 (TNonNull (TNamed "In")) V21 (CObj [("a", CList [CNull])]) eq_refl).
  vm_compute in H. discriminate.
Qed.

(* a value lacking a field the schema requires is refused (the key is absent under both names) *)
Theorem C06_refuses_missing_required : forall s cs snake nm fs f kv n,
  kind_of s nm = KInput fs -> names_ok_fields snake fs = true -> In f fs ->
  is_nonnull (i_type f) = true -> i_default f = None ->
  jlookup (i_name f) kv = None -> jlookup (py_name snake (i_name f)) kv = None ->
  accepts n (env_of s cs snake) (AClass nm) (JObj kv) = false.
Proof. exact refuses_missing_required. Qed.
Print Assumptions C06_refuses_missing_required.

(* the converse (accepted by the model => accepted by the schema) is NOT claimed: pydantic ignores unknown
   keys, converts "12" to int, and Any accepts null for a non-null custom scalar *)
Theorem C06_converse_refuted : exists s cs snake n t j,
  accepts n (env_of s cs snake) (fst (parse_input_field_type s cs t true)) j = true /\
  coerce_input n s t j = None.
Proof.
  exists [("DT", DScalar); ("In", DInput [{| i_name := "d"; i_type := TNonNull (TNamed "DT"); i_default := None |}])],
         [], true, 5, (TNonNull (TNamed "In")), (JObj [("d", JNull)]). vm_compute. auto.
Qed.

(* ================= defaults ================= *)
Definition C06_default_full : Prop := forall s cs snake f lit n cv m,
  i_default f = Some lit -> coerced_default n s (i_type f) lit = Some cv ->
  exists b v, default_body (rhs_default (p_value (gen_field s cs snake f))) = Some b /\
              eval m (env_of s cs snake) b = Ok v /\ dump v = Some (json_of_cvalue cv).

(* proved for literals in good_default: scalars of the type's own kind, enum values that are not Python
   keywords, null, and (nested) lists of those; at every fuel, by induction on the literal *)
Theorem C06_default_roundtrip_partial : forall s cs snake f lit n cv m,
  i_default f = Some lit -> good_default s lit (i_type f) = true ->
  coerced_default n s (i_type f) lit = Some cv ->
  exists b v, default_body (rhs_default (p_value (gen_field s cs snake f))) = Some b /\
              eval m (env_of s cs snake) b = Ok v /\ dump v = Some (json_of_cvalue cv).
Proof. exact default_roundtrip. Qed.
Print Assumptions C06_default_roundtrip_partial.

(* --- witnesses: literal shapes the faithful model gets wrong (finding F9) --- *)
Definition SD : schema :=
  [("Kind", DEnum ["A"; "B"; "class"]);
   ("Sub", DInput [{| i_name := "k"; i_type := TNamed "Kind"; i_default := None |};
                   {| i_name := "n"; i_type := TNamed "Int"; i_default := Some (CInt 3) |};
                   {| i_name := "s"; i_type := TList (TNamed "String"); i_default := None |}])].
Definition fld (t : gtype) (d : cvalue) : ifdef := {| i_name := "f"; i_type := t; i_default := Some d |}.
Definition EV (f : ifdef) : option (res pyval) :=
  option_map (eval 9 (env_of (SD ++ [("In", DInput [f])])%list [] true))
             (default_body (rhs_default (p_value (gen_field (SD ++ [("In", DInput [f])])%list [] true f)))).
Definition CD (f : ifdef) : option cvalue :=
  match i_default f with Some d => coerced_default 9 (SD ++ [("In", DInput [f])])%list (i_type f) d | None => None end.

(* object default containing an enum value: emitted as Sub.B -> AttributeError *)
Theorem C06_default_refuted_obj_enum :
  let f := fld (TNamed "Sub") (CObj [("k", CEnum "B")]) in
  CD f = Some (CObj [("k", CEnum "B"); ("n", CInt 3)]) /\ EV f = Some (Err EAttribute).
Proof. vm_compute. auto. Qed.

(* list default containing an object: a Field(...) call inside the list -> list of FieldInfo, not serialisable *)
Theorem C06_default_refuted_list_obj :
  let f := fld (TList (TNonNull (TNamed "Sub"))) (CList [CObj [("n", CInt 1)]]) in
  CD f = Some (CList [CObj [("n", CInt 1)]]) /\ EV f = Some (Ok (VList [VFieldInfo])) /\
  dump (VList [VFieldInfo]) = None.
Proof. vm_compute. auto. Qed.

(* enum default whose value is a Python keyword: Kind.class is a syntax error (the member is class_) *)
Theorem C06_default_refuted_kw_enum :
  let f := fld (TNamed "Kind") (CEnum "class") in
  CD f = Some (CEnum "class") /\ EV f = Some (Err ESyntax).
Proof. vm_compute. auto. Qed.

(* a single value for a list type / an Int literal for ID: emitted uncoerced *)
Theorem C06_default_refuted_single_item :
  let f := fld (TList (TNamed "Int")) (CInt 7) in
  CD f = Some (CList [CInt 7]) /\ EV f = Some (Ok (VInt 7)).
Proof. vm_compute. auto. Qed.

Theorem C06_default_refuted_int_id :
  let f := fld (TNamed "ID") (CInt 5) in
  CD f = Some (CStr "5") /\ EV f = Some (Ok (VInt 5)).
Proof. vm_compute. auto. Qed.

Theorem C06_default_full_refuted : ~ C06_default_full.
Proof.
  intro H.
  destruct (H (SD ++ [("In", DInput [fld (TNamed "ID") (CInt 5)])])%list [] true (fld (TNamed "ID") (CInt 5))
              (CInt 5) 9 (CStr "5") 9 eq_refl eq_refl) as [b [v [H1 [H2 H3]]]].
  vm_compute in H1. inversion H1; subst b. vm_compute in H2. inversion H2; subst v. vm_compute in H3. discriminate.
Qed.
Print Assumptions C06_default_full_refuted.

(* ================= non-vacuity ================= *)
Definition SX : schema :=
  [("Kind", DEnum ["A"; "B"; "class"]);
   ("Sub", DInput [{| i_name := "k"; i_type := TNamed "Kind"; i_default := Some (CEnum "A") |};
                   {| i_name := "fooBar"; i_type := TNonNull (TNamed "Int"); i_default := None |};
                   {| i_name := "tags"; i_type := TList (TList (TNonNull (TNamed "String"))); i_default := Some (CList [CList [CStr "x"]; CNull]) |}]);
   ("In", DInput [{| i_name := "class"; i_type := TNonNull (TList (TNonNull (TNamed "Sub"))); i_default := None |};
                  {| i_name := "self"; i_type := TNamed "In"; i_default := None |};
                  {| i_name := "sub"; i_type := TNamed "Sub"; i_default := Some (CObj [("fooBar", CInt 4)]) |}])].
Definition JX : json :=
  JObj [("class", JArr [JObj [("fooBar", JInt 1); ("tags", JArr [JNull; JArr [JStr "t"]])]]);
        ("self", JObj [("class", JArr [])])].

Example C06_hypotheses_satisfiable :
  schema_ok true SX = true /\ g21 (TNonNull (TNamed "In")) true = true /\
  (exists cv, coerce_input 6 SX (TNonNull (TNamed "In")) JX = Some cv) /\
  accepts 6 (env_of SX [] true) (fst (parse_input_field_type SX [] (TNonNull (TNamed "In")) true)) JX = true /\
  good_default SX (CList [CList [CStr "x"]; CNull]) (TList (TList (TNonNull (TNamed "String")))) = true /\
  good_default SX (CEnum "A") (TNamed "Kind") = true /\ good_default SX (CEnum "class") (TNamed "Kind") = false.
Proof. vm_compute. repeat split; eauto. Qed.

(* an object default of scalars works in the model: instance with only required fields, dumped by alias *)
Example C06_object_default_ok :
  match validate 9 (env_of SX [] true) (AClass "In") (JObj [("class", JArr [])]) with
  | Ok v => dump v
  | Err _ => None
  end = Some (JObj [("class", JArr []); ("self", JNull);
                    ("sub", JObj [("k", JStr "A"); ("fooBar", JInt 4);
                                  ("tags", JArr [JArr [JStr "x"]; JNull])])]).
Proof. vm_compute. reflexivity. Qed.
