(* C19 — The schema source does not change the generated client.
   Property theorems only; proofs live in Proofs/LoaderP.v and Proofs/IntrospectP.v.
   [false]/[true] arguments: the code in /repo / the code with fixes/C19-*.diff applied. *)
From Coq Require Import List String Ascii ZArith Bool Permutation.
From AC Require Import Base.Sexp Base.Strs Base.Json Model.SchemaSrc Model.Loader Model.Introspect
  Proofs.LoaderP Proofs.IntrospectP.
Import ListNotations.
Local Open Scope string_scope.
Local Open Scope list_scope.

(* ===================== A. one file / any split into a directory tree ===================== *)

(* For every tree (any listing order, any file names, any nesting, any number of ignored files)
   whose selected files together hold a permutation of the definitions ds: what reaches
   build_ast_schema is a permutation of ds. *)
Theorem C19_split_invariant_defs : forall fx tree ds,
  Permutation (flat_map defs_of (filter (selected fx) tree)) ds ->
  Permutation (loaded_defs fx tree) ds.
Proof. exact split_permutation. Qed.
Print Assumptions C19_split_invariant_defs.

(* ... hence, for a schema without `extend`, the type map is the same finite map and the same
   list of types up to order: the same classes are generated, possibly in another order *)
Theorem C19_split_invariant : forall fx tree ds,
  NoDup (type_names ds) -> has_ext ds = false ->
  Permutation (flat_map defs_of (filter (selected fx) tree)) ds ->
  Permutation (type_map (loaded_defs fx tree)) (type_map ds) /\
  forall n, assoc_get n (type_map (loaded_defs fx tree)) = assoc_get n (type_map ds).
Proof. exact split_invariant. Qed.
Print Assumptions C19_split_invariant.

(* ... and the input classes the generator derives from it are the same classes (same fields, same
   required flags, same defaults), listed in another order *)
Theorem C19_split_same_input_classes : forall fx gx tree ds,
  NoDup (type_names ds) -> has_ext ds = false ->
  Permutation (flat_map defs_of (filter (selected fx) tree)) ds ->
  Permutation (gen_inputs gx (inputs_of (type_map (loaded_defs fx tree))))
              (gen_inputs gx (inputs_of (type_map ds))).
Proof. exact split_same_input_classes. Qed.
Print Assumptions C19_split_same_input_classes.

(* with extensions: same types, same kind and header, members equal up to the order in which the
   extensions contribute them *)
Theorem C19_split_invariant_ext : forall fx tree ds n,
  NoDup (type_names ds) ->
  Permutation (flat_map defs_of (filter (selected fx) tree)) ds ->
  lookup_equiv (assoc_get n (type_map (loaded_defs fx tree))) (assoc_get n (type_map ds)).
Proof. exact split_invariant_ext. Qed.
Print Assumptions C19_split_invariant_ext.

(* the order in which the file system lists a directory is irrelevant: same text, byte for byte *)
Theorem C19_listing_order_irrelevant : forall fx tree tree',
  NoDup (map e_path tree) -> Permutation tree tree' -> load_dir fx tree = load_dir fx tree'.
Proof. exact load_order_independent. Qed.
Print Assumptions C19_listing_order_irrelevant.

(* files with another extension are ignored *)
Theorem C19_unselected_ignored : forall fx tree junk,
  forallb (fun e => negb (selected fx e)) junk = true ->
  load_dir fx (tree ++ junk) = load_dir fx tree.
Proof. exact load_unselected_ignored. Qed.
Print Assumptions C19_unselected_ignored.

(* loading succeeds iff every selected entry is a readable file; the text is the sorted join *)
Theorem C19_load_ok_iff : forall fx tree,
  (exists t, load_dir fx tree = inr t) <-> all_readable fx tree = true.
Proof. exact load_ok_iff. Qed.
Print Assumptions C19_load_ok_iff.

Theorem C19_load_text : forall fx tree, all_readable fx tree = true ->
  load_dir fx tree = inr (join_nl (map e_text (walk_sorted fx tree))).
Proof. exact load_ok_text. Qed.

(* ... and otherwise the error names the least (in path order) offending entry *)
Theorem C19_load_first_error : forall fx tree x, load_dir fx tree = inl x ->
  exists e, In e (filter (selected fx) tree) /\ readable e = false /\ x = err_of e /\
    forall e', In e' (filter (selected fx) tree) -> readable e' = false ->
               path_leb (e_path e) (e_path e') = true.
Proof. exact load_first_error. Qed.
Print Assumptions C19_load_first_error.

(* a file `stem.ext` is selected whatever the stem (dots, spaces, non-ASCII bytes); a name without
   a dot never is *)
Theorem C19_extension_selected : forall stem ext, stem <> [] -> ext <> [] ->
  forallb (fun c => negb (is_dot c)) ext = true ->
  suffix_chars (stem ++ "."%char :: ext) = "."%char :: ext.
Proof. exact suffix_of_ext. Qed.

(* full statement for loading: a tree whose FILES are all fine loads.  False of /repo: *)

Definition C19_split_loads_full : Prop := forall tree,
  files_readable false tree = true -> exists t, load_dir false tree = inr t.

Theorem C19_split_refuted_dir : ~ C19_split_loads_full.
Proof.
  intro H.
  destruct (H [ {| e_path := ["v1.graphql"]; e_isdir := true; e_text := ""; e_defs := None |};
                {| e_path := ["v1.graphql"; "schema.graphql"]; e_isdir := false;
                   e_text := "type Query { a: Int }";
                   e_defs := Some [ {| d_ext := false; d_name := "Query";
                                       d_body := {| b_kind := "object"; b_header := "";
                                                    b_members := [MOp "a: Int"] |} |} ] |} ] eq_refl)
    as [t Ht].
  vm_compute in Ht. discriminate.
Qed.
Print Assumptions C19_split_refuted_dir.

(* proved with the defect class as guard, and unguarded for the patched walk *)
Theorem C19_split_loads_partial : forall tree,
  files_readable false tree = true -> suffixed_dir tree = false -> exists t, load_dir false tree = inr t.
Proof. exact split_loads_partial. Qed.
Print Assumptions C19_split_loads_partial.

Theorem C19_split_loads_fixed : forall tree,
  files_readable true tree = true -> exists t, load_dir true tree = inr t.
Proof. exact split_loads_fixed. Qed.

(* ===================== B. the introspection request ===================== *)
Theorem C19_headers_resolved : forall en hs xs,
  resolve_headers en hs = inr xs <-> Forall2 (header_ok en) hs xs.
Proof. exact resolve_headers_ok. Qed.
Print Assumptions C19_headers_resolved.

Theorem C19_headers_refused : forall en hs n,
  resolve_headers en hs = inl n <->
  exists pre k v post, hs = pre ++ (k, v) :: post /\
    (exists xs, Forall2 (header_ok en) pre xs) /\ header_value en v = inl n.
Proof. exact resolve_headers_err. Qed.

Theorem C19_header_plain : forall en v, starts_dollar v = false -> header_value en v = inr v.
Proof. exact header_value_plain. Qed.

Theorem C19_header_env : forall en name x,
  starts_dollar name = false -> assoc_get name en = Some x -> x <> "" ->
  header_value en (String "$" name) = inr x.
Proof. exact header_value_env. Qed.

Theorem C19_header_env_missing : forall en name,
  starts_dollar name = false -> (assoc_get name en = None \/ assoc_get name en = Some "") ->
  header_value en (String "$" name) = inl name.
Proof. exact header_value_missing. Qed.

(* URL, verify flag and resolved headers are what httpx.post receives; descriptions are never asked *)
Theorem C19_request_sent : forall en s q,
  request_of en s = inr q <->
  (q_url q = s_url s /\ q_verify q = s_verify s /\ q_descriptions q = false /\
   Forall2 (header_ok en) (s_headers s) (q_headers q)).
Proof. exact request_of_spec. Qed.
Print Assumptions C19_request_sent.

(* ===================== C. introspection outcomes ===================== *)
(* full statement: every failure class surfaces as the introspection error *)
Definition C19_introspect_outcomes_full : Prop := forall u r deep,
  any_failure u r deep = true -> exists e, schema_from_url false u r deep = SError e.

(* total and exclusive: a schema is built exactly outside every failure class ... *)
Theorem C19_introspect_built_iff : forall fx u r deep,
  (exists d, schema_from_url fx u r deep = SBuilt d) <-> any_failure u r deep = false.
Proof. exact built_iff_no_failure. Qed.
Print Assumptions C19_introspect_built_iff.

(* ... and inside, the first failing check (in the documented order) decides the error *)
Theorem C19_introspect_outcomes_table : forall fx r deep,
  (non_2xx r = true -> schema_from_url fx UOk r deep = SError (EStatus (r_status r))) /\
  (non_2xx r = false -> non_json r = true -> schema_from_url fx UOk r deep = SError ENotJson) /\
  (non_2xx r = false -> non_json r = false -> bad_format r = true ->
     schema_from_url fx UOk r deep = SError EFormat) /\
  (non_2xx r = false -> non_json r = false -> bad_format r = false -> has_errors r = true ->
     exists e, schema_from_url fx UOk r deep = SError (EErrors e) /\ truthy e = true) /\
  (non_2xx r = false -> non_json r = false -> bad_format r = false -> has_errors r = false ->
     data_not_object r = true -> schema_from_url fx UOk r deep = SError EDataKey) /\
  (non_2xx r = false -> non_json r = false -> bad_format r = false -> has_errors r = false ->
     data_not_object r = false -> data_malformed r deep = true ->
     if fx then schema_from_url fx UOk r deep = SError EBuild
     else exists x, schema_from_url fx UOk r deep = SCrash x) /\
  (any_failure UOk r deep = false ->
     exists d, data_of r = Some (JObj d) /\ schema_from_url fx UOk r deep = SBuilt d).
Proof. exact outcome_table. Qed.
Print Assumptions C19_introspect_outcomes_table.

Theorem C19_introspect_outcomes_partial : forall u r deep,
  any_failure u r deep = true -> g_c19_errors u r deep = true ->
  exists e, schema_from_url false u r deep = SError e.
Proof. exact failure_is_introspection_error_partial. Qed.
Print Assumptions C19_introspect_outcomes_partial.

(* the guard is exactly the defect class *)
Theorem C19_introspect_outside_guard : forall u r deep,
  any_failure u r deep = true -> g_c19_errors u r deep = false ->
  exists x, schema_from_url false u r deep = SCrash x.
Proof. exact outside_guard_crashes. Qed.

Theorem C19_introspect_outcomes_fixed : forall u r deep,
  any_failure u r deep = true -> exists e, schema_from_url true u r deep = SError e.
Proof. exact failure_is_introspection_error_fixed. Qed.

Definition resp (st : Z) (j : json) : response := {| r_status := st; r_body := Some j |}.

Theorem C19_introspect_outcomes_refuted_data : ~ C19_introspect_outcomes_full.
Proof.
  intro H. destruct (H UOk (resp 200 (JObj [("data", JObj [])])) None eq_refl) as [e He].
  vm_compute in He. discriminate.
Qed.
Print Assumptions C19_introspect_outcomes_refuted_data.

Theorem C19_introspect_outcomes_refuted_url : exists r deep,
  any_failure UNoScheme r deep = true /\
  schema_from_url false UNoScheme r deep = SCrash "UnsupportedProtocol".
Proof. exists (resp 200 JNull), None. split; reflexivity. Qed.

(* ===================== D. input models: SDL route vs introspection route ===================== *)
(* full statement: same classes, same fields, same required set, same defaults *)
Definition C19_introspection_inputs_full : Prop := forall s, wf_sdl s = true ->
  gen_inputs false (via_introspection s) = gen_inputs false s.
Definition C19_required_set_full : Prop := forall s, wf_sdl s = true ->
  map (fun c => (fst c, required_names (snd c))) (gen_inputs false (via_introspection s)) =
  map (fun c => (fst c, required_names (snd c))) (gen_inputs false s).

Definition fld (n : string) (t : gtype) (d : option cvalue) (dep : bool) : ifield :=
  {| if_name := n; if_type := t; if_ast_default := d; if_value_default := d; if_has_node := true;
     if_deprecated := dep |}.
Definition IntT := TNamed "Int".

(* input In { nn: Int! = 7, d: Int = 5 } *)
Definition witness_defaults : inputs :=
  [("In", [fld "nn" (TNonNull IntT) (Some (CInt 7)) false; fld "d" IntT (Some (CInt 5)) false])].
(* input In { a: Int, old: Int @deprecated } *)
Definition witness_deprecated : inputs := [("In", [fld "a" IntT None false; fld "old" IntT None true])].

Theorem C19_introspection_inputs_refuted : ~ C19_introspection_inputs_full.
Proof. intro H. specialize (H witness_defaults eq_refl). vm_compute in H. discriminate. Qed.
Print Assumptions C19_introspection_inputs_refuted.

Theorem C19_required_set_refuted : ~ C19_required_set_full.
Proof. intro H. specialize (H witness_defaults eq_refl). vm_compute in H. discriminate. Qed.

(* a second, independent class: deprecated input fields are not transmitted at all *)
Theorem C19_introspection_fields_refuted : exists s,
  wf_sdl s = true /\ no_defaults s = true /\
  gen_inputs false (via_introspection s) <> gen_inputs false s /\
  gen_inputs true (via_introspection s) <> gen_inputs false s.
Proof. exists witness_deprecated. repeat split; vm_compute; discriminate. Qed.

(* what IS preserved *)
Theorem C19_introspection_inputs_partial : forall s,
  wf_sdl s = true -> no_deprecated s = true -> all_fields harmless_default s = true ->
  gen_inputs false (via_introspection s) = gen_inputs false s.
Proof. exact introspection_inputs_partial. Qed.
Print Assumptions C19_introspection_inputs_partial.

Theorem C19_introspection_inputs_partial_nodefaults : forall s,
  wf_sdl s = true -> no_deprecated s = true -> no_defaults s = true ->
  gen_inputs false (via_introspection s) = gen_inputs false s.
Proof. exact introspection_inputs_partial_nodefaults. Qed.

(* the guard is exact, field by field: the generated field differs iff it has a default other than
   null-on-nullable *)
Theorem C19_field_differs_iff : forall f, wf_field f = true ->
  (gen_field false (via_field f) = gen_field false f <-> harmless_default f = true).
Proof. exact gen_field_via_iff. Qed.
Print Assumptions C19_field_differs_iff.

Theorem C19_required_set_partial : forall s,
  wf_sdl s = true -> no_deprecated s = true -> no_nonnull_default s = true ->
  map (fun c => (fst c, required_names (snd c))) (gen_inputs false (via_introspection s)) =
  map (fun c => (fst c, required_names (snd c))) (gen_inputs false s).
Proof. exact required_set_partial. Qed.
Print Assumptions C19_required_set_partial.

(* names and types of the transmitted fields: always *)
Theorem C19_introspection_keeps_names_types : forall fx s,
  map (fun c => (fst c, map (fun p => (pf_name p, pf_type p)) (snd c))) (gen_inputs fx (via_introspection s)) =
  map (fun c => (fst c, map (fun f => (if_name f, if_type f)) (filter (fun f => negb (if_deprecated f)) (snd c)))) s.
Proof. exact introspection_keeps_names_types. Qed.

(* with fixes/C19-introspection-defaults.diff only the deprecated-field class remains *)
Theorem C19_introspection_inputs_fixed : forall s,
  wf_sdl s = true -> no_deprecated s = true ->
  gen_inputs true (via_introspection s) = gen_inputs false s.
Proof. exact introspection_inputs_fixed. Qed.
Print Assumptions C19_introspection_inputs_fixed.

(* ===================== non-vacuity ===================== *)
Definition dT (n : string) : defn :=
  {| d_ext := false; d_name := n; d_body := {| b_kind := "object"; b_header := ""; b_members := [MOp "a: Int"] |} |}.
Definition file (p : path) (ds : list defn) : entry :=
  {| e_path := p; e_isdir := false; e_text := "..."; e_defs := Some ds |}.

Example C19_split_hypotheses_met :
  let ds := [dT "Query"; dT "A"; dT "B"] in
  let tree := [file ["z"; "b.gql"] [dT "B"]; file ["a.b"; "q.graphqls"] [dT "Query"];
               file ["a"; "x.graphql"] [dT "A"]; file ["notes.txt"] [dT "Junk"]] in
  NoDup (type_names ds) /\ has_ext ds = false /\
  Permutation (flat_map defs_of (filter (selected false) tree)) ds /\
  map d_name (loaded_defs false tree) = ["A"; "Query"; "B"] /\
  map (fun e => e_path e) (walk_sorted false tree) = [["a"; "x.graphql"]; ["a.b"; "q.graphqls"]; ["z"; "b.gql"]].
Proof.
  repeat split.
  - repeat constructor; simpl; intuition discriminate.
  - simpl. apply perm_trans with [dT "Query"; dT "B"; dT "A"]; [apply perm_swap | constructor; apply perm_swap].
Qed.

Example C19_outcome_hypotheses_met :
  any_failure UOk (resp 500 JNull) None = true /\ g_c19_errors UOk (resp 500 JNull) None = true /\
  schema_from_url false UOk (resp 500 JNull) None = SError (EStatus 500) /\
  any_failure UOk (resp 200 (JObj [("data", JObj [("__schema", JObj [("types", JArr [])])])])) None = false /\
  any_failure UOk (resp 200 (JObj [("data", JObj [("__schema", JObj [("types", JArr [])])]); ("errors", JArr [JStr "x"])])) None = true /\
  resolve_headers [("TOK", "s3")] [("Authorization", "$TOK"); ("X", "plain")] = inr [("Authorization", "s3"); ("X", "plain")].
Proof. repeat split. Qed.

Example C19_inputs_hypotheses_met :
  let s := [("In", [fld "a" IntT None false; fld "n" IntT (Some CNull) false; fld "r" (TNonNull IntT) None false])] in
  wf_sdl s = true /\ no_deprecated s = true /\ all_fields harmless_default s = true /\
  no_nonnull_default s = true /\ wf_sdl witness_defaults = true /\
  map (fun c => required_names (snd c)) (gen_inputs false s) = [["r"]] /\
  map (fun c => required_names (snd c)) (gen_inputs false witness_defaults) = [[]] /\
  map (fun c => required_names (snd c)) (gen_inputs false (via_introspection witness_defaults)) = [["nn"]].
Proof. repeat split. Qed.
