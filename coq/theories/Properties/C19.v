(* C19 — The schema source does not change the generated client.
   Property theorems only; proofs live in Proofs/LoaderP.v and Proofs/IntrospectP.v.
   The model follows /repo after the fixes 4077122, 4fe57ef, 6530558, b147fbc (former finding
   classes F19-input-defaults, F19-malformed-data, F19-bad-url-scheme, F19-dir-suffix,
   F19-deprecated-input-fields); their former refutation witnesses are kept below as regression
   Examples of the now-true statements. *)
From Coq Require Import List String Ascii ZArith Bool Permutation.
From AC Require Import Base.Sexp Base.Strs Base.Json Gql.Lex Model.SchemaSrc Model.Loader Model.Introspect Model.TopLevel
  Model.LexTop Proofs.LoaderP Proofs.IntrospectP Proofs.TopLevelP Proofs.LexJoinP Proofs.LexTopP.
Import ListNotations.
Local Open Scope string_scope.
Local Open Scope list_scope.

(* ===================== A. one file / any split into a directory tree ===================== *)

(* For every tree (any listing order, any file names, any nesting, any number of ignored files)
   whose selected files together hold a permutation of the definitions ds: what reaches
   build_ast_schema is a permutation of ds. *)
Theorem C19_split_invariant_defs : forall tree ds,
  Permutation (flat_map defs_of (filter selected tree)) ds ->
  Permutation (loaded_defs tree) ds.
Proof. exact split_permutation. Qed.
Print Assumptions C19_split_invariant_defs.

(* ... hence, for a schema without `extend`, the type map is the same finite map and the same
   list of types up to order: the same classes are generated, possibly in another order *)
Theorem C19_split_invariant : forall tree ds,
  NoDup (type_names ds) -> has_ext ds = false ->
  Permutation (flat_map defs_of (filter selected tree)) ds ->
  Permutation (type_map (loaded_defs tree)) (type_map ds) /\
  forall n, assoc_get n (type_map (loaded_defs tree)) = assoc_get n (type_map ds).
Proof. exact split_invariant. Qed.
Print Assumptions C19_split_invariant.

(* ... and the input classes the generator derives from it are the same classes (same fields, same
   required flags, same defaults), listed in another order *)
Theorem C19_split_same_input_classes : forall tree ds,
  NoDup (type_names ds) -> has_ext ds = false ->
  Permutation (flat_map defs_of (filter selected tree)) ds ->
  Permutation (gen_inputs (inputs_of (type_map (loaded_defs tree))))
              (gen_inputs (inputs_of (type_map ds))).
Proof. exact split_same_input_classes. Qed.
Print Assumptions C19_split_same_input_classes.

(* with extensions: same types, same kind and header, members equal up to the order in which the
   extensions contribute them *)
Theorem C19_split_invariant_ext : forall tree ds n,
  NoDup (type_names ds) ->
  Permutation (flat_map defs_of (filter selected tree)) ds ->
  lookup_equiv (assoc_get n (type_map (loaded_defs tree))) (assoc_get n (type_map ds)).
Proof. exact split_invariant_ext. Qed.
Print Assumptions C19_split_invariant_ext.

(* the order in which the file system lists a directory is irrelevant: same text, byte for byte *)
Theorem C19_listing_order_irrelevant : forall tree tree',
  NoDup (map e_path tree) -> Permutation tree tree' -> load_dir tree = load_dir tree'.
Proof. exact load_order_independent. Qed.
Print Assumptions C19_listing_order_irrelevant.

(* files with another extension, and directories whatever their name, are ignored *)
Theorem C19_unselected_ignored : forall tree junk,
  forallb (fun e => negb (selected e)) junk = true ->
  load_dir (tree ++ junk) = load_dir tree.
Proof. exact load_unselected_ignored. Qed.
Print Assumptions C19_unselected_ignored.

(* loading succeeds iff every selected entry is a readable file; the text is the sorted join *)
Theorem C19_load_ok_iff : forall tree,
  (exists t, load_dir tree = inr t) <-> all_readable tree = true.
Proof. exact load_ok_iff. Qed.
Print Assumptions C19_load_ok_iff.

Theorem C19_load_text : forall tree, all_readable tree = true ->
  load_dir tree = inr (join_nl (map e_text (walk_sorted tree))).
Proof. exact load_ok_text. Qed.

(* ... and otherwise the error names the least (in path order) offending entry *)
Theorem C19_load_first_error : forall tree x, load_dir tree = inl x ->
  exists e, In e (filter selected tree) /\ readable e = false /\ x = err_of e /\
    forall e', In e' (filter selected tree) -> readable e' = false ->
               path_leb (e_path e) (e_path e') = true.
Proof. exact load_first_error. Qed.
Print Assumptions C19_load_first_error.

(* ... which is always the typed syntax error of a file (no IsADirectoryError any more) *)
Theorem C19_load_error_is_syntax : forall tree x, load_dir tree = inl x -> exists p, x = ESyntax p.
Proof. exact load_error_is_syntax. Qed.

(* a file `stem.ext` is selected whatever the stem (dots, spaces, non-ASCII bytes); a name without
   a dot never is *)
Theorem C19_extension_selected : forall stem ext, stem <> [] -> ext <> [] ->
  forallb (fun c => negb (is_dot c)) ext = true ->
  suffix_chars (stem ++ "."%char :: ext) = "."%char :: ext.
Proof. exact suffix_of_ext. Qed.

(* full statement for loading, now proved without guard: a tree whose FILES are all fine loads *)
Theorem C19_split_loads : forall tree,
  files_readable tree = true -> exists t, load_dir tree = inr t.
Proof. exact split_loads. Qed.
Print Assumptions C19_split_loads.

(* regression: the former witness of F19-dir-suffix (directory v1.graphql/) loads *)
Definition dir_witness : list entry :=
  [ {| e_path := ["v1.graphql"]; e_isdir := true; e_text := ""; e_defs := None |};
    {| e_path := ["v1.graphql"; "schema.graphql"]; e_isdir := false;
       e_text := "type Query { a: Int }";
       e_defs := Some [ {| d_ext := false; d_name := "Query";
                           d_body := {| b_kind := "object"; b_header := "";
                                        b_members := [MOp "a: Int"] |} |} ] |} ].
Example C19_split_loads_dir_regression :
  files_readable dir_witness = true /\ load_dir dir_witness = inr "type Query { a: Int }".
Proof. split; reflexivity. Qed.

(* ===================== A'. the join of the files, at token level ===================== *)
(* "parse(join) = concatenation of the per-file definitions" is no longer assumed: over token streams
   (lexing a join with "\n" = concatenating the token streams: tied), the automaton of Model/TopLevel.v
   (tied to graphql-core's definition boundaries on every document of every run) splits the
   concatenation of ANY number of accepted type-system documents into exactly the concatenation of
   their definitions - tokens, hence extension flag, keyword and name, of every definition. *)
Theorem C19_join_is_concat : forall docs dss,
  Forall2 (fun d ds => split_doc d = Some ds) docs dss ->
  split_doc (List.concat docs) = Some (List.concat dss).
Proof. exact split_concat. Qed.
Print Assumptions C19_join_is_concat.

Theorem C19_join_summaries : forall docs sss,
  Forall2 (fun d ss => doc_summaries d = Some ss) docs sss ->
  doc_summaries (List.concat docs) = Some (List.concat sss).
Proof. exact summaries_concat. Qed.
Print Assumptions C19_join_summaries.

(* the reason: where a definition may end, a token that can begin one is never a continuation *)
Theorem C19_start_token_never_continues : forall s t,
  accepting s = true -> is_start t = true -> step s t = step init t.
Proof. exact step_start_from_accepting. Qed.

Theorem C19_definitions_nonempty : forall ts ds, split_doc ts = Some ds ->
  Forall (fun seg => match seg with [] => False | _ :: _ => True end) ds.
Proof. exact split_doc_nonempty. Qed.

(* the hypothesis "every file is a type-system document" is needed: `type Foo` followed by a file
   holding the query shorthand `{ a: b }` is ONE definition (replayed on graphql-core each run) *)
Example C19_join_needs_documents :
  let a := [TName "type"; TName "Foo"] in
  let b := [TBrace; TName "a"; TOther; TName "b"; TClose] in
  option_map (@List.length _) (split_doc a) = Some 1 /\ split_doc b = None /\
  option_map (@List.length _) (split_doc (a ++ b)) = Some 1 /\
  doc_summaries (a ++ b) = Some [Some (false, "type", "Foo")].
Proof. repeat split. Qed.

Example C19_join_hypotheses_met :
  let d1 := [TStr; TName "type"; TName "type"; TName "implements"; TName "I"; TAmp; TName "J"; TAt; TName "d";
             TParen; TName "x"; TOther; TBrace; TClose; TClose; TBrace; TName "input"; TOther; TName "enum"; TClose;
             TName "union"; TName "U"; TEq; TPipe; TName "type"; TPipe; TName "B"] in
  let d2 := [TName "extend"; TName "schema"; TAt; TName "a";
             TName "directive"; TAt; TName "on"; TName "repeatable"; TName "on"; TName "FIELD"; TPipe; TName "OBJECT"] in
  doc_summaries d1 = Some [Some (false, "type", "type"); Some (false, "union", "U")] /\
  doc_summaries d2 = Some [Some (true, "schema", "schema"); Some (false, "directive", "@on")] /\
  doc_summaries (d1 ++ d2) = Some [Some (false, "type", "type"); Some (false, "union", "U");
                                   Some (true, "schema", "schema"); Some (false, "directive", "@on")].
Proof. repeat split. Qed.

(* ===================== A''. the join of the files, at TEXT level ===================== *)
(* lexing a join: for the structural lexer Gql/Lex.v, a ++ "\n" ++ b lexes to the tokens of a followed
   by the tokens of b for EVERY text a that lexes (line feeds, comments - also an unterminated comment
   on the last line -, strings, block strings inside a are all fine; a text ending inside a string or
   block string does not lex) and every b.  This was a tied assumption in the previous round. *)
Theorem C19_tokens_join : forall a b ta,
  tokens a = Some ta ->
  tokens (a ++ lnl :: b) = match tokens b with Some tb => Some (ta ++ tb) | None => None end.
Proof. exact tokens_join. Qed.
Print Assumptions C19_tokens_join.

Theorem C19_tokens_join_all : forall texts tss,
  Forall2 (fun t ts => tokens t = Some ts) texts tss ->
  tokens (join_chars texts) = Some (List.concat tss).
Proof. exact tokens_join_all. Qed.

(* text to definitions (lexer + top-level automaton): the definitions of "\n".join(files) are the
   definitions of the files, for any number of files that are type-system documents *)
Theorem C19_text_join_is_concat : forall texts dss,
  Forall2 (fun t ds => doc_of_text t = Some ds) texts dss ->
  doc_of_text (join_chars texts) = Some (List.concat dss).
Proof. exact doc_of_text_join. Qed.
Print Assumptions C19_text_join_is_concat.

Theorem C19_text_join_summaries : forall texts sss,
  Forall2 (fun t ss => summaries_of_text t = Some ss) texts sss ->
  summaries_of_text (join_chars texts) = Some (List.concat sss).
Proof. exact summaries_of_text_join. Qed.

(* ... and for the loader itself: the text load_dir returns is the document made of the files'
   definitions in walk order *)
Theorem C19_loaded_text_definitions : forall tree dss,
  Forall2 (fun e ds => e_isdir e = false /\ e_defs e <> None /\ doc_of_text (s2l (e_text e)) = Some ds)
          (walk_sorted tree) dss ->
  exists text, load_dir tree = inr text /\ doc_of_text (s2l text) = Some (List.concat dss).
Proof. exact loaded_text_definitions. Qed.
Print Assumptions C19_loaded_text_definitions.

Example C19_text_join_hypotheses_met :
  let a := s2l """""""a block
description"""""" type type implements I & J @d(x: {}) { input: enum }  # trailing comment, no line feed" in
  let b := s2l "extend schema @a
directive @on repeatable on FIELD | OBJECT" in
  summaries_of_text a = Some [Some (false, "type", "type")]%string /\
  summaries_of_text b = Some [Some (true, "schema", "schema"); Some (false, "directive", "@on")]%string /\
  summaries_of_text (join_chars [a; b]) =
    Some [Some (false, "type", "type"); Some (true, "schema", "schema"); Some (false, "directive", "@on")]%string /\
  tokens (s2l """unterminated") = None.
Proof. vm_compute. repeat split. Qed.

(* ===================== B. the introspection request ===================== *)
Theorem C19_headers_resolved : forall en hs xs,
  resolve_headers en hs = inr xs <-> Forall2 (header_ok en) hs xs.
Proof. exact resolve_headers_ok. Qed.
Print Assumptions C19_headers_resolved.

Theorem C19_headers_refused : forall en hs n,
  resolve_headers en hs = inl n <->
  exists pre k v post, hs = pre ++ (k, v) :: post /\
    (exists xs, Forall2 (header_ok en) pre xs) /\ header_value en v = inl n.
Proof. exact resolve_headers_err. Qed.

Theorem C19_header_plain : forall en v, starts_dollar v = false -> header_value en v = inr v.
Proof. exact header_value_plain. Qed.

Theorem C19_header_env : forall en name x,
  starts_dollar name = false -> assoc_get name en = Some x -> x <> "" ->
  header_value en (String "$" name) = inr x.
Proof. exact header_value_env. Qed.

Theorem C19_header_env_missing : forall en name,
  starts_dollar name = false -> (assoc_get name en = None \/ assoc_get name en = Some "") ->
  header_value en (String "$" name) = inl name.
Proof. exact header_value_missing. Qed.

(* URL, verify flag and resolved headers are what httpx.post receives; the query is the full
   introspection query (descriptions, specifiedByURL, isRepeatable, schema description, deprecated
   arguments and input fields) *)
Theorem C19_request_sent : forall en s q,
  request_of en s = inr q <->
  (q_url q = s_url s /\ q_verify q = s_verify s /\ q_query q = full_query /\
   Forall2 (header_ok en) (s_headers s) (q_headers q)).
Proof. exact request_of_spec. Qed.
Print Assumptions C19_request_sent.

(* several generations in one process over one configuration object, the environment changing in
   between: each sees the configuration as written (by construction of the model; the tie runs such
   histories on the real settings objects and through main.client) *)
Theorem C19_history_independent : forall cfg ens,
  run_history cfg ens = (map (fun en => request_of en cfg) ens, cfg).
Proof. exact history_independent. Qed.

(* why that matters even under a constant environment: resolution is not idempotent in general ... *)
Theorem C19_resolve_not_idempotent : exists en hs xs,
  resolve_headers en hs = inr xs /\ resolve_headers en xs <> inr xs.
Proof.
  exists [("A", "$B"); ("B", "b")], [("H", "$A")], [("H", "$B")]. split; [reflexivity | vm_compute; discriminate].
Qed.

(* ... it is exactly when no resolved value begins with "$" *)
Theorem C19_resolve_idempotent_partial : forall en hs xs,
  resolve_headers en hs = inr xs -> no_dollar xs = true -> resolve_headers en xs = inr xs.
Proof. exact resolve_idempotent_partial. Qed.
Print Assumptions C19_resolve_idempotent_partial.

(* ===================== C. introspection outcomes ===================== *)
(* full statement, proved: every failure class surfaces as the introspection error *)
Theorem C19_introspect_outcomes : forall u r deep,
  any_failure u r deep = true -> exists e, schema_from_url u r deep = SError e.
Proof. exact failure_is_introspection_error. Qed.
Print Assumptions C19_introspect_outcomes.

(* total and exclusive: a schema is built exactly outside every failure class ... *)
Theorem C19_introspect_built_iff : forall u r deep,
  (exists d, schema_from_url u r deep = SBuilt d) <-> any_failure u r deep = false.
Proof. exact built_iff_no_failure. Qed.
Print Assumptions C19_introspect_built_iff.

(* ... and inside, the first failing check (in the documented order) decides the error *)
Theorem C19_introspect_outcomes_table : forall r deep,
  (non_2xx r = true -> schema_from_url UOk r deep = SError (EStatus (r_status r))) /\
  (non_2xx r = false -> non_json r = true -> schema_from_url UOk r deep = SError ENotJson) /\
  (non_2xx r = false -> non_json r = false -> bad_format r = true ->
     schema_from_url UOk r deep = SError EFormat) /\
  (non_2xx r = false -> non_json r = false -> bad_format r = false -> has_errors r = true ->
     exists e, schema_from_url UOk r deep = SError (EErrors e) /\ truthy e = true) /\
  (non_2xx r = false -> non_json r = false -> bad_format r = false -> has_errors r = false ->
     data_not_object r = true -> schema_from_url UOk r deep = SError EDataKey) /\
  (non_2xx r = false -> non_json r = false -> bad_format r = false -> has_errors r = false ->
     data_not_object r = false -> data_malformed r deep = true ->
     schema_from_url UOk r deep = SError EBuild) /\
  (any_failure UOk r deep = false ->
     exists d, data_of r = Some (JObj d) /\ schema_from_url UOk r deep = SBuilt d).
Proof. exact outcome_table. Qed.
Print Assumptions C19_introspect_outcomes_table.

Theorem C19_introspect_bad_url : forall u r deep,
  bad_url u = true -> schema_from_url u r deep = SError EInvalidUrl.
Proof. exact outcome_bad_url. Qed.

Definition resp (st : Z) (j : json) : response := {| r_status := st; r_body := Some j |}.

(* regression: the former witnesses of F19-malformed-data and F19-bad-url-scheme *)
Example C19_introspect_outcomes_regression :
  any_failure UOk (resp 200 (JObj [("data", JObj [])])) None = true /\
  schema_from_url UOk (resp 200 (JObj [("data", JObj [])])) None = SError EBuild /\
  schema_from_url UOk (resp 200 (JObj [("data", JObj [("__schema", JNull)])])) None = SError EBuild /\
  schema_from_url UOk (resp 200 (JObj [("data", JObj [("__schema", JObj [("types", JArr [JInt 1])])])]))
    (Some "AttributeError") = SError EBuild /\
  any_failure UNoScheme (resp 200 JNull) None = true /\
  schema_from_url UNoScheme (resp 200 JNull) None = SError EInvalidUrl.
Proof. repeat split. Qed.

(* ===================== D. input models: SDL route vs introspection route ===================== *)
(* full statement, proved: same classes, same fields, same required set, same defaults *)
Theorem C19_introspection_inputs : forall s, wf_sdl s = true ->
  gen_inputs (via_introspection s) = gen_inputs s.
Proof. exact introspection_inputs. Qed.
Print Assumptions C19_introspection_inputs.

Theorem C19_required_set : forall s, wf_sdl s = true ->
  map (fun c => (fst c, required_names (snd c))) (gen_inputs (via_introspection s)) =
  map (fun c => (fst c, required_names (snd c))) (gen_inputs s).
Proof. exact required_set. Qed.
Print Assumptions C19_required_set.

(* names, types and deprecation marks of all fields survive, for any input list *)
Theorem C19_introspection_keeps_names_types : forall s,
  map (fun c => (fst c, map (fun f => (if_name f, if_type f, if_deprecated f)) (snd c))) (via_introspection s) =
  map (fun c => (fst c, map (fun f => (if_name f, if_type f, if_deprecated f)) (snd c))) s.
Proof. exact introspection_keeps_names_types. Qed.

Definition fld (n : string) (t : gtype) (d : option cvalue) (dep : bool) : ifield :=
  {| if_name := n; if_type := t; if_ast_default := d; if_value_default := d; if_has_node := true;
     if_deprecated := dep |}.
Definition IntT := TNamed "Int".

(* input In { nn: Int! = 7, d: Int = 5 } *)
Definition witness_defaults : inputs :=
  [("In", [fld "nn" (TNonNull IntT) (Some (CInt 7)) false; fld "d" IntT (Some (CInt 5)) false])].
(* input In { a: Int, old: Int @deprecated }   and   input All { x: Int @deprecated } *)
Definition witness_deprecated : inputs :=
  [("In", [fld "a" IntT None false; fld "old" IntT None true]); ("All", [fld "x" IntT None true])].

(* regression: the former witnesses of F19-input-defaults and F19-deprecated-input-fields *)
Example C19_introspection_inputs_regression :
  wf_sdl witness_defaults = true /\
  gen_inputs (via_introspection witness_defaults) = gen_inputs witness_defaults /\
  map (fun c => required_names (snd c)) (gen_inputs (via_introspection witness_defaults)) = [[]] /\
  map (fun c => map pf_default (snd c)) (gen_inputs (via_introspection witness_defaults)) =
    [[Some (CInt 7); Some (CInt 5)]] /\
  wf_sdl witness_deprecated = true /\
  gen_inputs (via_introspection witness_deprecated) = gen_inputs witness_deprecated /\
  map (fun c => map pf_name (snd c)) (gen_inputs (via_introspection witness_deprecated)) = [["a"; "old"]; ["x"]].
Proof. repeat split. Qed.

(* ===================== non-vacuity ===================== *)
Definition dT (n : string) : defn :=
  {| d_ext := false; d_name := n; d_body := {| b_kind := "object"; b_header := ""; b_members := [MOp "a: Int"] |} |}.
Definition file (p : path) (ds : list defn) : entry :=
  {| e_path := p; e_isdir := false; e_text := "..."; e_defs := Some ds |}.

Example C19_split_hypotheses_met :
  let ds := [dT "Query"; dT "A"; dT "B"] in
  let tree := [file ["z"; "b.gql"] [dT "B"]; file ["a.b"; "q.graphqls"] [dT "Query"];
               file ["a"; "x.graphql"] [dT "A"]; file ["notes.txt"] [dT "Junk"]] in
  NoDup (type_names ds) /\ has_ext ds = false /\
  Permutation (flat_map defs_of (filter selected tree)) ds /\
  map d_name (loaded_defs tree) = ["A"; "Query"; "B"] /\
  map (fun e => e_path e) (walk_sorted tree) = [["a"; "x.graphql"]; ["a.b"; "q.graphqls"]; ["z"; "b.gql"]].
Proof.
  repeat split.
  - repeat constructor; simpl; intuition discriminate.
  - simpl. apply perm_trans with [dT "Query"; dT "B"; dT "A"]; [apply perm_swap | constructor; apply perm_swap].
Qed.

Example C19_outcome_hypotheses_met :
  any_failure UOk (resp 500 JNull) None = true /\
  schema_from_url UOk (resp 500 JNull) None = SError (EStatus 500) /\
  any_failure UOk (resp 200 (JObj [("data", JObj [("__schema", JObj [("types", JArr [])])])])) None = false /\
  any_failure UOk (resp 200 (JObj [("data", JObj [("__schema", JObj [("types", JArr [])])]); ("errors", JArr [JStr "x"])])) None = true /\
  resolve_headers [("TOK", "s3")] [("Authorization", "$TOK"); ("X", "plain")] = inr [("Authorization", "s3"); ("X", "plain")].
Proof. repeat split. Qed.

Example C19_inputs_hypotheses_met :
  let s := [("In", [fld "a" IntT None false; fld "n" IntT (Some CNull) false; fld "r" (TNonNull IntT) None false;
                    fld "d" (TNonNull IntT) (Some (CInt 3)) false])] in
  wf_sdl s = true /\
  map (fun c => required_names (snd c)) (gen_inputs s) = [["r"]] /\
  map (fun c => required_names (snd c)) (gen_inputs (via_introspection s)) = [["r"]].
Proof. repeat split. Qed.
