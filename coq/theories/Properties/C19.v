From Coq Require Import List String Bool.
From AC Require Import Model.Loader.
Theorem C19_placeholder : suffix "a.gql" = ".gql"%string.
Proof. reflexivity. Qed.
