(* C02 — The document sent is the document written.
   Property theorems only; proofs live in Proofs/OpStrP.v and Proofs/MultilineP.v. *)
From Coq Require Import List String Ascii Bool Arith.
From AC Require Import Base.Strs Base.Sexp Gql.Schema Gql.Doc Model.Results Model.OpStr Model.Multiline
     Proofs.OpStrP Proofs.MultilineP.
Import ListNotations.
Local Open Scope string_scope.
Local Open Scope list_scope.

(* ================================================================= A. which fragments are sent *)

(* full statement: the sent document defines exactly the fragments reachable from the operation *)
Definition C02_fragments_exact_full : Prop :=
  forall fuel C Sc frs ins o doc ins',
    op_document fuel C Sc frs ins o = Ok (doc, ins') ->
    (forall n, In n (doc_fragment_names doc) <-> reach frs (sel_spreads (o_sel o)) n)
    /\ NoDup (doc_fragment_names doc).

(* the closure computed by _get_fragments_names is the least fixed point of "spread from" — any fuel
   for which it answers (unguarded) *)
Theorem C02_closure_exact : forall frs fuel names l,
  frag_names fuel frs names = Some l -> forall n, In n l <-> reach frs names n.
Proof. exact frag_names_exact. Qed.
Print Assumptions C02_closure_exact.

(* ... and it answers with fuel = number of fragments when the fragment graph is acyclic
   (a rank that decreases along spreads and stays below the number of fragments) *)
Theorem C02_closure_fuel : forall rk frs names,
  ranked rk frs -> (forall m f, lookup_fdef frs m = Some f -> rk m < List.length frs) ->
  (forall n, In n names -> exists g, lookup_fdef frs n = Some g) ->
  exists l, frag_names (List.length frs) frs names = Some l.
Proof. exact frag_names_fuel_count. Qed.
Print Assumptions C02_closure_fuel.

(* proved under the boolean guard [covered]: every spread of the operation and of the unpacked fragments
   is defined in the sent document (a local check of the operation and the unpacked definitions
   against the list of sent fragments).  Its complement is the finding class C02-dropped-spread.  (That what was recorded is reachable is proved of the traversal:
   recorded_is_reachable; the closure hypothesis is discharged by C02_closure_fuel.) *)
Theorem C02_fragments_exact_partial : forall Sc fuel C frs ins o doc ins' mix unp l,
  op_document fuel C Sc frs ins o = Ok (doc, ins') ->
  op_sets fuel C Sc frs ins o = Ok (mix, unp) ->
  frag_names fuel frs (sel_spreads (o_sel o)) = Some l ->
  covered frs o (doc_fragment_names doc) unp = true ->
  (forall n, In n (doc_fragment_names doc) <-> reach frs (sel_spreads (o_sel o)) n)
  /\ NoDup (doc_fragment_names doc).
Proof. exact fragments_exact_covered. Qed.
Print Assumptions C02_fragments_exact_partial.

(* the generator never records a fragment the operation does not reach (unguarded) *)
Theorem C02_recorded_is_reachable : forall Sc frs fuel C ins o mix unp l,
  op_sets fuel C Sc frs ins o = Ok (mix, unp) ->
  frag_names fuel frs (sel_spreads (o_sel o)) = Some l ->
  recorded_reachable fuel frs o mix unp = true.
Proof. exact recorded_is_reachable. Qed.
Print Assumptions C02_recorded_is_reachable.

(* query Q { animal { name ...NF } }  fragment NF on Node { id }  with Animal and Node unrelated
   interfaces sharing an implementation: the spread is dropped, NF is not sent *)
Theorem C02_fragments_exact_refuted : ~ C02_fragments_exact_full.
Proof.
  intro H. destruct W_drop_doc as (doc & ins' & Hd & Hn).
  destruct (H _ _ _ _ _ _ _ _ Hd) as [Hiff _].
  pose proof (proj2 (Hiff "NF") W_drop_reach) as Hin. rewrite Hn in Hin. exact Hin.
Qed.
Print Assumptions C02_fragments_exact_refuted.

Example C02_exact_guard_satisfiable :
  exists mix unp l, op_sets 50 W_cfg W_schema W_mixin_frs [] W_mixin_op = Ok (mix, unp)
                  /\ frag_names 50 W_mixin_frs (sel_spreads (o_sel W_mixin_op)) = Some l
                  /\ covered W_mixin_frs W_mixin_op ["F"] unp = true /\ mix = ["F"] /\ l = ["F"].
Proof. eexists. eexists. eexists. split; [vm_compute; reflexivity|]. repeat split; reflexivity. Qed.

(* ================================================================= B. the two documented rewrites *)

(* full statement: erasing the automatic __typename fields from the sent document gives the authored
   operation and fragment definitions with every @mixin removed, and nothing else changed *)
Definition C02_rewrites_full : Prop :=
  forall fuel C Sc frs ins o doc ins',
    op_document fuel C Sc frs ins o = Ok (doc, ins') ->
    authored_op o = true -> forallb authored_fd frs = true ->
    exists defs, Forall (fun f => In f frs) defs /\
      map erase_ddef doc = map strip_all_ddef (XOp o :: map XFrag defs).

(* unguarded: erasing the inserted fields gives the authored definitions with @mixin filtered from the
   directive lists of FIELDS — no argument, value, alias, other directive, variable definition,
   default value, type condition or name is touched, whatever was inserted *)
Theorem C02_only_documented_rewrites : forall fuel C Sc frs ins o doc ins',
  op_document fuel C Sc frs ins o = Ok (doc, ins') ->
  authored_op o = true -> forallb authored_fd frs = true ->
  exists defs, Forall (fun f => In f frs) defs /\
    map erase_ddef doc = XOp (strip_op o) :: map (fun f => XFrag (strip_fd f)) defs.
Proof. exact only_documented_rewrites. Qed.
Print Assumptions C02_only_documented_rewrites.

(* the field visitor is the identity on selections without @mixin on a field *)
Theorem C02_strip_identity : forall s, no_field_mixin s = true -> strip_sel s = s.
Proof. exact strip_sel_id. Qed.
Print Assumptions C02_strip_identity.

(* guard: @mixin stands on fields only (not on fragment definitions, spreads, inline fragments) *)
Theorem C02_rewrites_partial : forall fuel C Sc frs ins o doc ins',
  op_document fuel C Sc frs ins o = Ok (doc, ins') ->
  authored_op o = true -> forallb authored_fd frs = true ->
  mixin_only_on_fields (XOp o) = true -> forallb (fun f => mixin_only_on_fields (XFrag f)) frs = true ->
  exists defs, Forall (fun f => In f frs) defs /\
    map erase_ddef doc = map strip_all_ddef (XOp o :: map XFrag defs).
Proof. exact documented_rewrites_partial. Qed.
Print Assumptions C02_rewrites_partial.

(* fragment F on A @mixin(from: ".m", import: "M") { x } : the directive is still in the sent text *)
Theorem C02_rewrites_refuted : exists fuel C Sc frs ins o doc ins' f,
  op_document fuel C Sc frs ins o = Ok (doc, ins') /\ authored_op o = true /\
  forallb authored_fd frs = true /\ In (XFrag f) doc /\
  existsb (fun d => String.eqb (d_name d) "mixin") (fd_dirs f) = true.
Proof.
  destruct W_mixin_doc as (doc & ins' & f & Hd & Hi & Hm).
  exists 50, W_cfg, W_schema, W_mixin_frs, [], W_mixin_op, doc, ins', f. repeat split; assumption || reflexivity.
Qed.
Print Assumptions C02_rewrites_refuted.

(* operationName names the single operation of the sent document *)
Theorem C02_operation_name_is_single : forall fuel C Sc frs ins o doc ins',
  op_document fuel C Sc frs ins o = Ok (doc, ins') ->
  exists o', ops_of doc = [o'] /\ o_name o' = method_opname o /\ o_kind o' = o_kind o /\
             o_vars o' = o_vars o /\ o_dirs o' = o_dirs o.
Proof. exact operation_name_is_single. Qed.
Print Assumptions C02_operation_name_is_single.

(* ================================================================= C. the text path *)
Definition L (s : string) : chars := s2l s.
Definition client_embed (lines : list chars) : ev := embed client_prefix client_suffix true 4 lines.

(* full statement: the generated method's literal evaluates to the operation text, up to the leading
   newline and the uniform indentation of the rewriter *)
Definition C02_embed_full : Prop := forall lines,
  2 <= List.length lines -> Forall (fun l => has NL l = false) lines ->
  client_embed lines = EvOk (embedded 12 lines) client_suffix.

(* proved for every list of lines over the safe alphabet (printable, no single quote, no backslash,
   no three consecutive double quotes):
   any statement  <a> = <b> <literals> <suf>  whose prefix holds no single quote *)
Theorem C02_embed_roundtrip_partial : forall a b suf paren off lines,
  good_prefix a b -> suf = [] \/ suf = [")"%char] ->
  2 <= List.length lines -> Forall (fun l => safe_line l = true) lines ->
  embed (a ++ EQc :: b) suf paren off lines
  = EvOk (embedded (leading_ws (a ++ EQc :: b) + off) lines) suf.
Proof. exact embed_roundtrip. Qed.
Print Assumptions C02_embed_roundtrip_partial.

(* the generated client method:  8 spaces, query = gql( ... ), offset 4 *)
Theorem C02_embed_client_partial : forall lines,
  2 <= List.length lines -> Forall (fun l => safe_line l = true) lines ->
  client_embed lines = EvOk (embedded 12 lines) client_suffix.
Proof.
  intros lines H2 Hs.
  assert (G : good_prefix (spaces 8 ++ L "query ") (L " gql(")) by (constructor; reflexivity).
  exact (embed_roundtrip (spaces 8 ++ L "query ") (L " gql(") client_suffix true 4 lines
           G (or_intror eq_refl) H2 Hs).
Qed.
Print Assumptions C02_embed_client_partial.

(* the ExtractOperations constant  NAME_GQL = ...  at module level, offset 0 *)
Theorem C02_embed_operations_partial : forall name lines,
  has EQc name = false -> has SQ name = false -> leading_ws (name ++ L " = ") = 0 ->
  2 <= List.length lines -> Forall (fun l => safe_line l = true) lines ->
  embed (name ++ L " = ") [] false 0 lines = EvOk (embedded 0 lines) [].
Proof.
  intros name lines He Hq Hw H2 Hs.
  pose proof (embed_roundtrip (name ++ [SP]) [SP] [] false 0 lines) as R. cbv zeta in R.
  assert (E : (name ++ [SP]) ++ EQc :: [SP] = name ++ L " = ") by (rewrite <- app_assoc; reflexivity).
  rewrite E, Hw in R. apply R; [| left; reflexivity | exact H2 | exact Hs].
  constructor; [rewrite has_app, He; reflexivity | rewrite has_app, Hq; reflexivity | reflexivity].
Qed.
Print Assumptions C02_embed_operations_partial.

Example C02_embed_hypotheses_satisfiable :
  let lines := [L "query A($v: Int = 3) {"; L "  echo(s: ""a # b = c"")"; L ""; L "}"] in
  Forall (fun l => safe_line l = true) lines /\
  client_embed lines = EvOk (embedded 12 lines) client_suffix.
Proof. split; [repeat constructor | vm_compute; reflexivity]. Qed.

(* --- what breaks, on the faithful model --- *)
(* a single quote inside a string literal: the regex ends the match at the escaped quote, the rest of
   the line is left behind the triple-quoted literal and is not Python any more *)
Theorem C02_embed_refuted_quote :
  exists v rest, client_embed [L "query A {"; L "  echo(s: ""it's"")"; L "}"] = EvOk v rest
                 /\ rest <> client_suffix.
Proof. eexists. eexists. split; [vm_compute; reflexivity | vm_compute; discriminate]. Qed.

(* the GraphQL escape backslash-n: repr doubles the backslash, the rewriter's replace of backslash-n by a
   line feed eats the n, Python reads backslash-newline as a continuation: the literal is sent as
   a + indentation + b *)
Theorem C02_embed_refuted_escape :
  exists lines v, Forall (fun l => has NL l = false) lines /\
    client_embed lines = EvOk v client_suffix /\ v <> embedded 12 lines /\
    v = NL :: s2l "            query A {" ++ NL :: s2l "              echo(s: ""a            b"")"
           ++ NL :: s2l "            }" ++ NL :: spaces 12.
Proof.
  exists [L "query A {"; L "  echo(s: ""a\nb"")"; L "}"]. eexists.
  split; [repeat constructor|]. split; [vm_compute; reflexivity|]. split; [vm_compute; discriminate | reflexivity].
Qed.

(* a block string: its three double quotes close the Python literal *)
Theorem C02_embed_refuted_block :
  exists v rest, client_embed [L "query A {"; L "  echo(s: """"""b"""""")"; L "}"] = EvOk v rest
                 /\ rest <> client_suffix.
Proof. eexists. eexists. split; [vm_compute; reflexivity | vm_compute; discriminate]. Qed.

Theorem C02_embed_refuted : ~ C02_embed_full.
Proof.
  intro H. specialize (H [L "query A {"; L "  echo(s: ""it's"")"; L "}"]).
  assert (E : client_embed [L "query A {"; L "  echo(s: ""it's"")"; L "}"]
              <> EvOk (embedded 12 [L "query A {"; L "  echo(s: ""it's"")"; L "}"]) client_suffix)
    by (vm_compute; discriminate).
  apply E, H; [simpl; auto | repeat constructor].
Qed.
Print Assumptions C02_embed_refuted.
