(* C02 — The document sent is the document written.
   Property theorems only; proofs live in Proofs/OpStrP.v and Proofs/MultilineP.v. *)
From Coq Require Import List String Ascii Bool Arith.
From AC Require Import Base.Strs Base.Sexp Gql.Schema Gql.Doc Gql.Lex Gql.Block Model.Results Model.OpStr Model.Multiline
     Proofs.OpStrP Proofs.MultilineP Proofs.LexP Proofs.BlockP.
Import ListNotations.
Local Open Scope string_scope.
Local Open Scope list_scope.

(* ================================================================= A. which fragments are sent *)

(* the sent document defines exactly the fragments reachable from the operation, each once *)
Definition C02_fragments_exact_full : Prop :=
  forall fuel C Sc frs ins o doc ins',
    op_document fuel C Sc frs ins o = Ok (doc, ins') ->
    (forall n, In n (doc_fragment_names doc) <-> reach frs (sel_spreads (o_sel o)) n)
    /\ NoDup (doc_fragment_names doc).

(* the closure computed by _get_fragments_names is the least fixed point of "spread from" — any fuel
   for which it answers *)
Theorem C02_closure_exact : forall frs fuel names l,
  frag_names fuel frs names = Some l -> forall n, In n l <-> reach frs names n.
Proof. exact frag_names_exact. Qed.
Print Assumptions C02_closure_exact.

(* ... and it answers with fuel = number of fragments when the fragment graph is acyclic
   (a rank that decreases along spreads and stays below the number of fragments) *)
Theorem C02_closure_fuel : forall rk frs names,
  ranked rk frs -> (forall m f, lookup_fdef frs m = Some f -> rk m < List.length frs) ->
  (forall n, In n names -> exists g, lookup_fdef frs n = Some g) ->
  exists l, frag_names (List.length frs) frs names = Some l.
Proof. exact frag_names_fuel_count. Qed.
Print Assumptions C02_closure_fuel.

(* full strength since ab67ead (_get_all_related_fragments = closure of the operation's own selections):
   no guard *)
Theorem C02_fragments_exact : C02_fragments_exact_full.
Proof. exact fragments_exact. Qed.
Print Assumptions C02_fragments_exact.

(* auxiliary: the generator never records (as mixin / unpacked) a fragment the operation does not reach *)
Theorem C02_recorded_is_reachable : forall Sc frs fuel C ins o mix unp l,
  op_sets fuel C Sc frs ins o = Ok (mix, unp) ->
  frag_names fuel frs (sel_spreads (o_sel o)) = Some l ->
  recorded_reachable fuel frs o mix unp = true.
Proof. exact recorded_is_reachable. Qed.
Print Assumptions C02_recorded_is_reachable.

(* regression (was C02_fragments_exact_refuted before ab67ead): query Q { animal { name ...NF } }
   fragment NF on Node { id }, Animal and Node unrelated interfaces sharing an implementation —
   the spread is dropped by _resolve_selection_set, its definition is sent all the same *)
Example C02_regression_dropped_spread :
  exists doc ins', op_document 50 W_cfg W_schema W_drop_frs [] W_drop_op = Ok (doc, ins')
                   /\ doc_fragment_names doc = ["NF"].
Proof. exact W_drop_doc. Qed.

(* ================================================================= B. the two documented rewrites *)

(* erasing the automatic __typename fields from the sent document gives the authored operation and
   fragment definitions with every @mixin removed, and nothing else changed; the hypothesis
   [mixin_located] is part of "valid operation": @mixin stands only at its declared locations *)
Definition C02_rewrites_full : Prop :=
  forall fuel C Sc frs ins o doc ins',
    op_document fuel C Sc frs ins o = Ok (doc, ins') ->
    authored_op o = true -> forallb authored_fd frs = true ->
    mixin_located (XOp o) = true -> forallb (fun f => mixin_located (XFrag f)) frs = true ->
    exists defs, Forall (fun f => In f frs) defs /\
      map erase_ddef doc = map strip_all_ddef (XOp o :: map XFrag defs).

(* without any hypothesis on where @mixin stands: erasing the inserted fields gives the authored
   definitions with @mixin filtered from the directive lists of fields and of fragment definitions —
   no argument, value, alias, other directive, variable definition, default value, type condition or
   name is touched, whatever was inserted *)
Theorem C02_only_documented_rewrites : forall fuel C Sc frs ins o doc ins',
  op_document fuel C Sc frs ins o = Ok (doc, ins') ->
  authored_op o = true -> forallb authored_fd frs = true ->
  exists defs, Forall (fun f => In f frs) defs /\
    map erase_ddef doc = XOp (strip_op o) :: map (fun f => XFrag (strip_fd f)) defs.
Proof. exact only_documented_rewrites. Qed.
Print Assumptions C02_only_documented_rewrites.

(* the field visitor is the identity on selections without @mixin on a field *)
Theorem C02_strip_identity : forall s, no_field_mixin s = true -> strip_sel s = s.
Proof. exact strip_sel_id. Qed.
Print Assumptions C02_strip_identity.

(* full strength since b510d04 *)
Theorem C02_rewrites : C02_rewrites_full.
Proof. exact documented_rewrites. Qed.
Print Assumptions C02_rewrites.

(* regression (was C02_rewrites_refuted before b510d04): fragment F on A @mixin(...) { x } *)
Example C02_regression_mixin_on_definition : exists doc ins',
  op_document 50 W_cfg W_schema W_mixin_frs [] W_mixin_op = Ok (doc, ins') /\
  doc_fragment_names doc = ["F"] /\ existsb has_mixin doc = false.
Proof. exact W_mixin_doc. Qed.

Example C02_rewrites_hypotheses_satisfiable :
  authored_op W_mixin_op = true /\ forallb authored_fd W_mixin_frs = true /\
  mixin_located (XOp W_mixin_op) = true /\ forallb (fun f => mixin_located (XFrag f)) W_mixin_frs = true.
Proof. repeat split. Qed.

(* operationName names the single operation of the sent document *)
Theorem C02_operation_name_is_single : forall fuel C Sc frs ins o doc ins',
  op_document fuel C Sc frs ins o = Ok (doc, ins') ->
  exists o', ops_of doc = [o'] /\ o_name o' = method_opname o /\ o_kind o' = o_kind o /\
             o_vars o' = o_vars o /\ o_dirs o' = o_dirs o.
Proof. exact operation_name_is_single. Qed.
Print Assumptions C02_operation_name_is_single.

(* ================================================================= C. the text path *)
Definition L (s : string) : chars := s2l s.
Definition client_embed (lines : list chars) : ev := embed client_prefix client_suffix true 4 lines.
Definition client_matches (lines : list chars) : nat := matches client_prefix client_suffix lines.

(* the text the literal stands for, up to the rewriter's layout: the lines as they are, or a line feed,
   every non-blank line behind 12 blanks, 12 blanks *)
Definition text_of (k : nat) (lines : list chars) (v : chars) : Prop :=
  v = joined lines \/ v = embedded k lines.

(* full statement: for every non-empty list of lines over all bytes (no line feed inside a line: they
   come from str.split on it) the generated method's literal evaluates to the operation text *)
Definition C02_embed_full : Prop := forall lines,
  lines <> [] -> Forall (fun l => has NL l = false) lines ->
  exists v, client_embed lines = EvOk v client_suffix /\ text_of 12 lines v.

(* every statement  <a> = <b> <literals> <suf>  whose prefix holds no quote and no backslash, every
   non-empty list of lines over ALL bytes, however often the rewriter's regex matches: when it does not
   match the statement is left alone and evaluates to the joined lines; when it matches (once or several
   times) only the first match rewrites anything — every later span ends with an odd run of backslashes
   before an n, which the rewritten text cannot contain — and the literal evaluates to the embedded text *)
Theorem C02_embed_roundtrip : forall a b suf paren off lines,
  good_prefix a b -> has BS (a ++ EQc :: b) = false -> suf = [] \/ suf = [")"%char] -> lines <> [] ->
  Forall (fun l => has NL l = false) lines ->
  embed (a ++ EQc :: b) suf paren off lines
  = EvOk (match find_match (stmt (a ++ EQc :: b) suf lines) with
          | None => joined lines
          | Some _ => embedded (leading_ws (a ++ EQc :: b) + off) lines
          end) suf.
Proof. exact embed_roundtrip_all. Qed.
Print Assumptions C02_embed_roundtrip.

Lemma client_good : good_prefix (spaces 8 ++ L "query ") (L " gql(").
Proof. constructor; reflexivity. Qed.

(* full strength: the generated client method, every list of lines *)
Theorem C02_embed : C02_embed_full.
Proof.
  intros lines Hne Hn.
  pose proof (embed_roundtrip_all (spaces 8 ++ L "query ") (L " gql(") client_suffix true 4 lines
                client_good eq_refl (or_intror eq_refl) Hne Hn) as H.
  cbv zeta in H. eexists. split; [exact H|].
  destruct (find_match _); [right | left]; reflexivity.
Qed.
Print Assumptions C02_embed.

(* the regex matches when no line holds a single quote (and there are two lines) *)
Theorem C02_one_match_without_quote : forall a b suf lines,
  good_prefix a b -> suf = [] \/ suf = [")"%char] -> 2 <= List.length lines ->
  Forall (fun l => has SQ l = false) lines ->
  matches (a ++ EQc :: b) suf lines = 1.
Proof. exact one_match_without_quote. Qed.
Print Assumptions C02_one_match_without_quote.

Lemma embedded_when_match a b suf paren off lines :
  good_prefix a b -> has BS (a ++ EQc :: b) = false -> suf = [] \/ suf = [")"%char] -> lines <> [] ->
  Forall (fun l => has NL l = false) lines -> matches (a ++ EQc :: b) suf lines = 1 ->
  embed (a ++ EQc :: b) suf paren off lines = EvOk (embedded (leading_ws (a ++ EQc :: b) + off) lines) suf.
Proof.
  intros Hg Hb Hs Hne Hn Hm. pose proof (embed_roundtrip_all a b suf paren off lines Hg Hb Hs Hne Hn) as H.
  cbv zeta in H. unfold matches in Hm.
  destruct (find_match (stmt (a ++ EQc :: b) suf lines)); [exact H | discriminate].
Qed.

(* ... so the value is the embedded (indented) text then *)
Theorem C02_embed_client_without_quote : forall lines,
  2 <= List.length lines -> Forall (fun l => has NL l = false) lines ->
  Forall (fun l => has SQ l = false) lines ->
  client_embed lines = EvOk (embedded 12 lines) client_suffix.
Proof.
  intros lines H2 Hn Hq.
  assert (Hne : lines <> []) by (destruct lines; [simpl in H2; inversion H2 | discriminate]).
  exact (embedded_when_match (spaces 8 ++ L "query ") (L " gql(") client_suffix true 4 lines
           client_good eq_refl (or_intror eq_refl) Hne Hn
           (one_match_without_quote _ _ _ _ client_good (or_intror eq_refl) H2 Hq)).
Qed.
Print Assumptions C02_embed_client_without_quote.

(* the ExtractOperations constant  NAME_GQL = ...  at module level, offset 0: every list of lines *)
Theorem C02_embed_operations : forall name lines,
  has EQc name = false -> noq name = true -> has BS name = false -> leading_ws (name ++ L " = ") = 0 ->
  lines <> [] -> Forall (fun l => has NL l = false) lines ->
  exists v, embed (name ++ L " = ") [] false 0 lines = EvOk v [] /\ text_of 0 lines v.
Proof.
  intros name lines He Hq Hb Hw Hne Hn.
  assert (G : good_prefix (name ++ [SP]) [SP]).
  { constructor; [rewrite has_app, He; reflexivity | unfold noq in *; rewrite forallb_app, Hq; reflexivity
                  | reflexivity]. }
  assert (E : (name ++ [SP]) ++ EQc :: [SP] = name ++ L " = ") by (rewrite <- app_assoc; reflexivity).
  assert (B : has BS ((name ++ [SP]) ++ EQc :: [SP]) = false) by (rewrite E, has_app, Hb; reflexivity).
  pose proof (embed_roundtrip_all (name ++ [SP]) [SP] [] false 0 lines G B (or_introl eq_refl) Hne Hn) as H.
  cbv zeta in H. rewrite E, Hw in H. eexists. split; [exact H|].
  destruct (find_match _); [right | left]; reflexivity.
Qed.
Print Assumptions C02_embed_operations.

Example C02_embed_hypotheses_satisfiable :
  let lines := [L "query A($v: Int = 3) {"; L "  echo(s: ""a \n # b = c\\ """""")"; L ""; L "}"] in
  Forall (fun l => has NL l = false) lines /\ Forall (fun l => has SQ l = false) lines /\
  client_embed lines = EvOk (embedded 12 lines) client_suffix.
Proof. split; [repeat constructor | split; [repeat constructor | vm_compute; reflexivity]]. Qed.

(* --- regressions: the witnesses of the former refutations (before 0f971a2) now round-trip --- *)
(* a single quote inside a string literal (was C02_embed_refuted_quote): one match, covered by the guard *)
Example C02_regression_quote :
  let lines := [L "query A {"; L "  echo(s: ""it's"")"; L "}"] in
  client_matches lines = 1 /\ client_embed lines = EvOk (embedded 12 lines) client_suffix.
Proof. split; vm_compute; reflexivity. Qed.

(* the GraphQL escape backslash-n (was C02_embed_refuted_escape: sent as a + indentation + b) *)
Example C02_regression_escape :
  let lines := [L "query A {"; L "  echo(s: ""a\nb"")"; L "}"] in
  client_embed lines = EvOk (embedded 12 lines) client_suffix.
Proof. vm_compute. reflexivity. Qed.

(* a block string (was C02_embed_refuted_block) *)
Example C02_regression_block :
  let lines := [L "query A {"; L "  echo(s: """"""b"""""")"; L "}"] in
  client_embed lines = EvOk (embedded 12 lines) client_suffix.
Proof. vm_compute. reflexivity. Qed.

(* a statement on which the regex matches twice (regression of the case that used to be outside the theorem) *)
Example C02_two_matches_still_round_trip :
  let lines := [L ""; L """'="; L ""; L ""] in
  client_matches lines = 2 /\ client_embed lines = EvOk (embedded 12 lines) client_suffix.
Proof. split; vm_compute; reflexivity. Qed.

(* ================================================================= D. is the indentation uniform? *)
(* GraphQL ignores indentation outside block strings; inside a block string only a UNIFORM indentation of
   the non-empty lines is harmless.  Every non-empty line gets the same k blanks. *)
Definition C02_indent_uniform_full : Prop := forall lines,
  2 <= List.length lines -> Forall (fun l => has NL l = false) lines ->
  Forall (fun l => has SQ l = false) lines ->
  client_embed lines = EvOk (uniform 12 lines) client_suffix.

(* full strength since 2c2512c (textwrap.indent with the predicate "line is not empty") *)
Theorem C02_indent_uniform : C02_indent_uniform_full.
Proof. intros lines H2 Hn Hq. rewrite <- embedded_uniform. apply C02_embed_client_without_quote; assumption. Qed.
Print Assumptions C02_indent_uniform.

(* regression (was C02_indent_uniform_refuted before 2c2512c): a block string whose second line is blanks only *)
Example C02_regression_blank_line_of_block_string :
  let lines := [L "query A {"; L "  echo(s: """""""; L "  a"; L "     "; L "  b"; L "  """""")"; L "}"] in
  client_embed lines = EvOk (uniform 12 lines) client_suffix.
Proof. vm_compute. reflexivity. Qed.

(* ================================================================= E. the same token stream *)
(* Gql/Lex.v: punctuators, the spread, words, strings (raw), block strings (raw); blanks, line terminators,
   commas, comments ignored.  What the rewriter adds — a leading line feed, blanks before the lines and at
   the end — does not change the token stream, for lines that start no block string (inside a block
   string the indentation is content: C02_indent_uniform is the statement there). *)
Definition starts_no_block (l : chars) : bool := LexP.no_nl l && LexP.nodq3 l.

Lemma embedded_laid_out k lines :
  embedded k lines = LexP.laid_out (fun l => match l with [] => 0 | _ => k end) k lines.
Proof.
  unfold embedded, LexP.laid_out, indented. f_equal. f_equal.
  induction lines as [|l ls IH]; [reflexivity|]. cbn [flat_map]. rewrite IH. destruct l; reflexivity.
Qed.

Theorem C02_tokens_preserved : forall k lines,
  Forall (fun l => starts_no_block l = true) lines ->
  Lex.tokens (embedded k lines) = Lex.tokens (joined lines).
Proof.
  intros k lines H. rewrite embedded_laid_out. apply LexP.layout_ignored.
  eapply Forall_impl; [|exact H]. intros l Hl. apply andb_true_iff in Hl. exact Hl.
Qed.
Print Assumptions C02_tokens_preserved.

(* end to end for the generated method: whatever the lines (no block string started), the literal evaluates
   to a text with the token stream of the operation string *)
Theorem C02_embed_same_tokens : forall lines,
  lines <> [] -> Forall (fun l => starts_no_block l = true) lines ->
  exists v, client_embed lines = EvOk v client_suffix /\ Lex.tokens v = Lex.tokens (joined lines).
Proof.
  intros lines Hne H.
  assert (Hn : Forall (fun l => has NL l = false) lines).
  { eapply Forall_impl; [|exact H]. intros l Hl. apply andb_true_iff in Hl as [Hl _].
    apply has_false. intros x Hx E. subst. unfold LexP.no_nl in Hl. rewrite forallb_forall in Hl.
    specialize (Hl _ Hx). discriminate. }
  destruct (C02_embed lines Hne Hn) as (v & Ev & [-> | ->]).
  - exists (joined lines). auto.
  - exists (embedded 12 lines). split; [exact Ev | apply C02_tokens_preserved; exact H].
Qed.
Print Assumptions C02_embed_same_tokens.

Example C02_tokens_example :
  Lex.tokens (L "query A($v: Int = 3) { ...F  echo(s: ""a # \"" b"", n: -1.5e3) # c") =
  Some [TW (L "query"); TW (L "A"); TP "("; TP "$"; TW (L "v"); TP ":"; TW (L "Int"); TP "="; TW (L "3"); TP ")";
        TP "{"; TSpread; TW (L "F"); TW (L "echo"); TP "("; TW (L "s"); TP ":"; TS (L "a # \"" b");
        TW (L "n"); TP ":"; TW (L "-1.5e3"); TP ")"]%char.
Proof. vm_compute. reflexivity. Qed.

(* ================================================================= F. block strings: the value is preserved *)
(* Gql/Block.v: BlockStringValue (common indentation of the lines after the first removed, blank lines at
   both ends dropped).  Moving every non-empty line after the first k blanks to the right keeps it. *)
Theorem C02_block_value_shift : forall k l0 rest rest',
  Forall2 (BlockP.padr k) rest rest' ->
  Block.block_value_lines (l0 :: rest') = Block.block_value_lines (l0 :: rest).
Proof. exact BlockP.dedent_shift. Qed.
Print Assumptions C02_block_value_shift.

(* token streams: equal token by token, block-string tokens equal in VALUE *)
Theorem C02_tokens_preserved_all : forall k lines,
  Forall (fun l => LexP.no_nl l = true) lines ->
  BlockP.opt_equiv (Lex.tokens (joined lines)) (Lex.tokens (embedded k lines)).
Proof.
  intros k lines H. rewrite embedded_laid_out. exact (BlockP.layout_ignored_up_to_block_values k lines H).
Qed.
Print Assumptions C02_tokens_preserved_all.

(* end to end, no hypothesis on the lines but "no line feed inside a line": the literal of the generated
   method evaluates to a text that lexes like the operation string, block strings with the same values *)
Theorem C02_embed_same_document : forall lines,
  lines <> [] -> Forall (fun l => LexP.no_nl l = true) lines ->
  exists v, client_embed lines = EvOk v client_suffix /\
            BlockP.opt_equiv (Lex.tokens (joined lines)) (Lex.tokens v).
Proof.
  intros lines Hne H.
  assert (Hn : Forall (fun l => has NL l = false) lines).
  { eapply Forall_impl; [|exact H]. intros l Hl.
    apply has_false. intros x Hx E. subst. unfold LexP.no_nl in Hl. rewrite forallb_forall in Hl.
    specialize (Hl _ Hx). discriminate. }
  destruct (C02_embed lines Hne Hn) as (v & Ev & [-> | ->]).
  - exists (joined lines). split; [exact Ev | apply BlockP.opt_equiv_refl].
  - exists (embedded 12 lines). split; [exact Ev | apply C02_tokens_preserved_all; exact H].
Qed.
Print Assumptions C02_embed_same_document.

Example C02_block_value_example :
  Block.block_value (L "
    a
       
      b
  ") = [L "a"; L "   "; L "  b"].
Proof. vm_compute. reflexivity. Qed.
