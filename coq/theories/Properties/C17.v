(* C17 — Invalid input is rejected up front, with a typed error and no side effects.
   Property theorems only; proofs live in Proofs/SettingsP.v and Proofs/PipelineP.v.
   Naming: ..._full = what the property demands; ..._partial = proved under an explicit boolean guard;
   ..._refuted = the faithful model violates the full statement (witness). *)
From Coq Require Import List String Ascii ZArith Bool.
From AC Require Import Base.Sexp Base.Json Base.Strs Model.Names Model.Settings Model.Pipeline
  Proofs.SettingsP Proofs.PipelineP.
Import ListNotations.
Local Open Scope string_scope.
Local Open Scope list_scope.

(* ================= full statements that the faithful model violates ================= *)
(* a schema that graphql-core's validation rejects makes the command fail *)
Definition C17_invalid_schema_rejected_full : Prop := forall e cfg w,
  w_schema_errors w <> [] -> exists ph x, snd (run_client e cfg w) = Failed ph x.
(* every failure is an ariadne-codegen exception *)
Definition C17_typed_error_full : Prop := forall e cfg w ph x,
  snd (run_client e cfg w) = Failed ph x -> is_codegen_exn (x_cls x) = true.

(* ================= accept_iff_constraints ================= *)
(* accepted iff every DOCUMENTED constraint holds (order-free table of independent predicates; names usable as
   Python identifiers/modules: keywords excluded; fragments_module_name a module name like the others).
   Unguarded since /repo 0631414 (former finding F16). *)
Theorem C17_accept_iff_documented : forall e cfg src kv r sc,
  get_section cfg = Ok (src, kv) -> section_scalars kv = ScOk sc -> decode_client kv = Some r ->
  ((exists c, get_client_settings e cfg = Ok c) <-> all_hold (client_constraints e r) = true).
Proof. exact get_client_settings_accept_iff. Qed.
Print Assumptions C17_accept_iff_documented.

Theorem C17_schema_accept_iff_documented : forall e cfg src kv r,
  get_section cfg = Ok (src, kv) -> decode_schema kv = Some r ->
  ((exists g, get_graphql_schema_settings e cfg = Ok g) <-> all_hold (schema_constraints e r) = true).
Proof. exact get_schema_settings_accept_iff. Qed.
Print Assumptions C17_schema_accept_iff_documented.

(* include_comments is a closed set: whatever TOML value is given, the comment-mode constraint holds only for
   one of the three mode strings or a (deprecated) boolean; integers - 0 and 1 included -, arrays, tables are
   unknown comment modes (the third disjunct is void for real float lexemes, which are opaque in Base/Json.v) *)
Theorem C17_comment_mode_closed_set : forall kv r v,
  decode_client kv = Some r -> jlookup "include_comments" kv = Some v ->
  valid_comment (r_comments r) = true ->
  (exists s, v = JStr s /\ valid_comment s = true) \/ (exists b, v = JBool b) \/
  (exists l, v = JFloat l /\ valid_comment l = true).
Proof. exact comment_mode_closed_set. Qed.
Print Assumptions C17_comment_mode_closed_set.

Theorem C17_scalar_without_type_refused : forall e cfg src kv,
  get_section cfg = Ok (src, kv) -> section_scalars kv = ScMissingType ->
  get_client_settings e cfg = Err (mkerr MissingConfiguration msg_no_type).
Proof. exact scalar_without_type_refused. Qed.
Print Assumptions C17_scalar_without_type_refused.

(* ================= the error names a violated constraint ================= *)
(* whatever error the settings raise, it is the error of a check that belongs to a row of the documented
   table which is false for this configuration: no spurious reason is ever reported *)
Theorem C17_error_names_violated_constraint : forall e r sc x,
  client_post_init e r sc = Err x ->
  exists id, In (id, Some x) (client_check_rows e r) /\ In (id, false) (client_constraints e r).
Proof. exact client_error_names_violated_constraint. Qed.
Print Assumptions C17_error_names_violated_constraint.

Theorem C17_schema_error_names_violated_constraint : forall e r x,
  schema_post_init e r = Err x ->
  exists id, In (id, Some x) (schema_check_rows e r) /\ In (id, false) (schema_constraints e r).
Proof. exact schema_error_names_violated_constraint. Qed.
Print Assumptions C17_schema_error_names_violated_constraint.

(* ================= header substitution ================= *)
Theorem C17_headers_keys_preserved : forall e h h',
  resolve_headers e h = Ok h' -> map fst h' = map fst h.
Proof. exact resolve_headers_keys. Qed.
Print Assumptions C17_headers_keys_preserved.

Theorem C17_header_value_spec : forall e v v', get_header_value e v = Ok v' ->
  if starts_dollar v
  then v' <> "" /\ getenv e (l2s (drop_while is_dollar (s2l v))) = Some v'
  else v' = v.
Proof. exact header_value_spec. Qed.
Print Assumptions C17_header_value_spec.

(* ================= first_error_is_reported ================= *)
Theorem C17_first_error_is_reported : forall e r sc pre x post,
  client_checks e r = pre ++ Some x :: post -> Forall (fun o => o = None) pre ->
  client_post_init e r sc = Err x.
Proof. exact client_first_error_reported. Qed.
Print Assumptions C17_first_error_is_reported.

Theorem C17_schema_first_error_is_reported : forall e r pre x post,
  schema_checks e r = pre ++ Some x :: post -> Forall (fun o => o = None) pre ->
  schema_post_init e r = Err x.
Proof. exact schema_first_error_reported. Qed.
Print Assumptions C17_schema_first_error_is_reported.

(* ================= unknown_keys_ignored ================= *)
Theorem C17_unknown_keys_ignored : forall e kv1 kv2 k v, is_known client_field_names k = false ->
  client_of_section e (kv1 ++ (k, v) :: kv2) = client_of_section e (kv1 ++ kv2).
Proof. exact client_unknown_key_ignored. Qed.
Print Assumptions C17_unknown_keys_ignored.

Theorem C17_schema_unknown_keys_ignored : forall e kv1 kv2 k v, is_known schema_field_names k = false ->
  schema_of_section e (kv1 ++ (k, v) :: kv2) = schema_of_section e (kv1 ++ kv2).
Proof. exact schema_unknown_key_ignored. Qed.
Print Assumptions C17_schema_unknown_keys_ignored.

Theorem C17_other_tables_ignored : forall top1 top2 k v,
  String.eqb "tool" k = false -> String.eqb "ariadne-codegen" k = false ->
  get_section (JObj (top1 ++ (k, v) :: top2)) = get_section (JObj (top1 ++ top2)).
Proof. exact get_section_other_top_key. Qed.
Print Assumptions C17_other_tables_ignored.

(* ================= settings_pure (by construction over the store model + deep compare in the tie) ========= *)
Theorem C17_settings_pure : forall cfg,
  config_after_client true cfg = cfg /\ config_after_schema cfg = cfg.
Proof. intro cfg. split; [apply config_after_client_copy | apply config_after_schema_id]. Qed.
Print Assumptions C17_settings_pure.

(* ================= typed_error ================= *)
Theorem C17_settings_error_typed : forall e cfg x,
  (get_client_settings e cfg = Err x -> config_exn (x_cls x) = true) /\
  (get_graphql_schema_settings e cfg = Err x -> config_exn (x_cls x) = true).
Proof. intros e cfg x. split; [apply get_client_settings_err_cls | apply get_schema_settings_err_cls]. Qed.
Print Assumptions C17_settings_error_typed.

(* guard: graphql-core itself does not raise (build_ast_schema succeeds, no empty document) *)
Theorem C17_typed_error_partial : forall e cfg w ph x, typed_world w = true ->
  (snd (run_client e cfg w) = Failed ph x -> is_codegen_exn (x_cls x) = true) /\
  (snd (run_schema e cfg w) = Failed ph x -> is_codegen_exn (x_cls x) = true).
Proof.
  intros e cfg w ph x H. split; [apply run_client_typed_error | apply run_schema_typed_error]; exact H.
Qed.
Print Assumptions C17_typed_error_partial.

(* ================= reject_before_write ================= *)
Theorem C17_reject_before_write : forall client e f w ph x,
  snd (run_cli client e f w) = Failed ph x -> no_writes (fst (run_cli client e f w)) = true.
Proof. exact run_cli_reject_before_write. Qed.
Print Assumptions C17_reject_before_write.

Theorem C17_reject_before_write_client : forall e cfg w ph x,
  snd (run_client e cfg w) = Failed ph x -> no_writes (fst (run_client e cfg w)) = true.
Proof. exact run_client_reject_before_write. Qed.
Print Assumptions C17_reject_before_write_client.

Theorem C17_reject_before_write_schema : forall e cfg w ph x,
  snd (run_schema e cfg w) = Failed ph x -> no_writes (fst (run_schema e cfg w)) = true.
Proof. exact run_schema_reject_before_write. Qed.
Print Assumptions C17_reject_before_write_schema.

Theorem C17_writes_only_when_done : forall e cfg w,
  no_writes (fst (run_client e cfg w)) = false -> snd (run_client e cfg w) = Done.
Proof. exact run_client_writes_only_when_done. Qed.
Print Assumptions C17_writes_only_when_done.

(* ================= plugins' process_schema, then validation, then generation: one schema ================= *)
(* every schema use recorded in the log (validation of the operations, construction of the package generator)
   is at the stage AFTER add_mixin_directive_to_schema and the plugins' process_schema *)
Theorem C17_validation_schema_is_generation_schema : forall e cfg w s1 s2,
  In (EValidateOps s1) (fst (run_client e cfg w)) -> In (EGenerate s2) (fst (run_client e cfg w)) ->
  s1 = s2 /\ s1 = SProcessed.
Proof. exact validation_schema_is_generation_schema. Qed.
Print Assumptions C17_validation_schema_is_generation_schema.

(* what graphql-core says about the operations against the schema BEFORE process_schema never matters *)
Theorem C17_raw_verdict_ignored : forall e cfg w errs,
  run_client e cfg (with_raw_op_errors w errs) = run_client e cfg w.
Proof. exact run_client_ignores_raw_verdict. Qed.
Print Assumptions C17_raw_verdict_ignored.

(* ================= the two schema sources ================= *)
(* schema_path is prioritised: with a local schema nothing is ever sent to remote_schema_url *)
Theorem C17_schema_path_prioritised : forall e cfg w,
  (forall c, get_client_settings e cfg = Ok c -> s_schema_path (c_base c) <> "" ->
             no_http (fst (run_client e cfg w)) = true) /\
  (forall g, get_graphql_schema_settings e cfg = Ok g -> s_schema_path (g_base g) <> "" ->
             no_http (fst (run_schema e cfg w)) = true).
Proof.
  intros e cfg w. split; intros; [eapply run_client_schema_path_prioritised | eapply run_schema_schema_path_prioritised]; eauto.
Qed.
Print Assumptions C17_schema_path_prioritised.

(* the remote route (decision chain of Model/Introspect.v): whatever the URL class, the status, the body and
   graphql-core's verdict on the data, a refusal is IntrospectionError — unguarded *)
Theorem C17_remote_failure_typed : forall e cfg w x,
  (forall c, get_client_settings e cfg = Ok c -> s_schema_path (c_base c) = "" ->
             snd (run_client e cfg w) = Failed PhSchema x -> x_cls x = IntrospectionError) /\
  (forall g, get_graphql_schema_settings e cfg = Ok g -> s_schema_path (g_base g) = "" ->
             snd (run_schema e cfg w) = Failed PhSchema x -> x_cls x = IntrospectionError).
Proof.
  intros e cfg w x. split; intros; [eapply run_client_remote_failure_typed | eapply run_schema_remote_failure_typed]; eauto.
Qed.
Print Assumptions C17_remote_failure_typed.

(* ================= syntax / operations: acceptance implies every up-front check passed ================= *)
Theorem C17_accepted_implies_checked : forall e cfg w,
  snd (run_client e cfg w) = Done ->
  exists c, get_client_settings e cfg = Ok c /\
    (s_schema_path (c_base c) <> "" ->
       w_schema_files w <> [] /\ forallb gf_ok (w_schema_files w) = true /\ w_schema_build w = BuildOk) /\
    w_plugin_err w = None /\
    (c_queries_path c <> "" ->
       w_query_files w <> [] /\ forallb gf_ok (w_query_files w) = true /\ relevant_op_errors w = [] /\
       forallb (fun o => match op_name o, op_err o with Some _, None => true | _, _ => false end) (w_ops w) = true) /\
    has_dup (unique_check_names e c w
      (match add_operations (if String.eqb (c_queries_path c) "" then [] else w_ops w) [] with
       | Ok r => r | _ => [] end)) = false.
Proof. exact run_client_done_implies_checked. Qed.
Print Assumptions C17_accepted_implies_checked.

(* since /repo d2e37b3: two operations mapping to one module name are refused in the operations phase,
   i.e. before generate — the modules of an accepted operation list are pairwise distinct *)
Theorem C17_operation_modules_distinct : forall ops r, add_operations ops [] = Ok r -> NoDup r.
Proof. intros ops r. apply add_operations_nodup. constructor. Qed.
Print Assumptions C17_operation_modules_distinct.

Theorem C17_same_module_refused : forall o ops files n,
  op_name o = Some n -> In (module_name n ++ ".py")%string files ->
  add_operations (o :: ops) files
  = Err (mkerr ParsingError ("Duplicated file names: " ++ module_name n ++ ".py")%string).
Proof. exact add_operations_dup_refused. Qed.
Print Assumptions C17_same_module_refused.

(* ... and that refusal leaves no mkdir/write behind (instance of reject_before_write at PhOperations) *)
Theorem C17_operations_refusal_before_write : forall e cfg w x,
  snd (run_client e cfg w) = Failed PhOperations x -> no_writes (fst (run_client e cfg w)) = true.
Proof. intros e cfg w x. apply run_client_reject_before_write. Qed.
Print Assumptions C17_operations_refusal_before_write.

Theorem C17_syntax_error_names_first_bad_file : forall fs log log' x,
  load_files fs log = (log', Some x) ->
  exists pre f post, fs = pre ++ f :: post /\ forallb gf_ok pre = true /\ gf_ok f = false /\
                     x = mkerr InvalidGraphqlSyntax (msg_syntax (gf_path f)).
Proof. exact load_files_err. Qed.
Print Assumptions C17_syntax_error_names_first_bad_file.

(* ================= the validity phase is the identity (finding F17) ================= *)
Theorem C17_schema_validity_ignored : forall e cfg w errs,
  run_client e cfg (with_schema_errors w errs) = run_client e cfg w /\
  run_schema e cfg (with_schema_errors w errs) = run_schema e cfg w.
Proof.
  intros. split; [apply run_client_ignores_schema_validity | apply run_schema_ignores_schema_validity].
Qed.
Print Assumptions C17_schema_validity_ignored.

(* ================= witnesses ================= *)
Definition ok_resp : Introspect.response :=
  {| Introspect.r_status := 200%Z;
     Introspect.r_body := Some (JObj [("data", JObj [("__schema", JObj [("types", JArr [])])])]) |}.
Definition ex_env : env :=
  {| e_paths := [("s.graphql", PFile "type Query { a: Int }"); ("q.graphql", PFile "query Q { a }");
                 ("out", PDir); ("/deps/async_base_client.py", PFile "class AsyncBaseClient:")];
     e_vars := [("TOKEN", "secret")]; e_cwd := "/w"; e_deps := "/deps" |}.
Definition ex_section (extra : section) : section :=
  [("schema_path", JStr "s.graphql"); ("queries_path", JStr "q.graphql"); ("target_package_path", JStr "out")]
  ++ extra.
Definition ex_cfg (extra : section) : json :=
  JObj [("project", JObj []); ("tool", JObj [("ariadne-codegen", JObj (ex_section extra))])].
Definition ex_world (errs : list string) (b : build_res) : world :=
  {| w_schema_files := [{| gf_path := "s.graphql"; gf_ok := true |}]; w_schema_build := b; w_url := Introspect.UOk; w_resp := ok_resp; w_deep := None;
     w_schema_errors := errs; w_plugin_err := None;
     w_query_files := [{| gf_path := "q.graphql"; gf_ok := true |}]; w_op_errors := []; w_op_errors_raw := [];
     w_ops := [{| op_name := Some "GetQ"; op_err := None |}]; w_fragments := false; w_query_type := true; w_mutation_type := false |}.
Definition is_ok {A} (r : res A) : bool := match r with Ok _ => true | _ => false end.
Definition dummy_craw : craw :=
  {| r_base := {| b_schema_path := ""; b_url := ""; b_headers := []; b_verify := true; b_custom_ops := false;
                  b_plugins := [] |}; r_queries_path := ""; r_pkg_name := ""; r_pkg_path := None;
     r_client_name := ""; r_client_file := ""; r_bc_name := ""; r_bc_path := ""; r_enums := "";
     r_inputs := ""; r_fragments := ""; r_comments := ""; r_comments_opaque := false; r_snake := true; r_all_inputs := true;
     r_all_enums := true; r_async := true; r_otel := false; r_files := [] |}.

(* former finding F16 (fixed in /repo 0631414), kept as regression statements: keywords and an unusable
   fragments_module_name are refused by the settings, with the error naming the value *)
Theorem C17_keyword_rejected :
  get_client_settings ex_env (ex_cfg [("client_name", JStr "class")])
    = Err (mkerr InvalidConfiguration "Provided name class cannot be used as python identifier.") /\
  violated (client_constraints ex_env
    (match decode_client (ex_section [("client_name", JStr "class")]) with Some r => r | None => dummy_craw end))
    = ["client-name"].
Proof. vm_compute. auto. Qed.

Theorem C17_fragments_name_checked :
  get_client_settings ex_env (ex_cfg [("fragments_module_name", JStr "a-b")])
    = Err (mkerr InvalidConfiguration "Provided name a-b cannot be used as python identifier.").
Proof. vm_compute. auto. Qed.

Theorem C17_schema_keyword_rejected :
  get_graphql_schema_settings ex_env (ex_cfg [("schema_variable_name", JStr "class")])
    = Err (mkerr InvalidConfiguration "Provided name class cannot be used as python identifier.").
Proof. vm_compute. auto. Qed.

(* former observation, fixed in /repo d2e37b3, regression: GetA and getA both map to get_a.py *)
Theorem C17_ops_same_module_refused_regression :
  let w := {| w_schema_files := [{| gf_path := "s.graphql"; gf_ok := true |}]; w_schema_build := BuildOk;
              w_url := Introspect.UOk; w_resp := ok_resp; w_deep := None; w_schema_errors := []; w_plugin_err := None;
              w_query_files := [{| gf_path := "q.graphql"; gf_ok := true |}]; w_op_errors := []; w_op_errors_raw := [];
              w_ops := [{| op_name := Some "GetA"; op_err := None |}; {| op_name := Some "getA"; op_err := None |}];
              w_fragments := false; w_query_type := true; w_mutation_type := false |} in
  snd (run_client ex_env (ex_cfg []) w)
    = Failed PhOperations (mkerr ParsingError "Duplicated file names: get_a.py") /\
  no_writes (fst (run_client ex_env (ex_cfg []) w)) = true.
Proof. vm_compute. auto. Qed.

(* /repo 18e873d, regression: variable names that shadow an import of the generated module, or each other *)
Theorem C17_schema_reserved_variable_rejected :
  get_graphql_schema_settings ex_env (ex_cfg [("schema_variable_name", JStr "GraphQLSchema")])
    = Err (mkerr InvalidConfiguration
        "Provided name GraphQLSchema is imported by the generated schema module and cannot be used as a variable name in it.") /\
  get_graphql_schema_settings ex_env (ex_cfg [("type_map_variable_name", JStr "schema")])
    = Err (mkerr InvalidConfiguration "schema_variable_name and type_map_variable_name must be different.").
Proof. vm_compute. auto. Qed.

(* a plugin hides a field: valid before, invalid after -> refused, typed, nothing written;
   a plugin adds a field: invalid before, valid after -> accepted *)
Example C17_processed_schema_decides :
  let w proc raw := {| w_schema_files := [{| gf_path := "s.graphql"; gf_ok := true |}]; w_schema_build := BuildOk;
       w_url := Introspect.UOk; w_resp := ok_resp; w_deep := None; w_schema_errors := []; w_plugin_err := None;
       w_query_files := [{| gf_path := "q.graphql"; gf_ok := true |}]; w_op_errors := proc; w_op_errors_raw := raw;
       w_ops := [{| op_name := Some "Q"; op_err := None |}]; w_fragments := false; w_query_type := true;
       w_mutation_type := false |} in
  let bad := [("FieldsOnCorrectTypeRule", "Cannot query field 'internalStats' on type 'Query'.")] in
  run_client ex_env (ex_cfg []) (w bad [])
    = ([ERead "s.graphql"; ERead "q.graphql"; EValidateOps SProcessed],
       Failed PhQueries (mkerr InvalidOperationForSchema "Cannot query field 'internalStats' on type 'Query'.")) /\
  snd (run_client ex_env (ex_cfg []) (w [] bad)) = Done.
Proof. vm_compute. auto. Qed.

Example C17_comment_mode_one_is_not_true :
  get_client_settings ex_env (ex_cfg [("include_comments", JInt 1)])
    = Err (mkerr InvalidConfiguration "'1' is not a valid choice. Valid options are: none, stable, timestamp") /\
  get_client_settings ex_env (ex_cfg [("include_comments", JArr [JStr "stable"])])
    = Err (mkerr InvalidConfiguration "' is not a valid choice. Valid options are: none, stable, timestamp") /\
  is_ok (get_client_settings ex_env (ex_cfg [("include_comments", JBool true)])) = true.
Proof. vm_compute. auto. Qed.

(* F17: an invalid schema is accepted and the package is written *)
Theorem C17_invalid_schema_rejected_refuted : exists e cfg w,
  w_schema_errors w <> [] /\ snd (run_client e cfg w) = Done /\ no_writes (fst (run_client e cfg w)) = false.
Proof.
  exists ex_env, (ex_cfg []),
    (ex_world ["Interface field I.a expected but B does not provide it."] BuildOk).
  split; [discriminate|]. vm_compute. auto.
Qed.

Theorem C17_invalid_schema_rejected_full_refuted : ~ C17_invalid_schema_rejected_full.
Proof.
  intro H.
  destruct (H ex_env (ex_cfg []) (ex_world ["Type Foo must define one or more fields."] BuildOk))
    as (ph & x & E); [discriminate|]. vm_compute in E. discriminate.
Qed.
Print Assumptions C17_invalid_schema_rejected_full_refuted.

(* F17: an unknown type surfaces as graphql-core's bare TypeError *)
Theorem C17_typed_error_refuted : ~ C17_typed_error_full.
Proof.
  intro H.
  specialize (H ex_env (ex_cfg []) (ex_world ["Unknown type 'Nope'."] (BuildRaises "TypeError" "Unknown type: 'Nope'."))
                PhSchema (mkerr (Other "TypeError") "Unknown type: 'Nope'.") eq_refl).
  discriminate.
Qed.
Print Assumptions C17_typed_error_refuted.

(* without the shallow copy of the section the caller's dictionary would change *)
Theorem C17_copy_is_needed_refuted : exists cfg, config_after_client false cfg <> cfg.
Proof. exists (ex_cfg [("include_comments", JBool true)]). vm_compute. discriminate. Qed.

(* the remote route on concrete answers: 500, a body that is not JSON, data without __schema *)
Example C17_remote_examples :
  let cfg := JObj [("tool", JObj [("ariadne-codegen", JObj [("remote_schema_url", JStr "http://h/g");
               ("queries_path", JStr "q.graphql"); ("target_package_path", JStr "out")])])] in
  let w r := {| w_schema_files := []; w_schema_build := BuildOk; w_url := Introspect.UOk; w_resp := r;
                w_deep := None; w_schema_errors := []; w_plugin_err := None;
                w_query_files := [{| gf_path := "q.graphql"; gf_ok := true |}]; w_op_errors := []; w_op_errors_raw := [];
                w_ops := [{| op_name := Some "Q"; op_err := None |}]; w_fragments := false; w_query_type := true;
                w_mutation_type := false |} in
  run_client ex_env cfg (w {| Introspect.r_status := 500%Z; Introspect.r_body := None |})
    = ([EHttp "http://h/g"], Failed PhSchema (mkerr IntrospectionError
         "Failure of remote schema introspection. HTTP status code: 500")) /\
  snd (run_client ex_env cfg (w {| Introspect.r_status := 200%Z; Introspect.r_body := None |}))
    = Failed PhSchema (mkerr IntrospectionError "Introspection result is not a valid json.") /\
  snd (run_client ex_env cfg (w {| Introspect.r_status := 200%Z; Introspect.r_body := Some (JObj [("data", JObj [])]) |}))
    = Failed PhSchema (mkerr IntrospectionError "Invalid or incomplete introspection result: ") /\
  snd (run_client ex_env cfg (w ok_resp)) = Done.
Proof. vm_compute. repeat split. Qed.

(* ================= non-vacuity ================= *)
Example C17_valid_accepted_and_written :
  snd (run_client ex_env (ex_cfg [("zzz", JInt 1)]) (ex_world [] BuildOk)) = Done /\
  no_writes (fst (run_client ex_env (ex_cfg []) (ex_world [] BuildOk))) = false /\
  typed_world (ex_world [] BuildOk) = true /\
  all_hold (client_constraints ex_env
    (match decode_client (ex_section []) with Some r => r | None => dummy_craw end)) = true.
Proof. vm_compute. auto. Qed.

Example C17_each_phase_can_fail :
  snd (run_client ex_env (ex_cfg [("enums_module_name", JStr "1x")]) (ex_world [] BuildOk))
    = Failed PhSettings (mkerr InvalidConfiguration "Provided name 1x cannot be used as python identifier.") /\
  snd (run_client ex_env (ex_cfg [])
         {| w_schema_files := [{| gf_path := "s.graphql"; gf_ok := false |}]; w_schema_build := BuildOk;
            w_url := Introspect.UOk; w_resp := ok_resp; w_deep := None; w_schema_errors := []; w_plugin_err := None; w_query_files := [];
            w_op_errors := []; w_op_errors_raw := []; w_ops := []; w_fragments := false; w_query_type := true; w_mutation_type := false |})
    = Failed PhSchema (mkerr InvalidGraphqlSyntax "Invalid graphql syntax in file s.graphql") /\
  snd (run_client ex_env (ex_cfg [])
         {| w_schema_files := [{| gf_path := "s.graphql"; gf_ok := true |}]; w_schema_build := BuildOk;
            w_url := Introspect.UOk; w_resp := ok_resp; w_deep := None; w_schema_errors := []; w_plugin_err := None;
            w_query_files := [{| gf_path := "q.graphql"; gf_ok := true |}];
            w_op_errors := [("NoUnusedFragmentsRule", "Fragment 'F' is never used.");
                            ("ScalarLeafsRule", "Field 'me' must have a selection of subfields.")];
            w_op_errors_raw := [];
            w_ops := []; w_fragments := false; w_query_type := true; w_mutation_type := false |})
    = Failed PhQueries (mkerr InvalidOperationForSchema "Field 'me' must have a selection of subfields.") /\
  snd (run_client ex_env (ex_cfg [])
         {| w_schema_files := [{| gf_path := "s.graphql"; gf_ok := true |}]; w_schema_build := BuildOk;
            w_url := Introspect.UOk; w_resp := ok_resp; w_deep := None; w_schema_errors := []; w_plugin_err := None;
            w_query_files := [{| gf_path := "q.graphql"; gf_ok := true |}]; w_op_errors := []; w_op_errors_raw := [];
            w_ops := [{| op_name := Some "Client"; op_err := None |}]; w_fragments := false; w_query_type := true; w_mutation_type := false |})
    = Failed PhGenerate (mkerr ParsingError "Duplicated file names: ").
Proof. vm_compute. repeat split. Qed.
