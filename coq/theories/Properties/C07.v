(* C07 — Custom scalars are parsed and serialised exactly once per occurrence.
   Property theorems only; proofs live in Proofs/ScalarsP.v.
   Model: Model/Scalars.v (ScalarData, result/input annotations and where Optional/List wrappers are put
   around them, imports, the serialize(<whole argument>) of Model/Args.v, and the hook-call LOG semantics
   of the annotation fragment).  Logs are LISTS: equality gives order and multiplicity (multiset equality
   follows). *)
From Coq Require Import List String Ascii ZArith Bool.
From AC Require Import Base.Strs Base.Json Gql.Coerce Model.Args Model.Convert Model.Scalars Proofs.ScalarsP.
From AC Require Py.Ann Py.Pydantic Py.ParseLog Proofs.ParseLogP Proofs.ParseLogObjP Model.Results Proofs.ResultsRunP Proofs.ResultsObjP Gql.Schema Gql.Exec.
From Coq Require Import Permutation.
Import ListNotations.
Local Open Scope string_scope.

(* ---- results: parse once per non-null occurrence, never on null; every type, every conformant value ---- *)
Theorem C07_parse_once : forall S t nn j log,
  occ_parse S t nn j = Some log -> vlog (result_sann S t (negb nn)) j = Some log.
Proof. exact parse_once. Qed.
Print Assumptions C07_parse_once.

(* ---- input model fields: serialize once per non-None occurrence; every type, every schema-valid value.
        (Unguarded since /repo 1ef155d made list items nullable; before, [S]! needed the guard ok_ty.) ---- *)
Theorem C07_serialize_once_fields : forall S t v log,
  occ_ser S t false v = Some log -> dlog (input_sann S t true) v = Some log.
Proof. intros S t v log. apply serialize_once_fields. discriminate. Qed.
Print Assumptions C07_serialize_once_fields.

Definition cS : scalar_cfg :=
  {| sc_type := "Any"; sc_ser := Some "vscal.ser_S"; sc_parse := Some "vscal.parse_S"; sc_import := None |}.
Definition SS : schema := [("S", DCustom (Some cS))].

(* ---- top-level arguments (full since /repo d163d56): evaluating the generated expression with the argument
        bound to its parameter calls serialize once per non-None occurrence, in order, for every wrapper
        nesting; never for None; never for an omitted argument (UNSET).  Side condition: the serialize
        function is not itself named like the parameter (the comprehension variable steps aside since /repo 6bef770). ---- *)
Theorem C07_serialize_args : forall S ser t v log,
  (forall f, var_ser S t = Some f -> String.eqb f "x" = false) ->
  occ_ser S t false v = Some log -> arg_log ser S t v = Some log.
Proof. exact serialize_args. Qed.
Print Assumptions C07_serialize_args.

Theorem C07_serialize_args_omitted : forall S ser t,
  (forall f, var_ser S t = Some f -> String.eqb f "x" = false) ->
  is_nonnull t = false -> arg_log ser S t PUnset = Some [].
Proof. exact serialize_args_omitted. Qed.
Print Assumptions C07_serialize_args_omitted.

(* the former refutation witnesses (F10), kept as regression cases *)
Example C07_f10_regression :
  arg_log ser_inst SS (TNamed "S") PNone = Some [] /\
  arg_log ser_inst SS (TNamed "S") PUnset = Some [] /\
  arg_log ser_inst SS (TList (TNamed "S")) (PList [PCustom (JStr "a"); PNone; PCustom (JInt 2)]) =
    Some [("ser_S", PCustom (JStr "a")); ("ser_S", PCustom (JInt 2))] /\
  occ_ser SS (TList (TNamed "S")) false (PList [PCustom (JStr "a"); PNone; PCustom (JInt 2)]) =
    Some [("ser_S", PCustom (JStr "a")); ("ser_S", PCustom (JInt 2))].
Proof. vm_compute. repeat split. Qed.

(* ---- custom operation builder arguments (custom_arguments.py; full since /repo 3032a3a fixed finding F15):
        evaluating the generated expression calls serialize once per non-None occurrence, in order, for every
        wrapper nesting; None ("argument not given") is never serialised ---- *)
Theorem C07_custom_args : forall S ser t v log,
  (forall f, var_ser S t = Some f -> String.eqb f "x" = false /\ is_item_name f = false) ->
  occ_ser S t false v = Some log -> custom_arg_log ser S t v = Some log.
Proof. exact custom_args. Qed.
Print Assumptions C07_custom_args.

(* the former refutation witness (F15), kept as regression case *)
Example C07_f15_regression :
  custom_arg_log ser_inst SS (TList (TNamed "S")) (PList [PCustom (JStr "a"); PNone]) = Some [("ser_S", PCustom (JStr "a"))] /\
  custom_arg_log ser_inst SS (TNonNull (TList (TNonNull (TNamed "S")))) PNone = Some [] /\
  dictval_str (gen_cu (TList (TNonNull (TNamed "S"))) "codes" "ser_S" true 0) =
    "[ser_S(_item0) for _item0 in codes] if codes is not None else None".
Proof. vm_compute. repeat split. Qed.

(* ---- imports ---- *)
Theorem C07_imports_complete : forall c nm m o,
  In nm (names_to_import c) -> split_dotted nm = (Some m, o) -> In (m, [o]) (scalar_imports c).
Proof. exact imports_complete. Qed.
Print Assumptions C07_imports_complete.

Theorem C07_imports_only_needed : forall c m names,
  In (m, names) (scalar_imports c) ->
  (sc_import c = Some m /\ names = names_to_import c) \/
  exists nm o, In nm (names_to_import c) /\ split_dotted nm = (Some m, o) /\ names = [o].
Proof. exact imports_only_needed. Qed.
Print Assumptions C07_imports_only_needed.

Theorem C07_import_key : forall c m, sc_import c = Some m -> In (m, names_to_import c) (scalar_imports c).
Proof. exact import_key. Qed.
Print Assumptions C07_import_key.

(* ---- passthrough: without parse (resp. serialize) no hook fires, whatever the wrappers ---- *)
Theorem C07_passthrough_parse : forall S t nl j log,
  cfg_parse (scalar_cfg_of S (named_of t)) = None -> vlog (result_sann S t nl) j = Some log -> log = [].
Proof. exact passthrough_parse. Qed.
Print Assumptions C07_passthrough_parse.

Theorem C07_passthrough_serialize : forall S t nn v log,
  cfg_ser (scalar_cfg_of S (named_of t)) = None -> occ_ser S t nn v = Some log -> log = [].
Proof. exact occ_ser_no_ser. Qed.
Print Assumptions C07_passthrough_serialize.

(* ---- WHOLE RESPONSES (nested objects, lists of objects, fragments as base classes, discriminated unions): the log
        of parse calls of validating a payload against a class table (Py/ParseLog.v plog: fields along the MRO, later
        definitions win, alias-then-name lookup, one union member by __typename) is a permutation of the occurrences
        PRESENT IN THE PAYLOAD (pocc: every key of every response object, matched to its field) - none missed, none
        twice - for ANY class table, whenever keys are hereditarily unique (uniq: distinct payload keys, distinct
        field keys, no populate_by_name fallback); and parse never sees null in an accepted payload. ---- *)
Theorem C07_parse_once_response : forall n cs a j,
  ParseLog.uniq n cs a j = true -> Permutation (ParseLog.plog n cs a j) (ParseLog.pocc n cs a j).
Proof. exact ParseLogP.parse_once_response. Qed.
Print Assumptions C07_parse_once_response.

Theorem C07_parse_never_null : forall n cs enums a j,
  Pydantic.accepts n cs enums a j = true -> Forall (fun e => snd e <> JNull) (ParseLog.plog n cs a j).
Proof. exact ParseLogP.parse_never_null. Qed.
Print Assumptions C07_parse_never_null.

(* composed with C01's theorem for the classes Model/Results.v generates (sub-language op_ok with distinct Python
   field names; mx: the @mixin names used on the operation and its fields, none of them a generated class - mx_ok):
   a conformant response without duplicate object keys (jwf: what json parsing yields) is accepted, and then parse
   runs on exactly its occurrences, never on null.  No evaluated guard: hereditary uniqueness is derived from op_ok
   (Proofs/ParseLogObjP.v op_uniq). *)
Theorem C07_uniq_op : forall C S frs fuel kind name mixins sels root own pub' cls g mx fc j n,
  Results.root_type_name S kind = Results.Ok root ->
  Results.op_parse fuel C S frs kind name mixins sels = Results.Ok (own, pub', false) ->
  Results.all_classes fuel C S frs (Results.DOp kind name mixins sels) = Results.Ok cls ->
  ResultsObjP.op_ok g true C S frs mx mixins root sels = true -> ResultsRunP.mx_ok cls mx = true ->
  ResultsRunP.no_basemodel own = true ->
  Exec.conf_op fc S frs root sels j = true -> ResultsObjP.jwf j = true -> n >= fuel + 2 ->
  ParseLog.uniq n cls (Ann.AClass (Results.pascal_s name)) j = true.
Proof. exact ParseLogObjP.op_uniq. Qed.
Print Assumptions C07_uniq_op.

Theorem C07_parse_once_op : forall C S frs fuel kind name mixins sels root own pub' cls g mx fc j n,
  Results.root_type_name S kind = Results.Ok root ->
  Results.op_parse fuel C S frs kind name mixins sels = Results.Ok (own, pub', false) ->
  Results.all_classes fuel C S frs (Results.DOp kind name mixins sels) = Results.Ok cls ->
  ResultsObjP.op_ok g true C S frs mx mixins root sels = true -> ResultsRunP.mx_ok cls mx = true ->
  ResultsRunP.no_basemodel own = true ->
  Exec.conf_op fc S frs root sels j = true -> ResultsObjP.jwf j = true -> n >= fuel + 2 ->
  Pydantic.accepts n cls (Results.schema_enums S) (Ann.AClass (Results.pascal_s name)) j = true /\
  Permutation (ParseLog.plog n cls (Ann.AClass (Results.pascal_s name)) j)
              (ParseLog.pocc n cls (Ann.AClass (Results.pascal_s name)) j) /\
  Forall (fun e => snd e <> JNull) (ParseLog.plog n cls (Ann.AClass (Results.pascal_s name)) j).
Proof. exact ParseLogObjP.parse_once_op. Qed.
Print Assumptions C07_parse_once_op.

(* ---- non-vacuity ---- *)
Example C07_examples :
  sann_str (result_sann SS (TList (TNonNull (TList (TNamed "S")))) true) =
    "Optional[List[List[Optional[Annotated[Any, BeforeValidator(parse_S)]]]]]" /\
  sann_str (input_sann SS (TNonNull (TList (TNamed "S"))) true) =
    "List[Optional[Annotated[Any, PlainSerializer(ser_S)]]]" /\
  vlog (result_sann SS (TList (TList (TNamed "S"))) true)
       (JArr [JArr [JStr "a"; JNull]; JNull; JArr [JInt 1]]) = Some [("parse_S", JStr "a"); ("parse_S", JInt 1)] /\
  occ_parse SS (TList (TList (TNamed "S"))) false
       (JArr [JArr [JStr "a"; JNull]; JNull; JArr [JInt 1]]) = Some [("parse_S", JStr "a"); ("parse_S", JInt 1)] /\
  scalar_imports {| sc_type := "datetime.datetime"; sc_ser := Some "a.b.ser"; sc_parse := Some "par";
                    sc_import := Some "mod" |} =
    [("mod", ["datetime.datetime"; "a.b.ser"; "par"]); ("datetime", ["datetime"]); ("a.b", ["ser"])].
Proof. vm_compute. repeat split. Qed.
