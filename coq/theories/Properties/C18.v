(* C18 — GraphQL names map lawfully to Python names.
   Property theorems only; proofs live in Proofs/NamesP.v. *)
From Coq Require Import List String Ascii Bool.
From AC Require Import Base.Strs Model.Names Model.Scopes Proofs.NamesP Proofs.ScopesP Proofs.PascalP.
Import ListNotations.
Local Open Scope string_scope.

(* ---- full statements (what the property demands of process_name) ---- *)
Definition C18_valid_full : Prop := forall fl n, gql_name n = true ->
  py_identifier (process_name fl n) = true /\ iskeyword (process_name fl n) = false /\
  (f_reserved fl = true -> mem_chars (process_name fl n) pydantic_reserved = false).
Definition C18_injective_full : Prop := forall fl a b, gql_name a = true -> gql_name b = true ->
  process_name fl a = process_name fl b -> a = b.

(* ---- proved.  After the fix "trim before the keyword / reserved checks" the keyword and reserved
        laws hold for EVERY GraphQL name; validity as an identifier still needs the guard g_c18
        (a digit exposed by trimming / snake-casing, the remaining part of finding F18) ---- *)
Theorem C18_valid_identifier_partial : forall fl n, gql_name n = true -> g_c18 fl n = true ->
  py_identifier (process_name fl n) = true.
Proof. exact process_valid_identifier. Qed.
Print Assumptions C18_valid_identifier_partial.

Theorem C18_not_keyword : forall fl n, gql_name n = true -> iskeyword (process_name fl n) = false.
Proof. exact process_not_keyword. Qed.
Print Assumptions C18_not_keyword.

Theorem C18_not_reserved : forall fl n, f_reserved fl = true -> gql_name n = true ->
  mem_chars (process_name fl n) pydantic_reserved = false.
Proof. exact process_not_reserved. Qed.
Print Assumptions C18_not_reserved.

(* every letter and digit kept, in order (case-folded); unguarded, any reserved list *)
Theorem C18_alnum_preserved : forall R fl n, all_us n = false ->
  map to_lower (filter is_alnum (process_name_with R fl n)) = map to_lower (filter is_alnum n).
Proof. exact process_alnum_preserved. Qed.
Print Assumptions C18_alnum_preserved.

Theorem C18_snake_idempotent : forall n, snake (snake n) = snake n.
Proof. exact snake_idempotent. Qed.
Print Assumptions C18_snake_idempotent.

Theorem C18_process_idempotent_partial : forall fl n, gql_name n = true -> g_c18 fl n = true ->
  all_us n = false -> process_name fl (process_name fl n) = process_name fl n.
Proof. exact process_idempotent. Qed.
Print Assumptions C18_process_idempotent_partial.

(* the original name stays the wire name of the declared field *)
Theorem C18_wire_name_kept : forall fl n, wire_name (field_names fl n) = n.
Proof. exact field_wire_name. Qed.
Print Assumptions C18_wire_name_kept.

(* enum values: the member name differs from the value only by the keyword suffix, is never a keyword,
   and two values of one enum collide only in the shape  kw / kw_  (part of finding F18-silent-merge) *)
Theorem C18_enum_member_collision : forall a b, enum_member a = enum_member b -> a <> b ->
  (enum_renamed a = true /\ b = (a ++ ["_"%char])%list) \/ (enum_renamed b = true /\ a = (b ++ ["_"%char])%list).
Proof. exact enum_member_collision. Qed.
Print Assumptions C18_enum_member_collision.

Theorem C18_enum_member_not_keyword : forall v, iskeyword (enum_member v) = false.
Proof. exact enum_member_not_keyword. Qed.
Print Assumptions C18_enum_member_not_keyword.

(* ---- refutations of the full statements on the faithful model (finding F18) ---- *)
Definition FL (a b c : bool) := {| f_snake := a; f_trim := b; f_reserved := c |}.

Theorem C18_valid_refuted_digit : exists fl n, gql_name n = true /\
  py_identifier (process_name fl n) = false.
Proof. exists (FL true true true), (s2l "_1"). vm_compute. auto. Qed.

(* regression of the repaired part of F18: trimming no longer exposes a keyword / reserved name *)
Example C18_trim_then_suffix :
  l2s (process_name (FL false true true) (s2l "_class")) = "class_" /\
  l2s (process_name (FL false true true) (s2l "_copy")) = "copy_" /\
  l2s (process_name (FL false true true) (s2l "__")) = "underscore_named_field_".
Proof. vm_compute. repeat split. Qed.

Theorem C18_full_valid_refuted : ~ C18_valid_full.
Proof.
  intro H. destruct (H (FL true true true) (s2l "_1") eq_refl) as [H1 _].
  vm_compute in H1. discriminate.
Qed.

Theorem C18_injective_refuted : ~ C18_injective_full.
Proof.
  intro H. specialize (H (FL true true true) (s2l "fooBar") (s2l "foo_bar") eq_refl eq_refl eq_refl).
  discriminate.
Qed.
Print Assumptions C18_injective_refuted.

Theorem C18_injective_refuted_nosnake : exists a b, a <> b /\ gql_name a = true /\ gql_name b = true /\
  g_c18 (FL false true true) a = true /\ g_c18 (FL false true true) b = true /\
  process_name (FL false true true) a = process_name (FL false true true) b.
Proof. exists (s2l "class"), (s2l "class_"). vm_compute. repeat split; auto; discriminate. Qed.

(* ---- non-vacuity: the hypotheses are met by non-trivial names ---- *)
Example C18_guard_satisfiable :
  gql_name (s2l "HTTPServer2_fooBar") = true /\ g_c18 (FL true true true) (s2l "HTTPServer2_fooBar") = true /\
  all_us (s2l "HTTPServer2_fooBar") = false /\
  l2s (process_name (FL true true true) (s2l "HTTPServer2_fooBar")) = "http_server_2_foo_bar" /\
  l2s (process_name (FL true true true) (s2l "modelDump")) = "model_dump_" /\
  l2s (process_name (FL false false false) (s2l "None")) = "None_".
Proof. vm_compute. repeat split. Qed.

(* ==== scope level: the two scopes in which the generator itself keeps colliding names apart
        (variables of one operation: arguments.py; fields of one input: input_types.py) ==== *)

(* the `while <bad name>: name += "_"` loop always ends on a name that is not bad, provided the bad names
   are finitely many (the model's fuel is never what stops it) *)
Theorem C18_fresh_loop_ends : forall bad B, (forall x, bad x = true -> In x B) ->
  forall fuel n, cnt B n < fuel -> bad (fresh_go fuel bad n) = false.
Proof. exact fresh_go_ok. Qed.
Print Assumptions C18_fresh_loop_ends.

(* variables: for EVERY list of GraphQL names (equal ones included) and every reserved set, the parameter
   names are pairwise distinct, one per variable, outside the reserved names, valid identifiers, no keywords,
   and keep the letters and digits of the original.  No guard: the identifier repair closed F18 here. *)
Theorem C18_variables_lawful : forall snake reserved names,
  Forall (fun n => gql_name n = true) names ->
  let out := var_names snake reserved names in
  NoDup out /\ List.length out = List.length names /\
  (forall x, In x out -> ~ In x reserved) /\
  Forall (fun p => py_identifier p = true /\ iskeyword p = false) out /\
  Forall2 (fun n p => all_us n = false ->
             map to_lower (filter is_alnum p) = map to_lower (filter is_alnum n)) names out.
Proof. exact var_names_lawful. Qed.
Print Assumptions C18_variables_lawful.

(* input fields: pairwise distinct Python names, none of them the GraphQL name of another field (by-name and
   by-alias population never cross), never a keyword or a pydantic attribute, letters and digits kept;
   validity as an identifier still under the F18 guard of process_name *)
Theorem C18_input_fields_lawful_partial : forall snake names,
  Forall (fun n => gql_name n = true) names ->
  let out := input_field_names snake names in
  NoDup out /\
  Forall2 (fun n p => (In p names -> p = n) /\
                      iskeyword p = false /\ mem_chars p pydantic_reserved = false /\
                      (g_c18 (input_flags snake) n = true -> py_identifier p = true) /\
                      (all_us n = false ->
                         map to_lower (filter is_alnum p) = map to_lower (filter is_alnum n)))
          names out.
Proof. exact input_names_lawful. Qed.
Print Assumptions C18_input_fields_lawful_partial.

Theorem C18_input_wire_names : forall snake names, map wire_name (input_decls snake names) = names.
Proof. exact input_decls_wire_names. Qed.
Print Assumptions C18_input_wire_names.

(* regression of the repaired scopes (/repo 7f3b78b, 70630f0, bec4417, a4347c6) *)
Example C18_scope_regression :
  map l2s (var_names true (map s2l ["self"; "kwargs"; "query"]) (map s2l ["fooBar"; "foo_bar"; "_1"; "class"; "class_"; "self"; "query"]))
    = ["foo_bar"; "foo_bar_"; "_1"; "class_"; "class__"; "self_"; "query_"] /\
  map l2s (input_field_names true (map s2l ["fooBar"; "foo_bar"; "class"; "class_"; "copy"]))
    = ["foo_bar_"; "foo_bar"; "class__"; "class_"; "copy_"] /\
  map l2s (input_field_names false (map s2l ["_a"; "a"; "a_"]))
    = ["a__"; "a"; "a_"].
Proof. vm_compute. repeat split. Qed.

(* ==== operations of one client: the result class of an operation is str_to_pascal_case(name)
        (package.py add_operation), its module and method are process_name(name, snake) ==== *)
Definition op_flags18 : pflags := {| f_snake := true; f_trim := false; f_reserved := false |}.

(* full statement: two operations that get past the duplicate-module refusal never share a class name *)
Definition C18_operation_classes_full : Prop := forall a b, gql_name a = true -> gql_name b = true ->
  process_name op_flags18 a <> process_name op_flags18 b -> pascal a <> pascal b.

(* every letter and digit of the operation name is kept in the class name, in order (case-folded) *)
Theorem C18_operation_class_alnum_preserved : forall n,
  map to_lower (filter is_alnum (pascal n)) = map to_lower (filter is_alnum n).
Proof. exact pascal_alnum_preserved. Qed.
Print Assumptions C18_operation_class_alnum_preserved.

Theorem C18_operation_class_idempotent : forall n, pascal (pascal n) = pascal n.
Proof. exact pascal_idempotent. Qed.
Print Assumptions C18_operation_class_idempotent.

Theorem C18_operation_class_no_underscore : forall n, forallb (fun c => negb (is_us c)) (pascal n) = true.
Proof. exact pascal_no_us. Qed.
Print Assumptions C18_operation_class_no_underscore.

(* a valid identifier exactly outside the F18-invalid-name shape (no letter/digit at all, or a digit first) *)
Theorem C18_operation_class_identifier_partial : forall n, gql_name n = true -> all_us n = false ->
  first_alnum_is_digit n = false -> py_identifier (pascal n) = true.
Proof. exact pascal_identifier. Qed.
Print Assumptions C18_operation_class_identifier_partial.

Theorem C18_operation_class_identifier_refuted : exists a b, gql_name a = true /\ gql_name b = true /\
  l2s (pascal a) = "" /\ l2s (pascal b) = "1x".
Proof. exists (s2l "_"), (s2l "_1x"). vm_compute. auto. Qed.

(* class names merge only for names that agree up to case and underscores ... *)
Theorem C18_operation_class_merge_only_case_us : forall a b, pascal a = pascal b ->
  map to_lower (filter is_alnum a) = map to_lower (filter is_alnum b).
Proof. exact pascal_merge_only_case_us. Qed.
Print Assumptions C18_operation_class_merge_only_case_us.

(* ... but they do merge while the modules stay apart: finding F18-operation-class-merge *)
Theorem C18_operation_classes_refuted : ~ C18_operation_classes_full.
Proof.
  intro H. apply (H (s2l "aB") (s2l "AB") eq_refl eq_refl); [vm_compute; discriminate | reflexivity].
Qed.
Print Assumptions C18_operation_classes_refuted.

Example C18_operation_class_examples :
  l2s (pascal (s2l "aB")) = "AB" /\ l2s (pascal (s2l "AB")) = "AB" /\
  l2s (process_name op_flags18 (s2l "aB")) = "a_b" /\ l2s (process_name op_flags18 (s2l "AB")) = "ab" /\
  l2s (pascal (s2l "get_HTTP_code2")) = "GetHTTPCode2" /\ l2s (pascal (s2l "__x__y")) = "XY" /\
  gql_name (s2l "get_HTTP_code2") = true /\ all_us (s2l "get_HTTP_code2") = false /\
  first_alnum_is_digit (s2l "get_HTTP_code2") = false.
Proof. vm_compute. repeat split. Qed.
